"""C17 — amount conversion is exact to the smallest unit (values.py, Output / add_output / raw)."""
import hashlib, json, os
from fractions import Fraction
from decimal import Decimal, ROUND_HALF_EVEN, localcontext
from core import Case, RUN, load_known

PROP = 'C17'
COQ_FILES = ['Extract/C17.v', 'Properties/C17.v']
DRIVER = 'c17'
IMPL = 'harness/impl/c17_impl.py'
# Exactly what Print Assumptions prints for the theorems of Properties/C17.v.  All are declared by the standard
# library: the classical real numbers (used through Flocq), the specification axioms of primitive floats
# (FloatAxioms), and the primitive float / 63-bit integer types and operations themselves (registered primitives,
# which Print Assumptions lists under "Axioms:").
ALLOWED_AXIOMS = [
    'ClassicalDedekindReals.sig_forall_dec', 'ClassicalDedekindReals.sig_not_dec', 'Classical_Prop.classic',
    'FunctionalExtensionality.functional_extensionality_dep',
    'FloatAxioms.Prim2SF_SF2Prim', 'FloatAxioms.Prim2SF_valid', 'FloatAxioms.SF2Prim_Prim2SF',
    'FloatAxioms.div_spec', 'FloatAxioms.mul_spec',
    'PrimFloat.float', 'PrimInt63.int', 'PrimInt63.eqb', 'PrimInt63.land', 'PrimInt63.lor', 'PrimInt63.lsl',
    'PrimInt63.lsr', 'PrimInt63.sub',
    'abs', 'div', 'eqb', 'frshiftexp', 'ldshiftexp', 'leb', 'ltb', 'mul', 'normfr_mantissa', 'of_uint63', 'opp',
    'add', 'sub',       # primitive float addition / subtraction (Value.__add__ / __sub__ in the session theorems)
]
ASSUMPTIONS = [
    'theorems are about coq/Model/Amount.v + coq/Float/{B64,DecRound}.v: values.py and the value handling of '
    'transactions.py mirrored operation by operation on Coq primitive binary64 floats (PrimFloat), constants '
    'taken from the regenerated tables (Gen/GenNetworks.v, Gen/GenConsts.v) as float.hex() strings',
    'axioms: the standard library specification of primitive floats (FloatAxioms: Prim2SF/SF2Prim round trip, '
    'mul_spec, div_spec) and, through Flocq/Reals, the classical real numbers (sig_forall_dec, sig_not_dec, '
    'functional_extensionality_dep, Classical_Prop.classic); the primitive float and int63 operations that '
    'Print Assumptions lists are the kernel primitives; nothing else',
    'extraction additionally uses ExtrOCamlFloats + ExtrOCamlInt63 (PrimFloat.float -> OCaml float, Uint63 of '
    'coq-core kernel); the driver prints floats as float.hex() text from the IEEE bits',
    'modelled, not verified: CPython itself (float(), round(), %-formatting are modelled by the exact integer '
    'algorithms of DecRound.v and validated bit for bit every run), math.log10 in Value.str (modelled as the '
    'correctly rounded logarithm near powers of ten; exhaustively compared over every denominator x network), '
    'str.split / str.upper outside ASCII + micro sign, float() grammar extensions (underscores, non-ASCII digits)',
    'currency_repr other than code, Value.__floordiv__/__round__ and comparison operators are not modelled',
    'sessions: the model of a sequence of conversions is the list of the stand-alone answers (Model/AmountSession.v); every '
    'session request is answered by the adapter in a forked child of the freshly started process, so what is compared is '
    '"state left behind by earlier calls of the same session"; state that needs more calls than a session has (<= 40) or '
    'another interpreter thread is not reached',
    'transaction sessions (Model/AmountTx.v) reuse the C07 fee-bump model (Model/BumpFee.v: bump_amounts, bump_loop); the '
    'vsize of the (re-)signed transaction is an input of the model, reported by the adapter before/after every operation '
    'and validated by the oracle against the weight of the bytes raw() returned; scripts, signatures and txid are not '
    'amounts and are not modelled here (C01/C02/C06); estimate_size() results are checked by the oracle only (modelled in '
    'C07); wallet-level operations (wtx requests: transaction_create change splitting, WalletTransaction.bumpfee) are '
    'checked by the independent oracle only, their model is C07',
    'output values in 2^63 .. 2^64-1 are counted as serialisable (as in outputs_are_integers); MAX_MONEY is not enforced by '
    'the library and not asked for by the property',
]
RULE = ('amounts 0..21e14: boundary stream (powers of two and ten +-3, top of the range, binade edges of n/1e8), '
        'seeded uniform/log-uniform stream; every amount is written exactly in each denominator symbol x currency '
        'code x network and sent through Value(str), value_to_satoshi, from_satoshi().str(), format->parse, Output, '
        'add_output/raw; malformed stream of mutated strings; Python float()/round()/% validated on seeded hard cases '
        '(halfway points); floats compared as float.hex() text; non-trivial = implementation returned a value; '
        'SESSIONS (one process / one object each, emitted first): seq = 2..40 conversions in a row (every ordered pair of '
        'denominator symbols, units differing only in letter case in both orders, one symbol under every currency, '
        'format->parse with every denominator forwards and backwards, long mixed sessions with malformed strings and '
        'repeats), vobj = one Value object observed and combined with + - * / (exact rational oracle), txs = one '
        'Transaction object through bumpfee (1..4 change outputs in every relation to the extra fee: below / equal / '
        'between 1x and 2x / above 2x the remaining amount; fee, extra_fee, default, below the minimum), add_output (int, '
        'float, text, Value), update_totals, sign_and_update, estimate_size, calculate_fee on 5 networks x legacy/segwit x '
        'signed/unsigned: after every operation raw() is re-read by the oracle; wtx = wallet transaction_create with 1..4 '
        'change outputs and WalletTransaction.bumpfee')

TOP = 21 * 10 ** 14
# metric prefixes (exponent relative to the main unit), written from https://en.bitcoin.it/wiki/Units
SYMS = {'µsat': -14, 'msat': -11, 'n': -9, 'sat': -8, 'fin': -7, 'µ': -6, 'm': -3, 'c': -2, 'd': -1, '': 0,
        'da': 1, 'h': 2, 'k': 3, 'M': 6, 'G': 9, 'T': 12, 'P': 15, 'E': 18, 'Z': 21, 'Y': 24}
SYM_ORDER = sorted(SYMS, key=lambda s: -len(s))
NETS = ['bitcoinlib_test', 'bitcoin', 'testnet', 'testnet4', 'signet', 'regtest', 'litecoin', 'litecoin_legacy',
        'litecoin_testnet', 'dogecoin', 'dogecoin_testnet']
CODES = ['BTC', 'LTC', 'DOGE', 'TST', 'tBTC', 'sBTC', 'rBTC', 'XLT', 'tDOGE']
CODE_NET = {'BTC': 'bitcoin', 'LTC': 'litecoin', 'DOGE': 'dogecoin', 'TST': 'bitcoinlib_test', 'TBTC': 'testnet',
            'SBTC': 'signet', 'RBTC': 'regtest', 'XLT': 'litecoin_testnet', 'TDOGE': 'dogecoin_testnet'}
# denominator symbols with a recorded finding (fixes/C17-known.json): the extra float multiplication by the
# denominator loses a unit, the default number of decimals cannot represent a unit, or the symbol cannot be parsed
CLASS_OF_SYM = {'msat': 'msat', 'n': 'n', 'fin': 'fin', 'µ': 'u', 'm': 'm', 'd': 'd', 'da': 'da', 'h': 'h', 'k': 'k',
                'M': 'M', 'G': 'G', 'T': 'T', 'P': 'P', 'E': 'E', 'Z': 'Z', 'Y': 'Y'}


def hs(s):
    return s.encode('utf8').hex() if s else '-'


def unhs(h):
    return '' if h == '-' else bytes.fromhex(h).decode('utf8')


def dec_str(n, k, trim=False):
    """the decimal numeral of n * 10^-k (n >= 0) with k fractional digits"""
    if k <= 0:
        return str(n * 10 ** (-k))
    s = str(n).rjust(k + 1, '0')
    r = s[:-k] + '.' + s[-k:]
    if trim:
        r = r.rstrip('0').rstrip('.')
    return r


def amount_str(n, sym, code, sep=' ', trim=False):
    """n smallest units written exactly in the unit <sym><code>"""
    return dec_str(n, SYMS[sym] + 8, trim) + sep + sym + code


# ---------------------------------------------------------------- independent oracle
def split_unit(unit):
    """(symbol, code) of a unit token as the documentation defines it: [<denominator>][<currency>] — the currency
    is one of the network currency codes (case-insensitive) or absent"""
    if unit.upper() in CODE_NET:
        # a bare currency code; note 'TBTC'/'tBTC' and 'TDOGE' are themselves currency codes
        return '', unit
    for s in SYM_ORDER:
        if s and unit.startswith(s):
            rest = unit[len(s):]
            if rest == '' or rest.upper() in CODE_NET:
                return s, rest
    return None


def exact_units(text):
    """exact number of smallest units a well-formed amount string denotes (Fraction), or None"""
    parts = text.split()
    if not 1 <= len(parts) <= 2:
        return None
    try:
        q = Fraction(Decimal(parts[0]))
    except Exception:
        return None
    sym = ''
    if len(parts) == 2:
        su = split_unit(parts[1])
        if su is None:
            return None
        sym = su[0]
    return q * Fraction(10) ** (SYMS[sym] + 8)


def is_int_tok(s):
    return s.lstrip('-').isdigit()


def nearest_ok(got, exact):
    """got is acceptable for the exact amount: equal when it is a whole number of units, else one of its two neighbours"""
    if exact.denominator == 1:
        return got == exact.numerator
    return abs(Fraction(got) - exact) < 1


def _unit_symbol(text):
    parts = text.split()
    if len(parts) == 2:
        su = split_unit(parts[1])
        if su:
            return su[0]
        # 'da…' is swallowed by the 'd' prefix in the library; still a 'da' case
        if parts[1].startswith('da'):
            return 'da'
    return ''


def _dspec_symbol(tok, default):
    if tok.startswith('s:'):
        return unhs(tok[2:])
    return default if tok == '-' else None


def req_symbols(c):
    """denominator symbols a case involves, decided from the request alone"""
    t = c.req.split(' ')
    k = t[0]
    try:
        if k in ('vts', 'val', 'tobytes'):
            return {_unit_symbol(unhs(t[1]))}
        if k == 'strv':
            return {_unit_symbol(unhs(t[1])), _dspec_symbol(t[2], '')}
        if k in ('output', 'outraw', 'addout') and t[1].startswith('s:'):
            return {_unit_symbol(unhs(t[1][2:]))}
        if k == 'rt':
            return {_dspec_symbol(t[2], 'sat')}
        if k == 'str':
            return {_dspec_symbol(t[2], 'sat'), _dspec_symbol(t[3], 'sat')}
    except Exception:
        pass
    return set()


def prop_check(c, out):
    t = c.req.split(' ')
    k = t[0]
    if out.startswith('CRASH') or out == 'BADREQ' or out.startswith('?'):
        return 'unexpected answer %r' % out[:120]
    if k == 'seq':
        return check_seq(c, out)
    if k == 'vobj':
        return check_vobj(c, out)
    if k == 'txs':
        return check_txs(c, out)
    if k == 'wtx':
        return check_wtx(c, out)
    if c.kind.startswith('bad_') or c.kind == 'tables' or k == 'arith':
        return None
    if k in ('vts', 'val', 'tobytes'):
        text = unhs(t[1])
        ex = exact_units(text)
        if ex is None or not c.kind.startswith('ok_'):
            return None
        if k == 'vts':
            want_net = None if t[2] == '-' else unhs(t[2])
            parts = text.split()
            code = split_unit(parts[1])[1] if len(parts) == 2 else ''
            if want_net and code and CODE_NET[code.upper()] != want_net:
                return None if out == 'ERR' else 'amount in %s accepted for network %s' % (code, want_net)
            got = out
        elif k == 'val':
            got = out.split(' ')[-1] if out != 'ERR' else 'ERR'
        else:
            if ex.denominator == 1 and 0 <= ex < 2 ** 64:
                return None if out == int(ex).to_bytes(8, 'little').hex() else \
                    'Value(%r).to_bytes() = %s, exact amount is %d' % (text, out, ex)
            return None
        if not is_int_tok(got):
            return 'well-formed amount %r is not converted (%s)' % (text, got)
        if not nearest_ok(int(got), ex):
            return '%r converts to %s smallest units, exact amount is %s' % (text, got, ex)
        return None
    if k == 'rt':
        n = int(t[1])
        if out == 'ERR':
            return 'from_satoshi(%d).str(...) raises' % n
        s, back = out.split(' ')
        if back != str(n):
            return 'from_satoshi(%d).str(%s) = %r parses back to %s' % (n, t[2], unhs(s), back)
        return None
    if k == 'str':
        # the formatted text must denote the amount (to within half a unit) when no explicit decimals were asked for
        if t[4] != '-' or out == 'ERR' or t[3] == 'a':
            return None
        n = int(t[1])
        ex = exact_units(unhs(out))
        if ex is not None and abs(ex - n) >= Fraction(1, 2):
            return 'from_satoshi(%d, %s).str(%s) = %r denotes %s units' % (n, t[2], t[3], unhs(out), ex)
        return None
    if k == 'strv':
        return None
    if k in ('addout', 'outraw'):
        if out == 'ERR':
            return None
        v, raw = out.split(' ')
        if raw == 'ERR':
            return None
        # something was serialised: the value must be an integer 0 <= v < 2^64 and the bytes its encoding
        if v.startswith('i:'):
            z = int(v[2:])
        elif v.startswith('f:') and v[2:] not in ('nan', 'inf', '-inf') and float.fromhex(v[2:]).is_integer():
            z = int(float.fromhex(v[2:]))
        else:
            return 'output value %s is not an integer but raw() serialises %s' % (v, raw)
        if not (0 <= z < 2 ** 64) or raw != z.to_bytes(8, 'little').hex():
            return 'output value %s serialised as %s' % (v, raw)
        return None
    if k == 'output':
        if out == 'ERR' or not t[1].startswith('s:'):
            return None
        ex = exact_units(unhs(t[1][2:]))
        if ex is None or not c.kind.startswith('ok_'):
            return None
        if not out.startswith('i:') or not nearest_ok(int(out[2:]), ex):
            return 'Output(value=%r).value = %s, exact amount is %s' % (unhs(t[1][2:]), out, ex)
        return None
    # ---- Python primitives (validation of the DecRound model against exact arithmetic)
    if k == 'pyfloat':
        s = unhs(t[1])
        try:
            q = Fraction(Decimal(s))
        except Exception:
            return None
        try:
            want = (q.numerator / q.denominator).hex()
        except OverflowError:
            want = 'inf' if q > 0 else '-inf'
        if s.strip().startswith('-') and q == 0:
            want = '-0x0.0p+0'
        return None if out == want else 'float(%r) = %s, correctly rounded value is %s' % (s, out, want)
    if k == 'pyfloatint':
        z = int(t[1])
        try:
            want = (z / 1).hex()
        except OverflowError:
            want = 'ERR'
        return None if out == want else 'float(%d) = %s, expected %s' % (z, out, want)
    if k == 'pyround' or k == 'pyfmt':
        x = float.fromhex(t[1])
        if x != x or x in (float('inf'), float('-inf')):
            return None
        with localcontext() as ctx:
            ctx.prec = 2000
            if k == 'pyround' and t[2] == '-':
                want = str(int(Decimal(x).quantize(Decimal(1), rounding=ROUND_HALF_EVEN)))
                return None if out == want else 'round(%s) = %s, expected %s' % (t[1], out, want)
            nd = int(t[2])
            if nd > 330:
                return None
            d = Decimal(x).quantize(Decimal(1).scaleb(-nd), rounding=ROUND_HALF_EVEN)
            if k == 'pyfmt':
                want = format(d, 'f')
                if x == 0 and str(x).startswith('-') and not want.startswith('-'):
                    want = '-' + want
                return None if unhs(out) == want else "'%%.%df' %% %s = %r, expected %r" % (nd, t[1], unhs(out), want)
            q = Fraction(d)
            want = (q.numerator / q.denominator)
            if want == 0 and (x < 0 or str(x).startswith('-')):
                want = -0.0
            return None if out == want.hex() else 'round(%s, %d) = %s, expected %s' % (t[1], nd, out, want.hex())
    return None


# ---------------------------------------------------------------- sessions: conversions in ONE process
SAFE_TOP = 10 ** 12      # below this every float expression of values.py is exact to far less than half a unit
STEP_KIND = {'vts': 'ok_vts', 'val': 'ok_val', 'tobytes': 'ok_tobytes', 'output': 'ok_output', 'rt': 'rt', 'str': 'str',
             'strv': 'strv', 'addout': 'addout', 'outraw': 'outraw', 'fromsat': 'fromsat', 'arith': 'arith'}


def split_steps(toks):
    steps, cur = [], []
    for x in toks:
        if x == '|':
            steps.append(cur)
            cur = []
        else:
            cur.append(x)
    steps.append(cur)
    return steps


def check_seq(c, out):
    """every step must satisfy the property on its own (the stateless oracle of the step), and equal steps must get
    equal answers: nothing an earlier conversion did may change a later one"""
    steps = split_steps(c.req.split(' ')[1:])
    answers = out.split(' | ')
    if len(answers) != len(steps):
        return 'session of %d steps answered with %d answers: %r' % (len(steps), len(answers), out[:120])
    seen = {}
    for i, (st, a) in enumerate(zip(steps, answers)):
        bad = st and st[0] == '!'
        if bad:
            st = st[1:]
        if not st:
            continue
        kind = ('bad_' + st[0]) if bad else STEP_KIND.get(st[0], st[0])
        r = prop_check(Case(kind, ' '.join(st)), a)
        if r is not None:
            return 'step %d of the session (%s): %s' % (i + 1, ' '.join(st)[:80], r)
        key = ' '.join(st)
        if key in seen and seen[key][1] != a:
            return 'step %d repeats step %d (%s) but is answered %r instead of %r' % (
                i + 1, seen[key][0] + 1, key[:80], a[:60], seen[key][1][:60])
        seen.setdefault(key, (i, a))
    return None


def _net_of_text(text, default):
    parts = text.split()
    if len(parts) == 2:
        su = split_unit(parts[1])
        if su and su[1]:
            return CODE_NET[su[1].upper()]
    return default


def check_vobj(c, out):
    """one Value object: the exact amount is tracked with rationals through + - * /; value_sat must be that amount
    (rounded), to_bytes its encoding, str() a text denoting it — at every point, however often it was observed"""
    t = c.req.split(' ')
    f = t[1].split(',')
    ans = out.split(' | ')
    if ans[0] == 'ERR':
        return 'Value object of a well-formed amount cannot be created: %s' % t[1][:80]
    if len(ans) != len(t) - 1:
        return 'vobj session of %d operations answered with %d answers' % (len(t) - 2, len(ans) - 1)
    if f[0] == 'S':
        E = exact_units(unhs(f[1]))
        net = _net_of_text(unhs(f[1]), unhs(f[2]))
    else:
        E = Fraction(int(f[1]))
        net = unhs(f[3])
    if E is None:
        return None
    for i, (op, a) in enumerate(zip(t[2:], ans[1:])):
        o = op.split(',')
        where = 'operation %d (%s)' % (i + 1, op[:60])
        if o[0] == 'sat':
            if not is_int_tok(a) or not nearest_ok(int(a), E):
                return '%s: value_sat = %s, exact amount is %s' % (where, a, E)
        elif o[0] == 'bytes':
            if E.denominator == 1 and 0 <= E < 2 ** 64 and a != int(E).to_bytes(8, 'little').hex():
                return '%s: to_bytes() = %s, exact amount is %s' % (where, a, E)
        elif o[0] == 'str':
            sym = _dspec_symbol(o[1], None) if o[1] != '-' else None
            if o[2] == '-' and o[1].startswith('s:') and sym in SYMS and SYMS[sym] <= 0 and E >= 0 and a != 'ERR':
                ex = exact_units(unhs(a))
                if ex is None or abs(ex - E) > Fraction(1, 2):
                    return '%s: str() = %r denotes %s units, exact amount is %s' % (where, unhs(a), ex, E)
            elif a == 'ERR' and o[1].startswith('s:') and sym in SYMS and o[2] == '-':
                return '%s: str() raises' % where
        elif o[0] in ('add', 'iadd', 'sub', 'isub', 'addk', 'subk'):
            keep = o[0].endswith('k')
            b = exact_units(unhs(o[1]))
            bnet = _net_of_text(unhs(o[1]), 'bitcoin')
            if b is None:
                continue
            if bnet != net:
                if a != 'ERR':
                    return '%s: amounts of networks %s and %s combined' % (where, net, bnet)
                continue
            if a == 'ERR':
                return '%s: raises' % where
            E2 = E + b if o[0] in ('add', 'iadd', 'addk') else E - b
            got = a.split(' ')[-1]
            if not is_int_tok(got) or not nearest_ok(int(got), E2):
                return '%s: result has value_sat %s, exact amount is %s' % (where, got, E2)
            if not keep:
                E = E2
        elif o[0] in ('mul', 'div', 'mulk', 'divk'):
            keep = o[0].endswith('k')
            k = int(o[1])
            if o[0].startswith('div') and k == 0:
                if a != 'ERR':
                    return '%s: division by zero answered %s' % (where, a[:40])
                continue
            if a == 'ERR':
                return '%s: raises' % where
            E2 = E * k if o[0].startswith('mul') else E / k
            got = a.split(' ')[-1]
            if not is_int_tok(got) or not nearest_ok(int(got), E2):
                return '%s: result has value_sat %s, exact amount is %s' % (where, got, E2)
            if not keep:
                E = E2
    return None


# ---------------------------------------------------------------- sessions: amounts of one Transaction object
def out_hash(i):
    return hashlib.sha256(b'c17-out-%d' % i).digest()[:20]


OUT_IDX = {out_hash(i): i for i in range(256)}


def _varint(b, p):
    x = b[p]
    if x < 253:
        return x, p + 1
    n = {253: 2, 254: 4, 255: 8}[x]
    return int.from_bytes(b[p + 1:p + 1 + n], 'little'), p + 1 + n


def parse_raw_tx(h):
    """read a serialised transaction (BIP144 aware), independently of the library: ([(value, output tag)], vsize)"""
    b = bytes.fromhex(h)
    segwit = len(b) > 6 and b[4] == 0 and b[5] == 1
    p = 6 if segwit else 4
    start = p
    n_in, p = _varint(b, p)
    for _ in range(n_in):
        p += 36
        l, p = _varint(b, p)
        p += l + 4
    n_out, p = _varint(b, p)
    outs = []
    for _ in range(n_out):
        v = int.from_bytes(b[p:p + 8], 'little')
        p += 8
        l, p = _varint(b, p)
        scr = b[p:p + l]
        p += l
        if len(scr) == 22 and scr[:2] == b'\x00\x14':
            tag = OUT_IDX.get(scr[2:], '?')
        elif len(scr) == 25 and scr[:3] == b'\x76\xa9\x14':
            tag = OUT_IDX.get(scr[3:23], '?')
        else:
            tag = '?'
        outs.append((v, tag))
    base = 4 + (p - start) + 4
    if segwit:
        for _ in range(n_in):
            n, p = _varint(b, p)
            for _ in range(n):
                l, p = _varint(b, p)
                p += l
    if p + 4 != len(b):
        raise ValueError('trailing bytes')
    weight = base * 3 + len(b)
    return outs, -(-weight // 4)


def _snap(step):
    """fields of one answer segment of a txs session"""
    toks = step.split(' ')
    d = {'res': toks[0], 'tok': '', 'r': None}
    for x in toks[1:]:
        if '=' in x:
            k, _, v = x.partition('=')
            d[k] = v
        else:
            d['tok'] = x
    return d


def _amt(tok):
    """the Python int a reported amount token stands for, or None when it is not an int"""
    if tok is not None and tok.startswith('i:'):
        return int(tok[2:])
    return None


def _outs(d):
    res = []
    if d.get('out', '-') == '-':
        return res
    for x in d['out'].split(','):
        i, _, rest = x.partition(':')
        v, _, c = rest.rpartition(':')
        res.append((i, v, c == '1'))
    return res


def txs_exceeds_inputs(req):
    """decided from the request alone: at some point the outputs (constructor + add_output) exceed the inputs"""
    t = req.split(' ')
    try:
        tin = sum(int(x) for x in t[4].split(','))
        tot = sum(int(x.split(':')[0]) for x in t[5].split(','))
        for op in t[6:]:
            o = op.split(',')
            if o[0] == 'a' and o[1].startswith('i:'):
                tot += max(0, int(o[1][2:]))
            elif o[0] == 'a' and o[1].startswith('f:'):
                x = float.fromhex(o[1][2:])
                tot += int(x) if x == x and abs(x) < 1e30 and x > 0 else 0
            elif o[0] == 'a' and o[1].startswith('s:'):
                try:
                    tot += max(0, int(float(unhs(o[1][2:]))))
                except Exception:
                    pass
            elif o[0] == 'av':
                ex = exact_units(unhs(o[1]))
                tot += int(ex) if ex is not None and ex > 0 else 0
            if tot > tin:
                return True
    except Exception:
        return False
    return False


def check_txs(c, out):
    """after every operation the bytes raw() returns are re-read here: every output value is a non-negative integer equal to
    the one the object reports, inputs - outputs is the reported non-negative integer fee after every operation that
    settles the totals, and a fee bump takes what was asked for out of the change outputs and nothing else"""
    t = c.req.split(' ')
    ins = [int(x) for x in t[4].split(',')] if t[4] != '-' else []
    outs0 = [x.split(':') for x in t[5].split(',')] if t[5] != '-' else []
    tin, tout0 = sum(ins), sum(int(v) for v, _ in outs0)
    segs = out.split(' | ')
    if segs[0].startswith('ERR'):
        if 0 < tout0 < tin and all(int(v) >= 0 for v, _ in outs0):
            return 'transaction with inputs %d > outputs %d cannot be constructed / signed: %s' % (tin, tout0, segs[0][:60])
        return None
    ops = t[6:]
    if len(segs) != len(ops) + 1:
        return 'txs session of %d operations answered with %d segments' % (len(ops), len(segs) - 1)
    prev = None
    for i, seg in enumerate(segs):
        d = _snap(seg)
        op = ops[i - 1].split(',') if i else ['init']
        where = 'after operation %d (%s)' % (i, ops[i - 1][:50]) if i else 'after construction'
        ok = d['res'] == 'OK'
        outs = _outs(d)
        # -- inputs untouched
        if d.get('in') != (','.join('i:%d' % v for v in ins) or '-'):
            return '%s: input values are %s, constructed with %s' % (where, d.get('in'), ins)
        # -- what the object holds / what raw() serialises
        vals = []
        for (tag, v, chg) in outs:
            z = _amt(v)
            if z is None:
                return '%s: output %s holds %s, not an integer' % (where, tag, v)
            vals.append(z)
        neg = [z for z in vals if z < 0 or z >= 2 ** 64]
        if neg and op[0] not in ('a', 'av') and not (prev and prev['neg']):
            return '%s: output value %d out of range produced from non-negative outputs' % (where, neg[0])
        raw_vs = None
        if d.get('raw') == 'ERR':
            if not neg:
                return '%s: raw() fails although all output values are in range' % where
        else:
            try:
                routs, raw_vs = parse_raw_tx(d['raw'])
            except Exception as e:
                return '%s: raw() unreadable: %r' % (where, e)
            if neg:
                return '%s: raw() serialises an out-of-range output value %d' % (where, neg[0])
            if [(v, str(tag)) for v, tag in routs] != [(z, tag) for z, (tag, _, _) in zip(vals, outs)]:
                return '%s: raw() carries outputs %s, the object reports %s' % (
                    where, [(v, tag) for v, tag in routs], list(zip(vals, [o[0] for o in outs])))
        # -- fee
        fee = _amt(d.get('fee'))
        if d.get('fee') != 'N' and fee is None:
            return '%s: fee is %s, not an integer' % (where, d.get('fee'))
        settled = (op[0] in ('init', 'u') or (op[0] in ('s', 'b') and ok)) and not neg
        if settled and tin > 0:
            if fee != tin - sum(vals):
                return '%s: reported fee %s, inputs %d - outputs %d = %d' % (where, fee, tin, sum(vals), tin - sum(vals))
            if fee < 0:
                return '%s: fee %d is negative' % (where, fee)
        fpk = _amt(d.get('fpk'))
        if d.get('fpk') != 'N' and fpk is None:
            return '%s: fee_per_kb is %s, not an integer' % (where, d.get('fpk'))
        vsa = _amt(d.get('vsa'))
        if d.get('vsa') != 'N' and vsa is None:
            return '%s: vsize is %s, not an integer' % (where, d.get('vsa'))
        signed = (op[0] in ('s', 'b') and ok) or (op[0] == 'init' and t[3] == 'S' and ok)
        if signed and raw_vs is not None:
            if vsa != raw_vs:
                return '%s: vsize %s, the serialised transaction weighs %d vbytes' % (where, vsa, raw_vs)
            if fee is not None and fee > 0 and (fpk is None or
                                                abs(Fraction(fee * 1000, raw_vs) - fpk) > 1 + Fraction(fee * 1000, raw_vs) / 2 ** 50):
                return '%s: fee_per_kb %s for fee %d on %d vbytes' % (where, fpk, fee, raw_vs)
        # -- results of the estimating calls
        if op[0] in ('e', 'c') and ok:
            r = _amt(d.get('r'))
            if r is None or r < 0:
                return '%s: estimate %s is not a non-negative integer' % (where, d.get('r'))
        # -- operation-specific
        if i and prev is not None:
            pouts, pvals, pfee = prev['outs'], prev['vals'], prev['fee']
            if op[0] in ('u', 's', 'e', 'c') or (not ok and op[0] in ('a', 'av')) or \
                    (not ok and op[0] == 'b' and d['tok'] != 'badvalue'):
                if outs != pouts:
                    return '%s: outputs changed from %s to %s' % (where, pouts, outs)
            if not ok and op[0] == 'b' and d['tok'] != 'badvalue' and d.get('fee') != prev['feetok']:
                return '%s: failed bumpfee changed the fee from %s to %s' % (where, prev['feetok'], d.get('fee'))
            if op[0] in ('a', 'av'):
                want = None
                if op[0] == 'a':
                    if op[1].startswith('i:'):
                        want = int(op[1][2:])
                    elif op[1].startswith('f:'):
                        x = float.fromhex(op[1][2:])
                        want = int(x) if x == x and x not in (float('inf'), float('-inf')) and x.is_integer() else 'ERR'
                else:
                    ex = exact_units(unhs(op[1]))
                    if ex is not None:
                        # a fraction of the smallest unit is rounded by value_to_satoshi (as for Output(<Value>))
                        want = int(ex) if ex.denominator == 1 else None
                        if ok and ex.denominator != 1 and abs(vals[-1] - ex) >= 1:
                            return '%s: output holds %d, the amount handed over is %s smallest units' % (where, vals[-1], ex)
                if ok:
                    if outs[:-1] != pouts or len(outs) != len(pouts) + 1:
                        return '%s: add_output changed the existing outputs' % where
                    if want == 'ERR':
                        return '%s: a non-integer amount was accepted as %s' % (where, outs[-1][1])
                    if want is not None and vals[-1] != want:
                        return '%s: output holds %d, the amount handed over is %d smallest units' % (where, vals[-1], want)
                    if outs[-1][2] != (op[2] == '1'):
                        return '%s: change flag of the new output' % where
                elif op[0] == 'av' and want not in (None, 'ERR') and 0 <= want < 2 ** 63 and \
                        _net_of_text(unhs(op[1]), unhs(t[1])) == unhs(t[1]):
                    return '%s: a Value of exactly %d smallest units is refused' % (where, want)
            if op[0] == 'b' and not prev['neg']:
                r = check_bump(where, op, d, ok, prev, outs, vals, fee, tin)
                if r:
                    return r
        prev = dict(outs=outs, vals=vals, fee=fee, feetok=d.get('fee'), neg=bool(neg), vs=vsa)
    return None


def check_bump(where, op, d, ok, prev, outs, vals, fee, tin):
    pouts, pvals, pfee = prev['outs'], prev['vals'], prev['fee']
    farg, earg = int(op[1]), int(op[2])
    balanced = pfee is not None and tin > 0 and pfee == tin - sum(pvals)
    e = earg if (earg and not farg) else (farg - pfee if farg and pfee is not None else None)
    change_total = sum(z for z, (_, _, chg) in zip(pvals, pouts) if chg)
    if not ok:
        if d['tok'] == 'badvalue':
            return '%s: bumpfee drove an output negative / raw() refuses the bumped transaction' % where
        if d['tok'] == 'bumpnochange' and e is not None and 0 < e <= change_total:
            return '%s: bumpfee refuses although the change outputs (%d) cover the extra fee %d' % (where, change_total, e)
        return None
    if e is not None and e > change_total:
        return '%s: bumpfee by %d succeeded with only %d in change outputs' % (where, e, change_total)
    pmap = {tag: (z, chg) for z, (tag, _, chg) in zip(pvals, pouts)}
    kept = set()
    for z, (tag, _, chg) in zip(vals, outs):
        if tag not in pmap:
            return '%s: output %s appeared during bumpfee' % (where, tag)
        pz, pchg = pmap[tag]
        kept.add(tag)
        if chg != pchg:
            return '%s: change flag of output %s flipped' % (where, tag)
        if not chg and z != pz:
            return '%s: payment output %s changed from %d to %d' % (where, tag, pz, z)
        if z > pz:
            return '%s: change output %s grew from %d to %d' % (where, tag, pz, z)
    if [tag for (tag, _, _) in outs] != [tag for (tag, _, _) in pouts if tag in kept]:
        return '%s: outputs reordered' % where
    dropped = [pz for tag, (pz, pchg) in pmap.items() if tag not in kept]
    if any(not pchg for tag, (pz, pchg) in pmap.items() if tag not in kept):
        return '%s: a payment output was removed' % where
    if balanced and fee is not None:
        if e is None:                       # default bump: some positive amount
            if fee <= pfee:
                return '%s: default bumpfee did not raise the fee (%d -> %d)' % (where, pfee, fee)
            return None
        over = fee - pfee - e
        if over < 0:
            return '%s: fee %d -> %d, asked for %d more' % (where, pfee, fee, e)
        if over and (not dropped or over >= max(dropped) or over > e):
            return '%s: fee %d -> %d pays %d more than the %d asked for (dropped change outputs: %s)' % (
                where, pfee, fee, over, e, dropped)
    return None


# ---------------------------------------------------------------- wallet level: transaction_create / send / WalletTransaction.bumpfee
def check_wtx(c, out):
    """oracle only (the model of these operations is C07): the amounts of a wallet-built transaction, re-read from raw()"""
    t = c.req.split(' ')
    utxos = sorted(int(x) for x in t[2].split(','))
    pays = [int(x) for x in t[3].split(',')]
    segs = out.split(' | ')
    if segs[0].startswith('ERR'):
        if segs[0] == 'ERR send:conserve':
            return 'send: the amounts the wallet computed do not add up (inputs != outputs + fee)'
        if segs[0] == 'ERR send:badamount':
            return 'send: the wallet computed an output amount that is not a non-negative integer'
        return None
    prev = None
    for i, seg in enumerate(segs):
        d = _snap(seg)
        where = 'after bumpfee' if i else 'after send'
        ok = d['res'] == 'OK'
        outs = _outs(d)
        vals = []
        for (tag, v, chg) in outs:
            z = _amt(v)
            if z is None or z < 0:
                return '%s: output %s holds %s, not a non-negative integer' % (where, tag, v)
            vals.append(z)
        invals = [_amt(x) for x in d.get('in', '-').split(',')] if d.get('in', '-') != '-' else []
        if any(x is None for x in invals):
            return '%s: input values %s' % (where, d.get('in'))
        pool = list(utxos)
        for x in invals:
            if x not in pool:
                return '%s: input of %d is not an unspent output of the wallet (%s)' % (where, x, utxos)
            pool.remove(x)
        if d.get('raw') == 'ERR':
            return '%s: raw() fails' % where
        try:
            routs, _ = parse_raw_tx(d['raw'])
        except Exception as e:
            return '%s: raw() unreadable: %r' % (where, e)
        if [(v, str(tag)) for v, tag in routs] != [(z, tag) for z, (tag, _, _) in zip(vals, outs)]:
            return '%s: raw() carries outputs %s, the object reports %s' % (where, routs, list(zip(vals, [o[0] for o in outs])))
        fee = _amt(d.get('fee'))
        if fee is None or fee < 0:
            return '%s: fee %s is not a non-negative integer' % (where, d.get('fee'))
        if ok or i == 0:
            if fee != sum(invals) - sum(vals):
                return '%s: reported fee %d, inputs %d - outputs %d = %d' % (where, fee, sum(invals), sum(vals), sum(invals) - sum(vals))
        # recipients are paid exactly once, exactly the amount; everything else is change
        for j, amt in enumerate(pays):
            hit = [z for z, (tag, _, chg) in zip(vals, outs) if tag == str(j)]
            if hit != [amt]:
                return '%s: recipient %d is paid %s, asked for %d' % (where, j, hit, amt)
        if any(chg for (tag, _, chg) in outs if tag != '?') or any(not chg for (tag, _, chg) in outs if tag == '?'):
            return '%s: change flags %s' % (where, outs)
        if i == 0:
            nchg = sum(1 for (tag, _, _) in outs if tag == '?')
            k = int(t[5])
            if (k and nchg > k) or nchg > 5:
                return 'after send: %d change outputs, asked for %d' % (nchg, k)
            if not t[4].startswith('N:'):
                asked = int(t[4])
                if fee < asked or (nchg and fee != asked):
                    return 'after send: fee %d, asked for %d (change outputs: %d)' % (fee, asked, nchg)
        elif ok and prev is not None:
            farg, earg = (int(x) for x in t[7].split(','))
            pfee = prev['fee']
            if invals[:len(prev['ins'])] != prev['ins'] or len(invals) > len(prev['ins']) + 1:
                return 'after bumpfee: inputs changed from %s to %s' % (prev['ins'], invals)
            added = sum(invals) - sum(prev['ins'])
            e = earg if (earg and not farg) else (farg - pfee if farg else None)
            if e is None:
                if fee <= pfee:
                    return 'after bumpfee: default bump did not raise the fee (%d -> %d)' % (pfee, fee)
            else:
                over = fee - pfee - e
                pch = sorted(z for z, (tag, _, _) in zip(prev['vals'], prev['outs']) if tag == '?')
                nch = sorted(z for z, (tag, _, _) in zip(vals, outs) if tag == '?')
                dropped = len(pch) + (1 if added and not pch else 0) - len(nch)
                if over < 0:
                    return 'after bumpfee: fee %d -> %d, asked for %d more' % (pfee, fee, e)
                if over and (dropped <= 0 or over > e or over >= (max(pch) if pch else 0) + added):
                    return 'after bumpfee: fee %d -> %d pays %d more than the %d asked for (change before %s, after %s, input added %d)' % (
                        pfee, fee, over, e, pch, nch, added)
        elif not ok and prev is not None:
            # a refused bump may leave the wallet input it tried behind; the amounts must still add up
            if fee != sum(invals) - sum(vals):
                return 'after a refused bumpfee (%s): reported fee %d, inputs %d - outputs %d = %d' % (
                    d['tok'], fee, sum(invals), sum(vals), sum(invals) - sum(vals))
        prev = dict(outs=outs, vals=vals, fee=fee, ins=invals)
    return None


# ---------------------------------------------------------------- known classes (decided from the request alone)
def _sym_class(sym):
    return lambda c, io, mo: sym in req_symbols(c)


KNOWN_CLASSES = {'den_' + cid: _sym_class(sym) for sym, cid in CLASS_OF_SYM.items()}
KNOWN_CLASSES['output_ctor_unchecked'] = \
    lambda c, io, mo: c.req.startswith('outraw f:')


def known_status(cid):
    """'known' / 'fixed' / None: how a finding is recorded (known_findings.json, VERIF_EXTRA_KNOWN)"""
    st = None
    for e in load_known(PROP):
        if e.get('id') == cid:
            st = e.get('status')
    return st


# a Transaction object accepts outputs beyond its inputs; update_totals() then reports a negative fee
KNOWN_CLASSES['fee_negative'] = lambda c, io, mo: c.req.startswith('txs ') and txs_exceeds_inputs(c.req) and \
    known_status('fee_negative') == 'known' 
# add_output(<Value object>) takes the amount in main units (int(Value)); predicate live while recorded as 'known'
KNOWN_CLASSES['addoutput_value_units'] = \
    lambda c, io, mo: c.req.startswith('txs ') and any(o.startswith('av,') for o in c.req.split(' ')[6:]) and \
    known_status('addoutput_value_units') == 'known'


def reproduce_known(entry, rundir):
    from core import run_impl
    req = entry['witness']['request']
    rc, out, err = run_impl(IMPL, [req], rundir)
    if len(out) == 1 and req.startswith('txs '):
        # the recorded answer of a transaction session is its amount part (no signatures / raw bytes)
        return _txs_canon(Case('txs', req), out[0]) == entry['witness']['impl_answer']
    return len(out) == 1 and out[0] == entry['witness']['impl_answer']


def is_trivial(c, out):
    return out.startswith('ERR') or out == 'BADREQ'


# ---------------------------------------------------------------- model request / comparison
MULT = (1.03 ** 5).as_integer_ratio()      # the binary64 constant of the default fee bump
_side = {}


def _load_side():
    if not _side:
        import core as _core
        p = os.path.join(RUN, PROP + ('_alt_%d' % os.getpid() if _core.ALT else ''), 'c17_side.json')
        _side.update(json.load(open(p)) if os.path.exists(p) else {})
        _side['__loaded__'] = 1
    return _side


def model_req(c):
    """txs sessions: the sizes of the (re-)signed transaction, reported by the adapter, are inputs of the model"""
    if c.req.startswith('wtx '):
        return 'tables'
    if not c.req.startswith('txs '):
        return c.req
    side = _load_side().get(c.req)
    t = c.req.split(' ')
    if side is None or len(side) != len(t) - 5:
        return 'txs-nosizes'
    rep = '1' if known_status('addoutput_value_units') == 'fixed' else '0'
    if t[3] == 'S':
        t[3] = 'S%d' % side[0][1]
    for j, op in enumerate(t[6:]):
        o = op.split(',')
        pre, post = side[j + 1]
        if o[0] == 'b':
            o += [str(pre), '%d/%d' % MULT, str(post)]
        elif o[0] == 'av':
            o.insert(1, rep)
        elif o[0] == 'u':
            o.append(str(pre))
        elif o[0] == 's':
            o.append(str(post))
        elif o[0] == 'c':
            o.append(str(pre))
        t[6 + j] = ','.join(o)
    return ' '.join(t)


def _txs_canon(c, io):
    segs = io.split(' | ')
    ops = ['init'] + c.req.split(' ')[6:]
    res = []
    for k, seg in enumerate(segs):
        cut = seg.find(' in=')
        if cut >= 0:
            seg = seg[:cut]
        if k < len(ops) and ops[k].startswith('e,'):
            seg = ' '.join(x for x in seg.split(' ') if not x.startswith('r='))
        res.append(seg)
    return ' | '.join(res)


def same(c, io, mo):
    if c.req.startswith('txs '):
        return _txs_canon(c, io) == mo
    if c.req.startswith('wtx '):
        return True                      # no model here (C07 has it); the independent oracle decides
    return io == mo


# ---------------------------------------------------------------- generators
def amounts(rng, count, big):
    vals = set(range(0, 300))
    for k in range(1, 52):
        for d in range(-3, 4):
            vals.add((1 << k) + d)
    for k in range(1, 16):
        for m in (1, 2, 5, 21):
            for d in range(-3, 4):
                vals.add(m * 10 ** k + d)
    # binade edges of n/1e8 (where the spacing of the parsed float doubles)
    for k in range(-26, 25):
        e = (10 ** 8 << k) if k >= 0 else (10 ** 8 >> -k)
        for d in range(-2, 3):
            vals.add(e + d)
    for d in range(0, 2000 if big else 200):
        vals.add(TOP - d)
    vals.update([TOP, 2099999999493631, 123456789, 1200000, 2099999997690000])
    out = [v for v in vals if 0 <= v <= TOP]
    out.sort()
    for _ in range(count):
        m = rng.randrange(4)
        if m == 0:
            out.append(rng.randrange(TOP + 1))
        elif m == 1:
            out.append(rng.getrandbits(rng.randrange(1, 51)) % (TOP + 1))
        elif m == 2:
            out.append(TOP - rng.randrange(10 ** rng.randrange(1, 15)))
        else:
            out.append(rng.randrange(1, 10 ** rng.randrange(1, 9)) * 10 ** rng.randrange(0, 8) % (TOP + 1))
    return out


def hard_decimal_strings(rng, count):
    """decimal strings at and next to the midpoint of two adjacent doubles (the hard cases of float())"""
    import struct
    res = []
    for _ in range(count):
        e = rng.choice([rng.randrange(-1074, 971), rng.randrange(-60, 60)])
        m = rng.getrandbits(53) | (1 << 52) if rng.random() < 0.9 else rng.getrandbits(rng.randrange(1, 53))
        mid = Fraction(2 * m + 1) * Fraction(2) ** (e - 1)
        with localcontext() as ctx:
            ctx.prec = 1200
            d = Decimal(mid.numerator) / Decimal(mid.denominator)
            s = format(d, 'f') if -400 < d.adjusted() < 400 else str(d)
        mode = rng.randrange(4)
        if mode == 1 and '.' in s:
            s = s + '1'
        elif mode == 2 and '.' in s and len(s) > 3:
            s = s[:-1]
        elif mode == 3:
            s = ('%de%d' % (mid.numerator, 0)) if mid.denominator == 1 else s
        res.append(s)
    return res


# ---------------------------------------------------------------- session generators
SAFE_SYMS = [x for x in SYMS if x != 'da']
RT_SYMS = [x for x in SYMS if SYMS[x] <= 0]       # default decimals of str() can hold one smallest unit
SESSION_CODES = ['BTC', 'LTC', 'DOGE', 'TST', 'XLT']


def unit_ok(sym, code):
    """the unit token <sym><code> reads as this symbol with this currency (and not e.g. 'T'+'BTC' = currency tBTC)"""
    return split_unit(sym + code) == (sym, code)


def safe_amount(rng):
    m = rng.randrange(6)
    if m == 0:
        return rng.randrange(0, 1000)
    if m == 1:
        return rng.randrange(1, 10 ** rng.randrange(1, 13)) % (SAFE_TOP + 1)
    if m == 2:
        return rng.choice([1, 10, 100, 12345, 100000, 150000, 10 ** 8, 10 ** 8 + 1, 10 ** 11, SAFE_TOP, SAFE_TOP - 1, 99999999])
    return rng.randrange(SAFE_TOP + 1)


def parse_step(rng, n, sym, code, how=None):
    """one well-formed parsing step for n smallest units written in <sym><code>"""
    text = amount_str(n, sym, code, trim=rng.random() < 0.5)
    net = CODE_NET[code.upper()] if code else 'bitcoin'
    how = how or rng.choice(['vts', 'vts', 'val', 'val', 'output', 'tobytes', 'vtsn'])
    if how == 'vts':
        return 'vts %s -' % hs(text)
    if how == 'vtsn':
        return 'vts %s %s' % (hs(text), hs(net))
    if how == 'val':
        return 'val %s %s' % (hs(text), hs(net))
    if how == 'output':
        return 'output s:%s %s' % (hs(text), hs(net))
    return 'tobytes %s %s' % (hs(text), hs(net))


def format_step(rng, n, sym, net):
    d = ('s:' + hs(sym)) if sym else 'f:' + (1.0).hex()
    m = rng.randrange(3)
    if m == 0:
        return 'rt %d %s %s' % (n, d, hs(net))
    if m == 1:
        return 'str %d - %s - %s' % (n, d, hs(net))
    return 'str %d %s %s - %s' % (n, d, d, hs(net))


BAD_STEPS = ['1 XYZ', '1 daBTC', 'abc', '', '1 mm', '1 EUR', 'nan BTC', '1 BTC extra', '1e400 BTC', '1 mXYZ', '-', '1 KBTC']


def case_variants(sym, code):
    """unit tokens that differ from <sym><code> only in letter case and are themselves well-formed units"""
    res = []
    for s2 in {sym, sym.lower(), sym.upper(), sym.swapcase()}:
        for c2 in {code, code.lower(), code.upper(), code.capitalize()}:
            su = split_unit(s2 + c2)
            if su is not None and su[0] in SAFE_SYMS and (s2 + c2) != (sym + code):
                res.append((s2 + c2, su[0]))
    return sorted(res)


def gen_seq_sessions(rng, big):
    ss = []
    # (1) every ordered pair of denominator symbols, one currency: a lookup remembered under too coarse a key
    for s1 in SAFE_SYMS:
        for s2 in SAFE_SYMS:
            code = SESSION_CODES[(len(ss)) % len(SESSION_CODES)]
            if not (unit_ok(s1, code) and unit_ok(s2, code)):
                code = 'LTC'
            n1, n2 = safe_amount(rng), safe_amount(rng)
            how = ['vts', 'val', 'vtsn', 'output'][len(ss) % 4]
            ss.append(' | '.join([parse_step(rng, n1, s1, code, how), parse_step(rng, n2, s2, code, how),
                                  parse_step(rng, n1, s1, code, how)]))
    # (2) units that differ only in letter case (mBTC / MBTC / mbtc / Mbtc ...), both orders, every currency
    for code in CODES:
        for sym in SAFE_SYMS:
            if not unit_ok(sym, code):
                continue
            for (u2, s2) in case_variants(sym, code):
                n = rng.choice([1, 3, 25, 12345]) * 10 ** max(0, SYMS[sym] + 8, SYMS[s2] + 8)
                if n > SAFE_TOP * 10 ** 6:
                    continue
                t1 = dec_str(n, SYMS[sym] + 8, True) + ' ' + sym + code
                t2 = dec_str(n, SYMS[s2] + 8, True) + ' ' + u2
                for a, b in ((t1, t2), (t2, t1)):
                    how = rng.choice(['vts %s -', 'val %s ' + hs('bitcoin')])
                    ss.append(' | '.join([how % hs(a), how % hs(b), how % hs(a)]))
    # (3) the same unit under every currency, and the bare symbol: a lookup remembered without the currency
    for sym in SAFE_SYMS:
        steps = []
        codes = [c for c in CODES if unit_ok(sym, c)]
        rng.shuffle(codes)
        for code in codes + ['']:
            steps.append('val %s %s' % (hs(amount_str(safe_amount(rng), sym, code, trim=True)), hs('bitcoin')))
        ss.append(' | '.join(steps))
    # (4) format -> parse with every denominator in a row, forwards and backwards, then the parses again
    for _ in range(40 if big else 12):
        n = safe_amount(rng)
        net = rng.choice(['bitcoin', 'litecoin', 'dogecoin', 'testnet'])
        order = list(RT_SYMS)
        if rng.random() < 0.5:
            rng.shuffle(order)
        steps = ['rt %d %s %s' % (n, ('s:' + hs(y)) if y else 'f:' + (1.0).hex(), hs(net)) for y in order + order[::-1]]
        ss.append(' | '.join(steps))
    # (5) long mixed sessions: parse / format / outputs in every unit, malformed strings in between, repeats
    for _ in range(600 if big else 60):
        steps = []
        pool = []
        for _ in range(rng.randrange(8, 40)):
            r = rng.random()
            if r < 0.08:
                bad = rng.choice(BAD_STEPS)
                steps.append('! ' + rng.choice(['vts %s -', 'val %s ' + hs('bitcoin'), 'strv %s a - ' + hs('bitcoin')]) % hs(bad))
            elif r < 0.2 and pool:
                steps.append(rng.choice(pool))
            elif r < 0.65:
                sym = rng.choice(SAFE_SYMS)
                code = rng.choice([c for c in CODES + [''] if c == '' or unit_ok(sym, c)])
                st = parse_step(rng, safe_amount(rng), sym, code)
                steps.append(st)
                pool.append(st)
            elif r < 0.9:
                st = format_step(rng, safe_amount(rng), rng.choice(RT_SYMS), rng.choice(NETS))
                steps.append(st)
                pool.append(st)
            else:
                n = safe_amount(rng)
                steps.append(rng.choice(['addout i:%d %s' % (n, hs('bitcoin')), 'outraw i:%d %s' % (n, hs('litecoin')),
                                         'addout f:%s %s' % (float(n).hex(), hs('bitcoin')),
                                         'fromsat %d - %s' % (n, hs('dogecoin'))]))
        ss.append(' | '.join(steps))
    # (6) one text under every way of handing over the network (none / its own / another / as Value(network=)): an answer
    #     remembered per text, or a network left over from the previous call
    for _ in range(200 if big else 40):
        sym = rng.choice(SAFE_SYMS)
        code = rng.choice([c for c in SESSION_CODES + [''] if c == '' or unit_ok(sym, c)])
        text = amount_str(safe_amount(rng), sym, code, trim=True)
        own = CODE_NET[code.upper()] if code else 'bitcoin'
        others = [x for x in ('bitcoin', 'litecoin', 'dogecoin', 'testnet') if x != own]
        forms = ['vts %s -' % hs(text), 'vts %s %s' % (hs(text), hs(own)), 'vts %s %s' % (hs(text), hs(rng.choice(others))),
                 'val %s %s' % (hs(text), hs(own)), 'val %s %s' % (hs(text), hs(rng.choice(others))),
                 'output s:%s %s' % (hs(text), hs(own)), 'output s:%s %s' % (hs(text), hs(rng.choice(others))),
                 'strv %s - - %s' % (hs(text), hs(own))]
        rng.shuffle(forms)
        ss.append(' | '.join(forms + forms[:3]))
    return [Case('seq', 'seq ' + x) for x in ss]


def gen_vobj_sessions(rng, big):
    cs = []
    for j in range(1500 if big else 150):
        n = safe_amount(rng) % (10 ** 11 + 1)
        if j % 2:
            sym = rng.choice(SAFE_SYMS)
            code = rng.choice([c for c in ['BTC', 'BTC', 'LTC', ''] if c == '' or unit_ok(sym, c)])
            init = 'S,%s,%s' % (hs(amount_str(n, sym, code, trim=rng.random() < 0.5)), hs('bitcoin'))
        else:
            sym = rng.choice(RT_SYMS)
            init = 'N,%d,%s,%s' % (n, ('s:' + hs(sym)) if sym and rng.random() < 0.7 else '-', hs(rng.choice(['bitcoin', 'bitcoin', 'litecoin'])))
        ops = []
        for _ in range(rng.randrange(4, 16)):
            r = rng.random()
            if r < 0.3:
                ops.append('sat')
            elif r < 0.55:
                y = rng.choice(RT_SYMS + ['k', 'M', 'h'])
                ops.append('str,%s,%s' % (('s:' + hs(y)) if y else 'f:' + (1.0).hex(), '-' if rng.random() < 0.8 else str(rng.randrange(0, 12))))
            elif r < 0.65:
                ops.append('bytes')
            elif r < 0.85:
                b = amount_str(safe_amount(rng) % (10 ** 11), rng.choice(['', 'm', 'sat', 'µ', 'c', 'k']),
                               rng.choice(['BTC', 'BTC', 'BTC', 'LTC', '']), trim=True)
                ops.append('%s,%s' % (rng.choice(['add', 'iadd', 'sub', 'isub', 'add', 'addk', 'subk', 'addk']), hs(b)))
            elif r < 0.95:
                ops.append('%s,%d' % (rng.choice(['mul', 'mul', 'mulk']), rng.choice([0, 1, 2, 3, 7, 10])))
            else:
                ops.append('%s,%d' % (rng.choice(['div', 'div', 'divk']), rng.choice([1, 2, 4, 5, 10, 0, 3])))
        cs.append(Case('vobj', 'vobj %s %s' % (init, ' '.join(ops))))
    return cs


TX_NETS = ['bitcoin', 'litecoin', 'dogecoin', 'bitcoinlib_test', 'testnet']


def _rel_value(rng, rem):
    """a change value in a chosen relation to the amount still to be taken from the change outputs"""
    m = rng.randrange(9)
    if m == 0:
        return max(1, rem - 1)
    if m == 1:
        return max(1, rem)
    if m == 2:
        return 2 * rem
    if m == 3:
        return 2 * rem + 1
    if m == 4:
        return max(1, rng.randrange(1, max(2, rem)))
    if m == 5:
        return rng.randrange(rem, 2 * rem + 1)
    if m == 6:
        return rng.randrange(2 * rem + 1, 20 * rem + 2)
    if m == 7:
        return max(1, rem // 2)
    return rng.randrange(1, 3 * rem + 2)


def gen_txs_sessions(rng, big, neg_ok, value_ok):
    cs = []

    def emit(net, wt, mode, ins, outs, ops):
        cs.append(Case('txs', 'txs %s %s %s %s %s %s' % (
            hs(net), wt, mode, ','.join(str(v) for v in ins), ','.join('%d:%d' % (v, 1 if c else 0) for v, c in outs),
            ' '.join(ops))))

    # the recorded shapes: two change outputs smaller / larger than the bump
    emit('bitcoinlib_test', 'S', 'S', [200000], [(180000, False), (6000, True), (9000, True)], ['b,0,10000'])
    emit('bitcoinlib_test', 'S', 'S', [200000], [(139000, False), (6000, True), (50000, True)], ['b,0,10000'])
    emit('bitcoin', 'L', 'S', [200000], [(122500, False), (2500, True), (30000, True), (40000, True)], ['b,0,4000', 'b,0,400'])
    # (1) fee bumps: 1..4 change outputs in every relation to the extra fee, explicit fee / extra_fee / default
    for j in range(5000 if big else 420):
        net, wt = TX_NETS[j % len(TX_NETS)], 'LS'[(j // 5) % 2]
        mode = 'U' if j % 7 == 3 else 'S'
        extra = rng.choice([rng.randrange(100, 400), rng.randrange(400, 5000), rng.randrange(5000, 10 ** 6)])
        nch = rng.choice([1, 1, 2, 2, 2, 3, 3, 4])
        rem, chg = extra, []
        for _ in range(nch):
            v = _rel_value(rng, max(rem, 1))
            chg.append(v)
            if v < rem:
                rem -= v
            else:
                rem = max(1, extra // 3) if rng.random() < 0.3 else rem    # later outputs: still vary
        pays = [rng.randrange(1, 10 ** rng.randrange(3, 10)) for _ in range(rng.randrange(1, 3))]
        fee0 = rng.choice([rng.randrange(1, 300), rng.randrange(300, 50000)])
        total = sum(chg) + sum(pays) + fee0
        nin = rng.randrange(1, 4)
        ins = [total // nin] * nin
        ins[0] += total - sum(ins)
        if min(ins) <= 0:
            ins = [total]
        outs = [(v, False) for v in pays] + [(v, True) for v in chg]
        if rng.random() < 0.6:
            rng.shuffle(outs)
        r = rng.random()
        if r < 0.55:
            ops = ['b,0,%d' % extra]
        elif r < 0.8:
            ops = ['b,%d,0' % (fee0 + extra)]
        elif r < 0.88:
            ops = ['b,0,0']
        elif r < 0.94:
            ops = ['b,%d,%d' % (fee0 + extra, rng.randrange(1, 10 ** 5))]      # fee wins over extra_fee
        else:
            ops = ['b,%d,0' % rng.randrange(0, fee0 + 200), 'b,0,%d' % rng.randrange(1, 250)]     # below the minimum
        if rng.random() < 0.35:
            ops.append(rng.choice(['b,0,%d' % rng.choice([extra, extra // 2 + 200, 150, 2 * extra]), 'b,0,0', 'u', 's']))
        emit(net, wt, mode, ins, outs, ops)
    # (2) mixed sessions: add_output (int / float / text), update_totals, sign_and_update, estimates, bumps
    for j in range(3000 if big else 260):
        net, wt = TX_NETS[j % len(TX_NETS)], 'LS'[(j // 5) % 2]
        mode = 'U' if j % 5 == 2 else 'S'
        nin = rng.randrange(1, 4)
        ins = [rng.choice([rng.randrange(10 ** 4, 10 ** 7), rng.randrange(10 ** 7, 10 ** 11),
                           rng.randrange(10 ** 14, 7 * 10 ** 14)]) for _ in range(nin)]
        tin = sum(ins)
        budget = tin - rng.choice([rng.randrange(200, 5000), rng.randrange(5000, 10 ** 6)]) % (tin // 2)
        outs = []
        for _ in range(rng.randrange(1, 5)):
            v = rng.randrange(1, max(2, budget // 2))
            budget -= v
            outs.append((v, rng.random() < 0.5))
        room = tin - sum(v for v, _ in outs)          # what the fee can still absorb
        ops = []
        for _ in range(rng.randrange(1, 7)):
            r = rng.random()
            if r < 0.3:
                v = rng.choice([0, 1, 546, 1000, rng.randrange(1, max(2, room // 3 + 1))])
                if v >= room:
                    v = 0
                form = rng.randrange(6)
                if form <= 2:
                    tok = 'i:%d' % v
                elif form == 3 and v < 2 ** 53:
                    tok = 'f:%s' % float(v).hex()
                elif form == 4:
                    tok = 's:%s' % hs(rng.choice(['%d', ' %d ', '%d.0', '+%d']) % v)
                else:
                    tok = rng.choice(['f:%s' % (v + 0.5).hex(), 's:%s' % hs('%d sat' % v), 's:%s' % hs('1e3'), 'f:nan',
                                      'i:%d' % v])
                    if tok == 's:%s' % hs('1e3'):
                        v = 0
                if tok.startswith(('i:', 'f:0x')) or form == 4:
                    room -= v if not tok.endswith(('.5p+0',)) else 0
                ops.append('a,%s,%d' % (tok, rng.randrange(2)))
            elif r < 0.5:
                ex = rng.choice([rng.randrange(100, 600), rng.randrange(600, 10 ** 5)])
                ops.append(rng.choice(['b,0,%d' % ex, 'b,0,0', 'b,%d,0' % rng.randrange(1, 10 ** 6)]))
            elif r < 0.62:
                ops.append('u')
            elif r < 0.76:
                ops.append('s')
            elif r < 0.86:
                ops.append('e,%d' % rng.randrange(0, 4))
            else:
                ops.append('c,%d' % rng.choice([0, 1, 999, 1000, 1001, 12345, 10 ** 6, 10 ** 6 + 1, 2 * 10 ** 6 + 1, 10 ** 9,
                                                10 ** 10 + 7, rng.randrange(1, 10 ** 7)]))
        emit(net, wt, mode, ins, outs, ops)
    # (3) out-of-range values handed to add_output: refused by raw(), never serialised
    for v in (-1, -5, 2 ** 63, 2 ** 64 - 1, 2 ** 64, 10 ** 30):
        for tail in ([], ['s'], ['u'], ['b,0,500']):
            if v > 0 and not neg_ok and (tail == ['u'] or (tail and v < 2 ** 64)):
                continue                                  # the totals would turn negative: class fee_negative
            emit('bitcoin', 'S', 'S', [10 ** 6], [(400000, False), (500000, True)], ['a,i:%d,0' % v] + tail)
    # (4) outputs beyond the inputs (recorded class fee_negative)
    if neg_ok:
        for j in range(60 if big else 12):
            tin = rng.randrange(10 ** 4, 10 ** 8)
            o1 = rng.randrange(1, tin)
            add = tin - o1 + rng.randrange(0, 10 ** 6)
            emit(TX_NETS[j % 5], 'LS'[j % 2], 'S', [tin], [(o1, False)], ['a,i:%d,%d' % (add, j % 2)] + rng.choice([['u'], ['s'], ['u', 's'], ['s', 'b,0,300']]))
    # (5) add_output(<Value object>) (recorded finding addoutput_value_units, or its repair)
    if value_ok:
        for j in range(400 if big else 60):
            net = TX_NETS[j % 5]
            code = {'bitcoin': 'BTC', 'litecoin': 'LTC', 'dogecoin': 'DOGE', 'bitcoinlib_test': 'TST', 'testnet': 'tBTC'}[net]
            n = rng.choice([1, 100, 10 ** 8, 3 * 10 ** 8, 250000, 150000000, rng.randrange(1, 10 ** 10)])
            sym = rng.choice(['', '', 'm', 'sat', 'µ', 'c', 'k'])
            text = amount_str(n, sym, rng.choice([code, code, '']), trim=True)
            if j % 10 == 9:
                text = rng.choice(['0.5 sat', '1 LTC' if net != 'litecoin' else '1 BTC', '0.000000015 ' + code])
            emit(net, 'LS'[j % 2], 'S', [3 * 10 ** 10], [(10 ** 9, False), (10 ** 10, True)], ['av,%s,%d' % (hs(text), j % 2), 's'])
    return cs


def gen_wtx_sessions(rng, big):
    cs = []
    for j in range(700 if big else 70):
        wt = 'SL'[j % 2]
        nut = rng.randrange(1, 4)
        utxos = [rng.choice([rng.randrange(20000, 10 ** 6), rng.randrange(10 ** 6, 10 ** 9)]) for _ in range(nut)]
        tot = sum(utxos)
        fee = rng.choice([rng.randrange(200, 3000), rng.randrange(3000, 40000)])
        npay = rng.randrange(1, 3)
        m = rng.random()
        spend = int(tot * rng.uniform(0.05, 0.6)) if m < 0.6 else (tot - fee - rng.randrange(0, 30000) if m < 0.9 else int(utxos[0] * 0.9))
        spend = max(2000 * npay, spend)
        pays = [spend // npay] * npay
        pays[0] += spend - sum(pays)
        k = rng.choice([1, 1, 2, 3, 4, 0])
        feetok = str(fee) if rng.random() < 0.75 else 'N:%d' % rng.choice([1000, 5000, 20000, 100000])
        if j % 4 == 1:
            # the change left over cannot pay the bump: WalletTransaction.bumpfee has to add another wallet output
            small = rng.choice([0, rng.randrange(1, 1000), rng.randrange(5000, 40000), rng.randrange(5000, 40000)])
            wt = 'SL'[(j // 4) % 2]
            a = rng.randrange(50000, 10 ** 7)
            extra = small + rng.randrange(200, 20000)
            b = rng.choice([extra, extra + 1, 2 * extra, 2 * extra + 1, extra + rng.randrange(0, 10 ** 6), max(1, extra - 1)])
            utxos = [a, b] if rng.random() < 0.5 else [b, a]
            pays = [a - fee - small]
            cs.append(Case('wtx', 'wtx %s %s %s %d %d %d %s' % (wt, ','.join(map(str, utxos)), pays[0], fee, rng.choice([1, 1, 2]),
                                                                 j % 3 == 0, rng.choice(['0,%d' % extra, '%d,0' % (fee + extra), '0,0']))))
            continue
        r = rng.random()
        if r < 0.15:
            bump = '-'
        elif r < 0.3:
            bump = '0,0'
        elif r < 0.75:
            bump = '0,%d' % rng.choice([rng.randrange(150, 1000), rng.randrange(1000, 60000)])
        else:
            bump = '%d,0' % (fee + rng.choice([rng.randrange(150, 1000), rng.randrange(1000, 60000)]))
        cs.append(Case('wtx', 'wtx %s %s %s %s %d %d %s' % (wt, ','.join(map(str, utxos)), ','.join(map(str, pays)), feetok, k,
                                                             j % 3 == 0, bump)))
    return cs


def gen_sessions(rng, big):
    neg_ok = known_status('fee_negative') == 'known'
    value_ok = known_status('addoutput_value_units') in ('known', 'fixed')
    return gen_seq_sessions(rng, big) + gen_vobj_sessions(rng, big) + gen_txs_sessions(rng, big, neg_ok, value_ok) + \
        gen_wtx_sessions(rng, big)


def gen_cases(rng, tier):
    big = tier == 'thorough'
    cs = []
    add = cs.append
    add(Case('tables', 'tables'))
    # sessions first: each runs in a forked child of the freshly started adapter, so that a replay of one session sees the
    # same process state; their own random stream keeps the stateless streams below what they were
    cs.extend(gen_sessions(__import__('random').Random(rng.getrandbits(64) ^ 0xC17), big))
    ams = amounts(rng, 60000 if big else 4000, big)
    syms = list(SYMS)
    nets_h = [hs(n) for n in NETS]

    # --- every amount in every denominator symbol, codes / networks rotated; bitcoin always
    for i, n in enumerate(ams):
        for j, sym in enumerate(syms):
            code = 'BTC' if (i + j) % 3 else CODES[(i + j) % len(CODES)]
            text = amount_str(n, sym, code, trim=(i % 5 == 0))
            # 'T' + BTC / DOGE is itself a currency code (tBTC, tDOGE upper-cased): recorded under class den_T
            add(Case('ok_val', 'val %s %s' % (hs(text), nets_h[(i + j) % len(nets_h)])))
        # value_to_satoshi with / without the network argument; the symbol alone (default network)
        sym = syms[i % len(syms)]
        code = CODES[i % len(CODES)]
        text = amount_str(n, sym, code)
        add(Case('ok_vts', 'vts %s -' % hs(text)))
        add(Case('ok_vts', 'vts %s %s' % (hs(text), hs(CODE_NET[code.upper()]))))
        add(Case('ok_vts', 'vts %s %s' % (hs(text), nets_h[i % len(nets_h)])))
        add(Case('ok_vts', 'vts %s -' % hs(dec_str(n, SYMS[sym] + 8) + ' ' + sym)))
        add(Case('ok_vts', 'vts %s -' % hs(dec_str(n, 8))))
        add(Case('ok_vts', 'vts %s -' % hs('%d sat' % n)))
        add(Case('ok_vts', 'vts %s -' % hs(dec_str(n, 8) + ' btc')))
        if i % 7 == 0:
            add(Case('ok_vts', 'vts %s -' % hs('  ' + dec_str(n, 8) + '\t' + code.lower() + ' ')))
            add(Case('ok_tobytes', 'tobytes %s %s' % (hs(dec_str(n, 8) + ' BTC'), hs('bitcoin'))))
            add(Case('ok_tobytes', 'tobytes %s %s' % (hs(amount_str(n, sym, 'LTC')), hs('litecoin'))))
        # sub-satoshi denominators with amounts that are not whole units
        if i % 3 == 0:
            add(Case('ok_val', 'val %s %s' % (hs('%d msat' % (n * 1000 + rng.randrange(1000))), hs('bitcoin'))))
            add(Case('ok_val', 'val %s %s' % (hs('%d µsat' % (n * 10 ** 6 + rng.randrange(10 ** 6))), hs('bitcoin'))))
            add(Case('ok_val', 'val %s %s' % (hs(dec_str(n * 1000 + rng.randrange(1000), 11) + ' BTC'), hs('bitcoin'))))
        # --- from_satoshi / str / format -> parse
        net = nets_h[i % len(nets_h)]
        add(Case('rt_default', 'rt %d - %s' % (n, net)))
        add(Case('rt_unit', 'rt %d f:%s %s' % (n, (1.0).hex(), net)))
        sy = syms[(i // 2) % len(syms)]
        add(Case('rt_sym', 'rt %d %s %s' % (n, ('s:' + hs(sy)) if sy else 'f:' + (1.0).hex(), net)))
        add(Case('rt_sym', 'rt %d s:%s %s' % (n, hs('sat'), hs('bitcoin'))))
        s1 = syms[i % len(syms)]
        s2 = syms[(i // 3) % len(syms)]
        d1 = ('s:' + hs(s1)) if s1 else '-'
        d2 = ('s:' + hs(s2)) if s2 else 'f:' + (1.0).hex()
        add(Case('str', 'str %d %s %s - %s' % (n, d1, d2, net)))
        add(Case('str', 'str %d - %s - %s' % (n, d2, net)))
        add(Case('str_dec', 'str %d %s %s %d %s' % (n, d1, d2, rng.randrange(-2, 16), net)))
        add(Case('str_auto', 'str %d - a - %s' % (n, net)))
        add(Case('str_auto', 'str %d - a %d %s' % (n, rng.randrange(0, 10), net)))
        add(Case('fromsat', 'fromsat %d %s %s' % (n, d1, net)))
        add(Case('fromsat', 'fromsat %d - %s' % (-n, net)))
        if i % 4 == 0:
            add(Case('strv', 'strv %s a - %s' % (hs(amount_str(n, sym, 'BTC')), hs('bitcoin'))))
            add(Case('strv', 'strv %s %s - %s' % (hs(amount_str(n, '', 'BTC')), d2, hs('bitcoin'))))
        # --- outputs
        add(Case('ok_output', 'output s:%s %s' % (hs(amount_str(n, sym, code)), hs(CODE_NET[code.upper()]))))
        if i % 3 == 0:
            add(Case('ok_output', 'output s:%s %s' % (hs(dec_str(n, 8) + ' BTC'), hs('bitcoin'))))
            add(Case('ok_output', 'output s:%s %s' % (hs('%d sat' % n), hs('bitcoin'))))
            add(Case('output', 'output i:%d %s' % (n, net)))
            add(Case('addout', 'addout i:%d %s' % (n, net)))
            add(Case('addout', 'addout f:%s %s' % (float(n).hex(), net)))
            add(Case('outraw', 'outraw i:%d %s' % (n, net)))
            add(Case('outraw', 'outraw s:%s %s' % (hs(dec_str(n, 8) + ' BTC'), hs('bitcoin'))))
    # every denominator x network: default decimals (math.log10) and symbol resolution, exhaustively
    for net in nets_h:
        for s1 in syms:
            for s2 in syms + ['BTC', 'mBTC', 'daX', 'sats', 'auto', 'x']:
                for n in (0, 1, 123456789, TOP):
                    d1 = ('s:' + hs(s1)) if s1 else '-'
                    add(Case('str_grid', 'str %d %s s:%s - %s' % (n, d1, hs(s2) if s2 else hs('BTC'), net)))
    # --- integers / floats / strings into Output, add_output, raw
    specials_i = [0, 1, -1, -5, 2 ** 63 - 1, 2 ** 63, 2 ** 64 - 1, 2 ** 64, 2 ** 64 + 1, 2 ** 53 + 1, TOP, TOP + 1,
                  10 ** 30, -10 ** 30, 2 ** 1023, 2 ** 1024, 2 ** 1024 - 2 ** 970, 2 ** 1024 - 2 ** 970 - 1, 10 ** 400]
    specials_f = [0.0, -0.0, 1.0, 1.5, 0.5, -1.0, -0.5, 1e3, 1e15, 2.0 ** 53, 2.0 ** 63, 2.0 ** 64, 1.8446744073709552e19,
                  1.8446744073709550e19, 1e300, float('inf'), float('-inf'), float('nan'), 5e-324, 0.1, 100000000.5,
                  2.1e15, 1e-8, 123456789.0, 99999999.99999999]
    strs = ['100', '1e3', '1 BTC', ' 12 ', '1.0', '-3', '+7', '', 'abc', '0.5', '12 sat', '1.5 sat', '0.5 sat',
            '2.5 sat', '0.000000015 BTC', '-1 BTC', 'nan', 'inf', '1e400', '1e-400 BTC', 'nan BTC', 'inf sat']
    for net in ('bitcoin', 'litecoin', 'dogecoin', 'nonet'):
        for z in specials_i:
            for kind in ('output', 'addout', 'outraw'):
                add(Case(kind, '%s i:%d %s' % (kind, z, hs(net))))
        for f in specials_f:
            for kind in ('output', 'addout', 'outraw'):
                add(Case(kind, '%s f:%s %s' % (kind, f.hex(), hs(net))))
        for s in strs:
            for kind in ('output', 'addout', 'outraw'):
                add(Case('bad_' + kind, '%s s:%s %s' % (kind, hs(s), hs(net))))
    for _ in range(4000 if big else 400):
        f = rng.choice([rng.random() * 10 ** rng.randrange(0, 20), float(rng.randrange(0, 2 ** 60)),
                        -rng.random() * 1000, rng.randrange(0, 10 ** 9) + 0.5])
        add(Case('addout', 'addout f:%s %s' % (f.hex(), hs('bitcoin'))))
        add(Case('outraw', 'outraw f:%s %s' % (f.hex(), hs('bitcoin'))))
    # --- malformed / unusual strings
    base = ['1 BTC', '1.5 mBTC', '100 sat', '0.1', '21000000 BTC', '5 µBTC', '7 satLTC', '1 TBTC', '1 daBTC', '2 da',
            '1 tBTC', '1 TDOGE', '3 hLTC', '1 XYZ', '1 EUR', '1 USD', '9 sBTC', '9 satBTC', '4 MDOGE', '1 kXLT']
    extra = ['', ' ', 'BTC', '1BTC', '1 BTC extra', '1  BTC', '1\tBTC', '1\nBTC', '1e-8 BTC', '1E8 sat', '+1 BTC',
             '-1 BTC', '-0 BTC', '.5 BTC', '5. BTC', '. BTC', '1e BTC', '1e+ BTC', '0x10 BTC', '1,5 BTC', 'nan BTC',
             'inf BTC', '-inf BTC', 'Infinity BTC', 'NaN', '1e400 BTC', '1e-400 BTC', '1e309 sat', '1e-330', '1e-320',
             '00012.500 BTC', '1 btc', '1 Btc', '1 mbtc', '1 MBTC', '1 µsat', '1 msat', '1 µ', '1 m', '1 sat ', '1 sats',
             '1 satoshi', '1 c', '1 cBTC', '1 dBTC', '1 dDOGE', '1 ddoge', '1 DOGE', '1 doge', '1 dOGE', '1 hBTC',
             '1 T', '1 TLTC', '1 Y', '1 YBTC', '1 ZBTC', '1 EBTC', '1 PBTC', '1 GBTC', '1 nBTC', '1 finBTC',
             '1 fin', '1 finLTC', '1 µsatLTC', '1 msatDOGE', '1 satTST', '1 tst', '1 mTST', '1 rBTC', '1 mrBTC',
             '1 mtBTC', '1 msBTC', '1 satsBTC', '1 BTCBTC', '1 mm', '1 mmBTC', '1.2.3 BTC', '--1 BTC', '1 -BTC',
             '12345678901234567890123456789 sat', '0.' + '0' * 40 + '1 YBTC', '1' + '0' * 330 + ' sat',
             '0.' + '9' * 60 + ' BTC', '1' * 400 + ' µsat', '4.9e-324 BTC', '2.47e-324', '2.48e-324', '1.7976931348623158e308',
             '1.7976931348623159e308', '17976931348623158' + '0' * 292]
    for s in base + extra:
        for net in ('-', hs('bitcoin'), hs('litecoin'), hs('testnet'), hs('nonet')):
            add(Case('bad_vts', 'vts %s %s' % (hs(s), net)))
        add(Case('bad_val', 'val %s %s' % (hs(s), hs('bitcoin'))))
        add(Case('bad_val', 'val %s %s' % (hs(s), hs('dogecoin'))))
        add(Case('bad_strv', 'strv %s - - %s' % (hs(s), hs('bitcoin'))))
        add(Case('bad_strv', 'strv %s a - %s' % (hs(s), hs('bitcoin'))))
    alphabet = list('0123456789') * 3 + list('.. eE+-  \tmkµnsatBTCLdcfiMGhYZ')
    for _ in range(30000 if big else 3000):
        s = rng.choice(base + extra[:60])
        l = list(s)
        for _ in range(rng.randrange(1, 3)):
            m = rng.randrange(3)
            p = rng.randrange(len(l) + 1)
            if m == 0:
                l.insert(p, rng.choice(alphabet))
            elif m == 1 and l:
                del l[min(p, len(l) - 1)]
            elif l:
                l[min(p, len(l) - 1)] = rng.choice(alphabet)
        s = ''.join(l)
        if '_' in s:
            continue
        add(Case('bad_vts', 'vts %s %s' % (hs(s), rng.choice(['-', hs('bitcoin'), hs('litecoin')]))))
        add(Case('bad_val', 'val %s %s' % (hs(s), hs('bitcoin'))))
    # --- arithmetic on Value objects
    for _ in range(3000 if big else 300):
        a = amount_str(rng.randrange(TOP // 2), rng.choice(['', 'm', 'sat', 'µ', 'k']), 'BTC')
        b = amount_str(rng.randrange(TOP // 2), rng.choice(['', 'm', 'sat', 'µ', 'c']), rng.choice(['BTC', 'BTC', 'LTC']))
        for op in ('add', 'sub', 'mul', 'div'):
            add(Case('arith', 'arith %s %s %s %d' % (op, hs(a), hs(b), rng.choice([0, 1, 2, 3, 7, 10, 1000, -3]))))
    # --- Python primitives: float(), float(int), round(), round(x, nd), '%.*f'
    for s in hard_decimal_strings(rng, 6000 if big else 600):
        add(Case('pyfloat', 'pyfloat ' + hs(s)))
    for _ in range(20000 if big else 2000):
        digs = rng.randrange(1, 25)
        m = rng.randrange(10 ** digs)
        e = rng.choice([0, -8, -rng.randrange(0, 30), rng.randrange(-340, 320)])
        s = rng.choice(['%de%d' % (m, e), dec_str(m, rng.randrange(0, 20)), '-%dE%+d' % (m, e), '%d.%de%d' % (m, m, e)])
        add(Case('pyfloat', 'pyfloat ' + hs(s)))
    for z in specials_i + [rng.getrandbits(rng.randrange(1, 1100)) * rng.choice([1, -1]) for _ in range(3000 if big else 300)] + \
            [(1 << k) + d for k in range(52, 70) for d in (-1, 0, 1)] + \
            [((rng.getrandbits(53) | 1 << 52) * 2 + 1) << rng.randrange(0, 200) for _ in range(300)]:
        add(Case('pyfloatint', 'pyfloatint %d' % z))
    xs = list(specials_f) + [2.675, 0.125, 0.375, 2.5, 3.5, -2.5, 1e22, 1e23, 0.30000000000000004, 5e-324, 1.7976931348623157e308]
    for _ in range(12000 if big else 1200):
        m = rng.randrange(5)
        if m == 0:
            xs.append(rng.random() * 10 ** rng.randrange(-10, 20))
        elif m == 1:
            xs.append((rng.randrange(10 ** 6) * 2 + 1) / 2 ** rng.randrange(1, 12))       # exact binary ties
        elif m == 2:
            xs.append(rng.randrange(TOP) / 1e-8 / 1e8 * rng.choice([1, -1]))
        elif m == 3:
            import struct
            xs.append(struct.unpack('>d', struct.pack('>Q', rng.getrandbits(64)))[0])
        else:
            xs.append(rng.randrange(TOP) * 1e-8)
    for x in xs:
        add(Case('pyround', 'pyround %s -' % x.hex()))
        nd = rng.choice([0, 1, 2, 3, 5, 8, 8, rng.randrange(0, 25), rng.randrange(0, 340)])
        add(Case('pyround', 'pyround %s %d' % (x.hex(), nd)))
        add(Case('pyfmt', 'pyfmt %s %d' % (x.hex(), min(nd, 60))))
    return cs


# ---------------------------------------------------------------- extraction cross-check (re-proved in Coq by vm_compute)
GOLDEN_HEADER = """From Coq Require Import ZArith List String. From Coq Require Import Floats.PrimFloat.
From Verif Require Import Float.DecRound Float.B64 Model.Amount. Import ListNotations. Open Scope Z_scope."""


def _coq_str(s):
    return '[' + '; '.join(str(ord(ch)) for ch in s) + ']'


def golden(c, mo):
    t = c.req.split(' ')
    if mo.startswith('CRASH') or mo == 'BADREQ':
        return None
    if t[0] == 'vts' and len(t[1]) <= 160:
        net = 'None' if t[2] == '-' else '(Some %s)' % _coq_str(unhs(t[2]))
        return 'lib_value_to_satoshi %s %s = %s' % (_coq_str(unhs(t[1])), net,
                                                    'Err' if mo == 'ERR' else 'Ok (%s)' % mo)
    if t[0] == 'pyround' and 'nan' not in t[1] and 'inf' not in t[1]:
        if t[2] == '-':
            return 'b64_round (hexf "%s") = %s' % (t[1], 'None' if mo == 'ERR' else 'Some (%s)' % mo)
        if int(t[2]) <= 30:
            return 'b64_round_nd (hexf "%s") %s = hexf "%s"' % (t[1], t[2], mo)
    if t[0] == 'pyfmt' and 'nan' not in t[1] and 'inf' not in t[1]:
        return 'b64_fmt (hexf "%s") %s = %s' % (t[1], t[2], _coq_str(unhs(mo)))
    if t[0] == 'pyfloat' and len(t[1]) <= 120 and mo not in ('ERR', 'nan'):
        return 'py_float %s = Some (hexf "%s")' % (_coq_str(unhs(t[1])), mo)
    return None


EXTRACTION_TB = ('extraction: Coq extraction plugin with ExtrOcamlBasic + ExtrOcamlZBigInt + ExtrOCamlFloats + ExtrOCamlInt63 (bool, option, list, prod, '
                 'unit, sumbool -> OCaml natives; positive/N/Z -> zarith; PrimFloat.float -> OCaml float, Uint63 -> coq-core kernel Uint63); no Extract '
                 'Constant / Extract Inductive of our own; linked with -rectypes -thread -package zarith,coq-core.kernel; OCaml 4.13.1')
