"""C01 — signed digests equal the Bitcoin consensus sighash (legacy SignatureHash and BIP143).

prop_check is an independent implementation (struct + hashlib, own secp256k1) of
  * the legacy SignatureHash preimage (Bitcoin Core CTransactionSignatureSerializer, all hash types),
  * the BIP143 preimage (BIP143 text, all hash types),
  * a consensus-style verifier: an own raw-transaction parser that extracts the signatures from scriptSig / witness
    of what Transaction.raw() returns and checks them with ECDSA against the independent digests
    (fastecdsa called directly in a /venv subprocess that does not import bitcoinlib; a pure-Python secp256k1
    verifier cross-checks it).
The BIP143 published example transactions are replayed at import and first in the corpus."""
import hashlib, os, struct, subprocess, sys
from core import Case

PROP = 'C01'
COQ_FILES = ['Extract/C01.v', 'Glue/WireGlue.v', 'Properties/C01.v']
DRIVER = 'c01'
IMPL = 'harness/impl/c01_impl.py'
ALLOWED_AXIOMS = []
ASSUMPTIONS = [
    'theorems are about coq/Model/Sighash.v: lib_* mirrors Transaction.signature / signature_hash / signature_segwit / '
    'raw(sign_id, hash_type, "legacy") / Input.update_scripts / sign / verify of bitcoinlib/transactions.py WITH the two '
    'repairs fixes/C01-1 (BIP143 hashOutputs SINGLE/NONE) and fixes/C01-2 (input selected by list position); the code '
    'before each repair is kept in the model behind a flag (lib_*_at) and refuted by concrete witnesses; spec_* is '
    'Bitcoin Core SignatureHash (legacy, all hash types, no OP_CODESEPARATOR) and the BIP143 text; transaction records '
    'and serializers are those of Model/TxCodec.v (C06), CompactSize from Model/Wire.v (C18)',
    'domain of the theorems (wf_stx): 32-bit version/locktime/sequence/vout/hash type, amounts in (0, 2^64) (amount 0 is '
    'refused by the library: zero_value_refused), keys of 33 or 65 bytes, 1 <= m <= 16, <= 16 keys, no output script '
    'equal to the single byte 00 (C06 single_zero_byte_item: zero_byte_script_refuted); legacy path: hash types '
    'treated like SIGHASH_ALL only (legacy_non_all_refuted; known finding legacy_non_all_hashtype)',
    'tie to /repo: SIGHASH_* constants are regenerated from config.py on every run (Gen/GenConsts.v) and used by the lib '
    'model; everything else by differential correspondence of the PREIMAGE bytes (Transaction.signature) against the '
    'extracted model and of signature_hash against hashlib, through the public API and through Transaction.parse of '
    'the signed bytes (values, and the key of a P2PK input, supplied as a parsed transaction requires)',
    'the double SHA256 and HASH160 are parameters of every theorem (any functions; output lengths 32 / 20 are the only '
    'premises); the instantiated statement digest_ok_sha256 uses Crypto/Sha256.v and Crypto/Ripemd160.v, which are '
    'validated against hashlib by the correspondence, not proved equal to FIPS 180-4',
    'preimage_commits stops at the equality of the three inner hashes (hashPrevouts, hashSequence, hashOutputs); '
    'preimage_commits_or_collision continues constructively (lists equal, or an explicit collision of H); collision '
    'resistance is never assumed',
    'bare multisig: update_scripts has no branch for it; reachable only with strict=False and the locking script passed '
    'by the caller (Script(script_types=["multisig"]).serialize()) — the digest is then the consensus one, but the '
    'library never builds the scriptSig (C02/C10 territory); excluded from the parse and signed streams',
    'life cycle of one Transaction object (Model/Sighash.v: tobj, mut, lib_apply, ob_run): the object state is what raw() '
    'serialises plus the second copy of the version (version_int); lib_apply mirrors add_input (BIP68 switch to version 2, '
    'replace_by_fee), add_output, set_locktime_relative_blocks/_time, set_locktime_blocks/_time, sign_and_update (copies '
    'version_int into version), shuffle_inputs and merge_transaction (outcome of random.shuffle supplied by the harness), and '
    'plain assignments to sequence / outpoint / value / locktime / version / outputs; signing, verifying, serialising and '
    'asking for digests are the identity on that state.  lib_digest_depends_only_on_fields / session_no_hidden_state name '
    'the obligation NO HIDDEN STATE: it is discharged by correspondence — after every step of a session the '
    'implementation\'s Transaction.signature of every input and hash type is compared with the model on the current '
    'state, and the fields parsed (own parser) from Transaction.raw() at that moment with the model\'s fields — not by '
    'a proof about Python objects.  Exceptions are not predicted: comparison of a session stops at the first refused step',
    'session oracle (prop_check): version, locktime, outpoints, sequences and outputs are taken from the bytes raw() '
    'returns at that moment, only the spent outputs (kind, keys, m, amount) follow the request; signatures embedded in '
    'raw() must be valid for the consensus digest for every input the library (re-)signed after the last change, and '
    'verify() must agree with the independent verifier',
    'not modelled: coinbase inputs, OP_CODESEPARATOR/FindAndDelete, taproot; key objects (a key is its serialized bytes); '
    'ECDSA itself (C13) — the signatures embedded in Transaction.raw() are checked by the harness verifier '
    '(own parser + fastecdsa called directly + pure-Python secp256k1), not in Coq',
]
RULE = ('corpus (BIP143 published examples) + structured stream: transactions with 1..6 inputs of mixed kinds, every input '
        'index, hash types 1,2,3,0x81,0x82,0x83 (+ odd ones) on the segwit path, boundary values/sequences/versions, '
        'output counts across the CompactSize boundary, m-of-n up to 15 keys, several networks; built through the API and '
        're-parsed from signed bytes; permuted index_n stream; signed transactions checked by an independent verifier. '
        'sessions on ONE object: built through Transaction()+add_input/add_output (int and bytes spellings, default and '
        'explicit version, replace_by_fee), Transaction(inputs, outputs) and Transaction.parse, with every class of nSequence; '
        'then sign / verify / digests interleaved with in-place changes (sequence, outpoint, amount, locktime, version, '
        'version_int, output value/script, add_input, add_output, shuffle_inputs, merge_transaction), set_locktime_* on and '
        'around their boundaries, sign_and_update / sign(replace_signatures); observation policies every-step / end-only / '
        'after-signing / first-and-last. '
        'input CONSTRUCTION forms (session modes fn / fh / fl / fa / fla / fu / fr): single-key inputs of every kind described '
        'without keys - kind only, public hash, locking script, address, address + locking script -, multisig inputs from the '
        'redeem script alone (Input(redeemscript=)) and from the unsigned unlocking script; the keys arrive with '
        'Transaction.sign(keys) as Key, hex, bytes, WIF or HDKey; then every preimage for every hash type against consensus and '
        'the signatures embedded in raw() against the independent verifier, again after a change + re-sign (nested P2WPKH '
        'from a locking script only while the proposed class nested_p2wpkh_from_locking_script is recorded). '
        'INFERRED input types (session modes kn / kl / ka / kla / il / ia through add_input, knc / klc / kac / ilc through '
        'Input() + Transaction(inputs, outputs)): witness_type is never passed and script_type only where nothing else '
        'determines it; the library infers them from the locking script of the spent output, its address, both, or the '
        'script type, with the private keys given (k*) or arriving with sign(keys) (i*); observation `inf` reads the witness '
        'type the library holds for every input and the preimage Transaction.signature gives with it (what sign() signs) and '
        'compares type with the kind of the spent output and preimage with consensus, before and after signing, then all '
        'hash types, verify() and the embedded signatures against the independent verifier (nested kinds from a P2SH locking '
        'script only while the proposed class nested_from_locking_script_keyed is recorded). '
        'non-trivial = the implementation returned a preimage / a signed transaction / a session; distinct by request')
IMPL_TIMEOUT = 3000

# ============================================================================ secp256k1 (own, pure Python)
P = 2 ** 256 - 2 ** 32 - 977
N = 0xFFFFFFFFFFFFFFFFFFFFFFFFFFFFFFFEBAAEDCE6AF48A03BBFD25E8CD0364141
GX = 0x79BE667EF9DCBBAC55A06295CE870B07029BFCDB2DCE28D959F2815B16F81798
GY = 0x483ADA7726A3C4655DA4FBFC0E1108A8FD17B448A68554199C47D08FFB10D4B8


def _jdbl(p):
    x, y, z = p
    if y == 0:
        return (0, 1, 0)
    s = 4 * x * y * y % P
    m = 3 * x * x % P
    x2 = (m * m - 2 * s) % P
    return (x2, (m * (s - x2) - 8 * pow(y, 4, P)) % P, 2 * y * z % P)


def _jadd(p, q):
    if p[2] == 0:
        return q
    if q[2] == 0:
        return p
    x1, y1, z1 = p
    x2, y2, z2 = q
    z1z1, z2z2 = z1 * z1 % P, z2 * z2 % P
    u1, u2 = x1 * z2z2 % P, x2 * z1z1 % P
    s1, s2 = y1 * z2 * z2z2 % P, y2 * z1 * z1z1 % P
    if u1 == u2:
        return _jdbl(p) if s1 == s2 else (0, 1, 0)
    h, r = (u2 - u1) % P, (s2 - s1) % P
    h2 = h * h % P
    h3 = h * h2 % P
    x3 = (r * r - h3 - 2 * u1 * h2) % P
    return (x3, (r * (u1 * h2 - x3) - s1 * h3) % P, h * z1 * z2 % P)


def _mul(k, pt):
    r, a = (0, 1, 0), (pt[0], pt[1], 1)
    while k:
        if k & 1:
            r = _jadd(r, a)
        a = _jdbl(a)
        k >>= 1
    return r


def _affine(p):
    if p[2] == 0:
        return None
    zi = pow(p[2], -1, P)
    return (p[0] * zi * zi % P, p[1] * zi * zi * zi % P)


def pub_of(secret, compressed=True):
    x, y = _affine(_mul(secret, (GX, GY)))
    if compressed:
        return bytes([2 + (y & 1)]) + x.to_bytes(32, 'big')
    return b'\x04' + x.to_bytes(32, 'big') + y.to_bytes(32, 'big')


def point_of(pub):
    x = int.from_bytes(pub[1:33], 'big')
    if pub[0] == 4:
        return (x, int.from_bytes(pub[33:65], 'big'))
    y = pow((x * x * x + 7) % P, (P + 1) // 4, P)
    if (y & 1) != (pub[0] & 1):
        y = P - y
    return (x, y)


def ecdsa_verify_py(digest, r, s, pub):
    if not (0 < r < N and 0 < s < N):
        return False
    e = int.from_bytes(digest, 'big')
    w = pow(s, -1, N)
    pt = _affine(_jadd(_mul(e * w % N, (GX, GY)), _mul(r * w % N, point_of(pub))))
    return pt is not None and pt[0] % N == r


_FE = None
_FE_SRC = r'''
import sys
from fastecdsa import ecdsa, curve
from fastecdsa.point import Point
for line in sys.stdin:
    d, r, s, x, y = line.split()
    try:
        ok = ecdsa.verify((int(r, 16), int(s, 16)), bytes.fromhex(d), Point(int(x, 16), int(y, 16), curve=curve.secp256k1),
                          curve=curve.secp256k1, prehashed=True)
    except Exception:
        ok = False
    sys.stdout.write('1\n' if ok else '0\n'); sys.stdout.flush()
'''
_NVER = [0]


def ecdsa_verify(digest, r, s, pub):
    """fastecdsa directly (own subprocess under /venv, bitcoinlib not imported); every 8th call is cross-checked
    with the pure-Python verifier; falls back to pure Python when the subprocess is unavailable."""
    global _FE
    if _FE is None:
        try:
            _FE = subprocess.Popen(['/venv/bin/python', '-u', '-c', _FE_SRC], stdin=subprocess.PIPE,
                                   stdout=subprocess.PIPE, text=True, env={'PATH': os.environ.get('PATH', '')})
        except Exception:
            _FE = False
    if not _FE:
        return ecdsa_verify_py(digest, r, s, pub)
    if not (0 < r < N and 0 < s < N):
        return False
    x, y = point_of(pub)
    try:
        _FE.stdin.write('%s %x %x %x %x\n' % (digest.hex(), r, s, x, y))
        _FE.stdin.flush()
        ans = _FE.stdout.readline().strip() == '1'
    except Exception:
        _FE = False
        return ecdsa_verify_py(digest, r, s, pub)
    _NVER[0] += 1
    if _NVER[0] % 8 == 1 and ecdsa_verify_py(digest, r, s, pub) != ans:
        raise RuntimeError('fastecdsa and the pure-Python verifier disagree')
    return ans


# ============================================================================ independent sighash (protocol text)
def dsha(b):
    return hashlib.sha256(hashlib.sha256(b).digest()).digest()


def h160(b):
    return hashlib.new('ripemd160', hashlib.sha256(b).digest()).digest()


def cs(n):
    if n < 253:
        return bytes([n])
    if n <= 0xffff:
        return b'\xfd' + struct.pack('<H', n)
    if n <= 0xffffffff:
        return b'\xfe' + struct.pack('<I', n)
    return b'\xff' + struct.pack('<Q', n)


def push(d):
    n = len(d)
    if n < 76:
        return bytes([n]) + d
    if n <= 0xff:
        return b'\x4c' + bytes([n]) + d
    return b'\x4d' + struct.pack('<H', n) + d


def op_n(n):
    assert 0 <= n <= 16
    return bytes([0x50 + n]) if n else b'\x00'


def multisig_script(m, keys):
    return op_n(m) + b''.join(push(k) for k in keys) + op_n(len(keys)) + b'\xae'


SEGWIT_KINDS = ('p2wpkh', 'p2wsh', 'p2sh_p2wpkh', 'p2sh_p2wsh')
KINDS = ('p2pkh', 'p2pk', 'multisig', 'p2sh_multisig') + SEGWIT_KINDS
SINGLE_KEY = ('p2pkh', 'p2pk', 'p2wpkh', 'p2sh_p2wpkh')
WT_OF = {'p2pkh': 'leg', 'p2pk': 'leg', 'multisig': 'leg', 'p2sh_multisig': 'leg', 'p2wpkh': 'sw', 'p2wsh': 'sw',
         'p2sh_p2wpkh': 'p2sh', 'p2sh_p2wsh': 'p2sh'}


def script_code(kind, keys, m):
    """scriptCode of the signature check (Core: scriptPubKey / redeemScript; BIP143: 76a914{h160}88ac / witnessScript)"""
    if kind in ('p2pkh', 'p2wpkh', 'p2sh_p2wpkh'):
        return b'\x76\xa9\x14' + h160(keys[0]) + b'\x88\xac'
    if kind == 'p2pk':
        return push(keys[0]) + b'\xac'
    return multisig_script(m, keys)


def spent_script(kind, keys, m):
    """scriptPubKey of the output being spent (used by the verifier to check what the input reveals)"""
    sc = script_code(kind, keys, m)
    if kind in ('p2pkh', 'p2pk', 'multisig'):
        return sc
    if kind == 'p2sh_multisig':
        return b'\xa9\x14' + h160(sc) + b'\x87'
    if kind == 'p2wpkh':
        return b'\x00\x14' + h160(keys[0])
    if kind == 'p2wsh':
        return b'\x00\x20' + hashlib.sha256(sc).digest()
    if kind == 'p2sh_p2wpkh':
        return b'\xa9\x14' + h160(b'\x00\x14' + h160(keys[0])) + b'\x87'
    return b'\xa9\x14' + h160(b'\x00\x20' + hashlib.sha256(sc).digest()) + b'\x87'


def ser_out(o):
    return struct.pack('<Q', o[0]) + cs(len(o[1])) + o[1]


def legacy_sighash(tx, i, code, ht):
    """Bitcoin Core SignatureHash, SigVersion::BASE.  Returns (preimage | None, digest)."""
    ins, outs = tx['ins'], tx['outs']
    base, acp = ht & 0x1f, bool(ht & 0x80)
    if base == 3 and i >= len(outs):
        return None, b'\x01' + b'\x00' * 31
    r = struct.pack('<I', tx['ver'])
    idxs = [i] if acp else range(len(ins))
    r += cs(len(idxs))
    for j in idxs:
        x = ins[j]
        sc = code if j == i else b''
        seq = x['seq'] if (j == i or base not in (2, 3)) else 0
        r += x['prev'] + struct.pack('<I', x['vout']) + cs(len(sc)) + sc + struct.pack('<I', seq)
    if base == 2:
        r += cs(0)
    elif base == 3:
        r += cs(i + 1)
        for j in range(i):
            r += b'\xff' * 8 + b'\x00'
        r += ser_out(outs[i])
    else:
        r += cs(len(outs)) + b''.join(ser_out(o) for o in outs)
    r += struct.pack('<I', tx['lock']) + struct.pack('<I', ht)
    return r, dsha(r)


def bip143_sighash(tx, i, code, value, ht):
    """BIP143 'Specification' section.  Returns (preimage, digest)."""
    ins, outs = tx['ins'], tx['outs']
    base, acp = ht & 0x1f, bool(ht & 0x80)
    z = b'\x00' * 32
    hp = z if acp else dsha(b''.join(x['prev'] + struct.pack('<I', x['vout']) for x in ins))
    hs = dsha(b''.join(struct.pack('<I', x['seq']) for x in ins)) if (not acp and base != 3 and base != 2) else z
    if base != 3 and base != 2:
        ho = dsha(b''.join(ser_out(o) for o in outs))
    elif base == 3 and i < len(outs):
        ho = dsha(ser_out(outs[i]))
    else:
        ho = z
    x = ins[i]
    r = (struct.pack('<I', tx['ver']) + hp + hs + x['prev'] + struct.pack('<I', x['vout']) + cs(len(code)) + code +
         struct.pack('<Q', value) + struct.pack('<I', x['seq']) + ho + struct.pack('<I', tx['lock']) + struct.pack('<I', ht))
    return r, dsha(r)


def consensus_sighash(tx, i, ht):
    x = tx['ins'][i]
    code = script_code(x['kind'], x['keys'], x['m'])
    if x['kind'] in SEGWIT_KINDS:
        return bip143_sighash(tx, i, code, x['value'], ht)
    return legacy_sighash(tx, i, code, ht)


# ---------------------------------------------------------------- BIP143 published examples (checked at import)
def _tx_from_unsigned(raw):
    """minimal reader for the unsigned example transactions (no witness marker)"""
    p = 4
    ver = struct.unpack('<I', raw[:4])[0]

    def rcs():
        nonlocal p
        b = raw[p]
        p += 1
        if b < 253:
            return b
        k = {253: 2, 254: 4, 255: 8}[b]
        v = int.from_bytes(raw[p:p + k], 'little')
        p += k
        return v
    ins = []
    for _ in range(rcs()):
        prev, vout = raw[p:p + 32], struct.unpack('<I', raw[p + 32:p + 36])[0]
        p += 36
        n = rcs()
        p += n
        ins.append(dict(prev=prev, vout=vout, seq=struct.unpack('<I', raw[p:p + 4])[0]))
        p += 4
    outs = []
    for _ in range(rcs()):
        v = struct.unpack('<Q', raw[p:p + 8])[0]
        p += 8
        n = rcs()
        outs.append((v, raw[p:p + n]))
        p += n
    return dict(ver=ver, lock=struct.unpack('<I', raw[p:p + 4])[0], ins=ins, outs=outs)


BIP143_6OF6_KEYS = [
    '0307b8ae49ac90a048e9b53357a2354b3334e9c8bee813ecb98e99a7e07e8c3ba3',
    '03b28f0c28bfab54554ae8c658ac5c3e0ce6e79ad336331f78c428dd43eea8449b',
    '034b8113d703413d57761b8b9781957b8c0ac1dfe69f492580ca4195f50376ba4a',
    '033400f6afecb833092a9a21cfdf1ed1376e58c5d1f47de74683123987e967a8f4',
    '03a6d48b1131e94ba04d9737d61acdaa1322008af9602b3b14862c07a1789aac16',
    '02d8b661b0b3302ee2f162b09e07a55ad5dfbe673a9f01d9f0c19617681024306b']
BIP143_6OF6_TX = ('010000000136641869ca081e70f394c6948e8af409e18b619df2ed74aa106c1ca29787b96e0100000000ffffffff0200e9a435'
                  '000000001976a914389ffce9cd9ae88dcc0631e88a821ffdbe9bfe2688acc0832f05000000001976a9147480a33f950689af51'
                  '1e6e84c138dbbd3c3ee41588ac00000000')
BIP143_6OF6_HASHES = {1: '185c0be5263dce5b4bb50a047973c1b6272bfbd0103a89444597dc40b248ee7c',
                      2: 'e9733bc60ea13c95c6527066bb975a2ff29a925e80aa14c213f686cbae5d2f36',
                      3: '1e1f1c303dc025bd664acb72e583e933fae4cff9148bf78c157d1e8f78530aea',
                      0x81: '2a67f03e63a6a422125878b40b82da593be8d4efaafe88ee528af6e5a9955c6e',
                      0x82: '781ba15f3779d5542ce8ecb5c18716733a5ee42a6f51488ec96154934e2c890a',
                      0x83: '511e8e52ed574121fc1b654970395502128263f62662e076dc6baf05c2e6a99b'}
BIP143_P2WPKH_TX = ('0100000002fff7f7881a8099afa6940d42d1e7f6362bec38171ea3edf433541db4e4ad969f0000000000eeffffffef51e1b804'
                    'cc89d182d279655c3aa89e815b1b309fe287d9b2b55d57b90ec68a0100000000ffffffff02202cb206000000001976a9148280'
                    'b37df378db99f66f85c95a783a76ac7a6d5988ac9093510d000000001976a9143bde42dbee7e4dbe6a21b2d50ce2f0167faa81'
                    '5988ac11000000')
BIP143_P2SH_P2WPKH_TX = ('0100000001db6b1b20aa0fd7b23880be2ecbd4a98130974cf4748fb66092ac4d3ceb1a54770100000000feffffff02b8'
                         'b4eb0b000000001976a914a457b684d7f0d539a46a45bbc043f35b59d0d96388ac0008af2f000000001976a914fd270b'
                         '1ee6abcaea97fea7ad0402e8bd8ad6d77c88ac92040000')
BIP143_P2WSH_CS_TX = ('0100000002fe3dc9208094f3ffd12645477b3dc56f60ec4fa8e6f5d67c565d1c6b9216b36e0000000000ffffffff0815cf02'
                      '0f013ed6cf91d29f4202e8a58726b1ac6c79da47c23d1bee0a6925f80000000000ffffffff0100f2052a010000001976a914'
                      'a30741f8145e5acadf23f751864167f32e0963f788ac00000000')


def bip143_examples():
    """(name, recomputed digest hex, published digest hex) for every example that could be reconstructed"""
    res = []
    # native P2WPKH: input 1, key 025476c2..., 6 BTC, SIGHASH_ALL
    tx = _tx_from_unsigned(bytes.fromhex(BIP143_P2WPKH_TX))
    pub = pub_of(0x619c335025c7f4012e556c2a58b2506e30b8511b53ade95ea316fd8c3286feb9)
    code = b'\x76\xa9\x14' + h160(pub) + b'\x88\xac'
    res.append(('p2wpkh', bip143_sighash(tx, 1, code, 600000000, 1)[1].hex(),
                'c37af31116d1b27caf68aae9e3ac82f1477929014d5b917657d0eb49478cb670'))
    # P2SH-P2WPKH: 10 BTC
    tx = _tx_from_unsigned(bytes.fromhex(BIP143_P2SH_P2WPKH_TX))
    pub = pub_of(0xeb696a065ef48a2192da5b28b694f87544b30fae8327c4510137a922f32c6dcf)
    code = b'\x76\xa9\x14' + h160(pub) + b'\x88\xac'
    res.append(('p2sh-p2wpkh', bip143_sighash(tx, 0, code, 1000000000, 1)[1].hex(),
                '64f3b0f4dd2bb3aa1ce8566d220cc74dda9df97d8490cc81d89d735c92e59fb6'))
    # native P2WSH with OP_CODESEPARATOR, SIGHASH_SINGLE, input 1, 49 BTC: script code = the whole witness script
    tx = _tx_from_unsigned(bytes.fromhex(BIP143_P2WSH_CS_TX))
    ws = bytes.fromhex('21026dccc749adc2a9d0d89497ac511f760f45c47dc5ed9cf352a58ac706453880aeadab210255a9626aebf5e29c0e6538'
                       '428ba0d1dcf6ca98ffdf086aa8ced5e0d0215ea465ac')
    res.append(('p2wsh single', bip143_sighash(tx, 1, ws, 4900000000, 3)[1].hex(),
                '82dde6e4f1e94d02c2b7ad03d2115d691f48d064e9d52f58194a6637e4194391'))
    # P2SH-P2WSH 6-of-6 multisig, 9.87654321 BTC, all six hash types
    tx = _tx_from_unsigned(bytes.fromhex(BIP143_6OF6_TX))
    ws = multisig_script(6, [bytes.fromhex(k) for k in BIP143_6OF6_KEYS])
    for ht, want in BIP143_6OF6_HASHES.items():
        res.append(('p2sh-p2wsh 6of6 ht=%#x' % ht, bip143_sighash(tx, 0, ws, 987654321, ht)[1].hex(), want))
    return res


BIP143_STATUS = bip143_examples()
BIP143_OK = [n for n, a, b in BIP143_STATUS if a == b]
BIP143_BAD = [n for n, a, b in BIP143_STATUS if a != b]


# ============================================================================ request tokens
def hx(b):
    return b.hex() if b else '-'


def tx_tok(tx):
    ins = ';'.join('%s,%d,%d,%d,%s,%d,%d,%s' % (x['prev'].hex(), x['vout'], x['seq'], x['idx'], x['kind'], x['value'],
                                                x['m'], '/'.join(k.hex() for k in x['keys'])) for x in tx['ins'])
    outs = ';'.join('%d,%s' % (v, hx(s)) for v, s in tx['outs']) or '-'
    return '%d:%d:%d:%s|%s|%s' % (tx['ver'], tx['lock'], 1 if tx['sw'] else 0, tx['net'], ins, outs)


def tx_of_tok(tok):
    hd, ins, outs = tok.split('|')
    ver, lock, sw, net = hd.split(':')
    li = []
    for s in ins.split(';'):
        prev, vout, seq, idx, kind, value, m, keys = s.split(',')
        li.append(dict(prev=bytes.fromhex(prev), vout=int(vout), seq=int(seq), idx=int(idx), kind=kind,
                       value=int(value), m=int(m), keys=[bytes.fromhex(k) for k in keys.split('/')]))
    lo = []
    if outs != '-':
        for s in outs.split(';'):
            v, sc = s.split(',')
            lo.append((int(v), b'' if sc == '-' else bytes.fromhex(sc)))
    return dict(ver=int(ver), lock=int(lock), sw=sw == '1', net=net, ins=li, outs=lo)


# ============================================================================ generators
NKEYS = 40


def secret(j):
    return int.from_bytes(hashlib.sha256(b'C01 test key %d' % j).digest(), 'big') % (N - 1) + 1


_PUBS = {}


def pub(j, compressed=True):
    if (j, compressed) not in _PUBS:
        _PUBS[(j, compressed)] = pub_of(secret(j), compressed)
    return _PUBS[(j, compressed)]


NETWORKS = ['bitcoin', 'testnet', 'testnet4', 'regtest', 'signet', 'litecoin', 'litecoin_testnet', 'litecoin_legacy',
            'dogecoin', 'dogecoin_testnet', 'bitcoinlib_test']
VALUES = [1, 546, 0xffffffff, 0x100000000, 0x100000001, 2100000000000000, 2099999997690000, 5000000000, 100000000]
SEQS = [0xffffffff, 0xfffffffe, 0xfffffffd, 0, 1, 0x80000000, 0x7fffffff, 0x00400001, 0xffffffee]
VERS = [1, 2, 3, 0x7fffffff, 0x80000000, 0xffffffff]
LOCKS = [0, 1, 17, 499999999, 500000000, 0xfffffffe, 0xffffffff, 1170]
SW_HTS = [1, 2, 3, 0x81, 0x82, 0x83]


def gen_out_script(rng):
    c = rng.randrange(9)
    r20 = bytes(rng.randrange(256) for _ in range(20))
    r32 = bytes(rng.randrange(256) for _ in range(32))
    if c <= 1:
        return b'\x76\xa9\x14' + r20 + b'\x88\xac'
    if c == 2:
        return b'\xa9\x14' + r20 + b'\x87'
    if c == 3:
        return b'\x00\x14' + r20
    if c == 4:
        return b'\x00\x20' + r32
    if c == 5:
        return b'\x51\x20' + r32
    if c == 6:
        return push(pub(rng.randrange(NKEYS), rng.random() < 0.7)) + b'\xac'
    if c == 7:
        return multisig_script(1, [pub(rng.randrange(NKEYS)), pub(rng.randrange(NKEYS))])
    return b'\x6a' + push(bytes(rng.randrange(256) for _ in range(rng.choice([1, 20, 32, 40, 75, 76, 80]))))


def gen_input(rng, kind, pos, big_ms=False):
    if kind in SINGLE_KEY:
        comp = True if kind in SEGWIT_KINDS else rng.random() < 0.7
        keys, m = [pub(rng.randrange(NKEYS), comp)], 1
    else:
        comp = True if kind in SEGWIT_KINDS else rng.random() < 0.8
        nmax = 15 if comp else 7
        n = rng.choice([1, 2, 3, nmax]) if not big_ms else rng.randrange(1, nmax + 1)
        if rng.random() < 0.3:
            n = rng.randrange(1, nmax + 1)
        js = rng.sample(range(NKEYS), n)
        keys = [pub(j, comp) for j in js]
        m = rng.choice([1, n, rng.randrange(1, n + 1)])
    prev = bytes(rng.randrange(256) for _ in range(32))
    if prev == b'\x00' * 32 or all(chr(b) in '0123456789abcdefABCDEF' for b in prev):
        prev = b'\x80' + prev[1:]
    return dict(prev=prev, vout=rng.choice([0, 1, 2, 255, 256, 65535, 0xfffffffe, rng.randrange(1 << 32)]),
                seq=rng.choice(SEQS) if rng.random() < 0.8 else rng.randrange(1 << 32), idx=pos, kind=kind,
                value=rng.choice(VALUES) if rng.random() < 0.7 else rng.randrange(1, 2100000000000000), m=m, keys=keys)


def gen_tx(rng, kinds, n_out=None, sw=True, net=None):
    ins = [gen_input(rng, k, p) for p, k in enumerate(kinds)]
    if n_out is None:
        n_out = rng.choice([1, 1, 2, 2, 3, 4])
    outs = []
    for _ in range(n_out):
        s = gen_out_script(rng)
        v = 0 if s[:1] == b'\x6a' else (rng.choice(VALUES) if rng.random() < 0.6 else rng.randrange(0, 2100000000000000))
        outs.append((v, s))
    ver = rng.choice(VERS) if rng.random() < 0.8 else rng.randrange(1, 1 << 32)
    if ver == 1 and any(0 < x['seq'] < 0x80000000 for x in ins):
        ver = 2      # add_input switches version 1 to 2 for relative-locktime sequences (C06: api_version)
    return dict(ver=ver, lock=rng.choice(LOCKS) if rng.random() < 0.8 else rng.randrange(1 << 32), sw=sw,
                net=net or rng.choice(NETWORKS), ins=ins, outs=outs)


# ---------------------------------------------------------------- sessions: one object, many steps
SESS_KINDS = [k for k in KINDS if k != 'multisig']
REL_BLOCKS = [1, 2, 100, 144, 0xfffe, 0xffff]
REL_TIMES = [1, 511, 512, 513, 1024, 3600, 512 * 0xffff, 512 * 0xffff + 511]
# one representative of every class of nSequence: final, locktime-enabling, RBF, zero, BIP68 blocks, BIP68 time,
# BIP68 with bits outside the mask, disable flag set
SEQ_CLASSES = {
    'final': [0xffffffff], 'enable': [0xfffffffe], 'rbf': [0xfffffffd, 0xfffffff0],
    'zero': [0], 'rel_blocks': [1, 0x90, 0xffff], 'rel_time': [0x400001, 0x40000a, 0x40ffff],
    'rel_other': [0x10000, 0x7fffffff, 0x3fffff, 0x410000], 'disabled': [0x80000000, 0x80000001, 0xc0400001]}


def gen_seq(rng, cls=None):
    cls = cls or rng.choice(list(SEQ_CLASSES))
    return rng.choice(SEQ_CLASSES[cls])


def sess_tx(rng, n_in=None, sw=True, ver=None, seq_cls=None, small_ms=True):
    """a transaction description for a session: every input signable by the library, amounts positive"""
    n = n_in or rng.choice([1, 1, 2, 2, 3])
    kinds = [rng.choice(SESS_KINDS if sw else KINDS[1:2] + KINDS[:1] + KINDS[3:4]) for _ in range(n)]
    tx = gen_tx(rng, kinds, n_out=rng.choice([1, 2, 3]), sw=sw)
    for x in tx['ins']:
        if small_ms and len(x['keys']) > 3:
            x['keys'] = x['keys'][:3]
            x['m'] = min(x['m'], 3)
        x['seq'] = gen_seq(rng, seq_cls) if (seq_cls or rng.random() < 0.7) else 0xffffffff
        x['value'] = rng.choice([546, 100000000, 0x100000001, 2100000000000000]) if rng.random() < 0.5 else rng.randrange(1, 1 << 50)
    tx['ver'] = rng.choice([0, 0, 0, 1, 1, 2, 2, 3, 0x7fffffff, 0xffffffff]) if ver is None else ver
    tx['lock'] = rng.choice([0, 0, 0, 1, 17, 499999999, 500000000, 0xfffffffe, 0xffffffff])
    return tx


def gen_mutation(rng, n_in, n_out, allow_grow=True):
    """one in-place change through public attributes / methods; returns (op token, new n_in, new n_out)"""
    c = rng.randrange(14 if allow_grow else 10)
    i, j = rng.randrange(n_in), (rng.randrange(n_out) if n_out else 0)
    if c == 0:
        return 'seq~%d~%d' % (i, gen_seq(rng)), n_in, n_out
    if c == 1:
        return 'seq~%d~%d' % (i, rng.choice([0xffffffff, 0xfffffffe, 0xfffffffd])), n_in, n_out
    if c == 2:
        prev = bytes([0x80 | rng.randrange(128)]) + bytes(rng.randrange(256) for _ in range(31))
        return 'op~%d~%s~%d' % (i, prev.hex(), rng.choice([0, 1, 255, 256, 0xfffffffe, rng.randrange(1 << 32)])), n_in, n_out
    if c == 3:
        return 'lt~%d' % rng.choice([0, 1, 606060, 499999999, 500000000, 0xfffffffe, 0xffffffff]), n_in, n_out
    if c == 4:
        return 'ver~%d' % rng.choice([1, 2, 3, 0x7fffffff, 0x80000000, 0xffffffff]), n_in, n_out
    if c == 5 and n_out:
        return 'oval~%d~%d' % (j, rng.choice([0, 1, 546, 0xffffffff, 0x100000000, 2100000000000000, rng.randrange(1 << 50)])), n_in, n_out
    if c == 6 and n_out:
        return 'oscr~%d~%s' % (j, gen_out_script(rng).hex()), n_in, n_out
    if c == 7:
        return 'ival~%d~%d' % (i, rng.choice([1, 546, 0xffffffff, 0x100000000, 2100000000000000, rng.randrange(1, 1 << 50)])), n_in, n_out
    if c == 8 and n_in > 1:
        pm = list(range(n_in))
        while pm == list(range(n_in)):
            rng.shuffle(pm)
        return 'perm~' + '.'.join(map(str, pm)), n_in, n_out
    if c == 9:
        return 'vint~%d' % rng.choice([1, 2, 3]), n_in, n_out
    if c == 10 and n_in < 5:
        x = gen_input(rng, rng.choice(SESS_KINDS), n_in)
        if len(x['keys']) > 3:
            x['keys'], x['m'] = x['keys'][:3], min(x['m'], 3)
        x['seq'] = gen_seq(rng)
        x['value'] = rng.randrange(1, 1 << 50)
        return 'addin~' + in_tok(x), n_in + 1, n_out
    if c == 11 and n_out < 5:
        sc = gen_out_script(rng)
        return 'addout~%d~%s' % (0 if sc[:1] == b'\x6a' else rng.randrange(1 << 45), sc.hex()), n_in, n_out + 1
    if c == 12 and n_in < 5 and n_out < 5:
        x = gen_input(rng, rng.choice(SESS_KINDS), 0)
        if len(x['keys']) > 3:
            x['keys'], x['m'] = x['keys'][:3], min(x['m'], 3)
        x['seq'] = gen_seq(rng)
        x['value'] = rng.randrange(1, 1 << 50)
        sc = gen_out_script(rng)
        pi, po = list(range(n_in + 1)), list(range(n_out + 1))
        rng.shuffle(pi)
        rng.shuffle(po)
        return ('merge~%s~%d~%s~%s~%s' % (in_tok(x), 0 if sc[:1] == b'\x6a' else rng.randrange(1 << 45), sc.hex(),
                                          '.'.join(map(str, pi)), '.'.join(map(str, po)))), n_in + 1, n_out + 1
    return 'seq~%d~%d' % (i, gen_seq(rng)), n_in, n_out


def gen_setter(rng, n_in):
    """one call of a set_locktime_* method, parameters on and around every boundary the methods test"""
    c = rng.randrange(4)
    i = rng.randrange(n_in)
    lt = rng.choice([0, 0, 0, 17, 606060])
    if c == 0:
        return 'slrb~%d~%d~%d' % (rng.choice(REL_BLOCKS + [0, 0xffffffff, 0x10000]), i, lt)
    if c == 1:
        return 'slrt~%d~%d~%d' % (rng.choice(REL_TIMES + [0, 0xffffffff, 512 * 0x10000]), i, lt)
    if c == 2:
        return 'slb~%d' % rng.choice([1, 606060, 499999999, 500000000, 0, 0xffffffff, 500000001])
    return 'slt~%d' % rng.choice([500000001, 1700000000, 0xfffffffe, 0, 0xffffffff, 500000000])


def observe(rng, core, policy, priv):
    """interleave observations with the steps of a session.  every: digests and verify after each step;
    end: only after the last step (so that whatever the object remembered comes from sign()/verify() alone);
    signed: verify after each signing step, digests at the end; first: digests before anything else and at the end"""
    ops = []
    if policy in ('every', 'first'):
        ops.append('dig')
    for op in core:
        ops.append(op)
        k = op.split('~')[0]
        if policy == 'every':
            ops += ['dig', 'vfy'] if rng.random() < 0.7 else ['vfy', 'dig']
        elif policy == 'signed' and k in SIGNING_OPS:
            ops.append('vfy')
    if policy != 'every':
        ops += ['dig', 'vfy']
    if rng.random() < 0.3:
        ops.append('raw')
    return ops


def sess_case(kind, mode, tx, ops):
    return Case('sess_' + kind, 'sess %s %s %s' % (mode, tx_tok(tx), ' '.join(ops)))


def gen_sessions(rng, big):
    cs_ = []
    pol = lambda: rng.choice(['every', 'every', 'end', 'signed', 'first'])
    # ---- A. every construction path x every class of sequence: build, look, sign, look (no change in between)
    for mode in ('api', 'apik', 'apib', 'apikr', 'ctor', 'parse'):
        for cls in SEQ_CLASSES:
            for ver in ((0, 1, 2) if not big else (0, 1, 2, 3, 0xffffffff)):
                tx = sess_tx(rng, sw=True, ver=ver, seq_cls=cls)
                if rng.random() < 0.5:       # the class on one input only, the others final
                    for x in tx['ins'][1:]:
                        x['seq'] = 0xffffffff
                core = ['signk'] if mode == 'api' else (['rsignk'] if mode == 'parse' else ['sign'])
                cs_.append(sess_case('build_' + mode, mode, tx, observe(rng, core, rng.choice(['every', 'end', 'first']), mode in PRIV_MODES)))
    # ---- B. signed, then a set_locktime_* method (re-signs itself), then perhaps another
    for _ in range(600 if big else 60):
        mode = rng.choice(['apik', 'apib', 'ctor', 'apikr'])
        tx = sess_tx(rng)
        core = ['sign'] + [gen_setter(rng, len(tx['ins'])) for _ in range(rng.choice([1, 1, 2, 3]))]
        cs_.append(sess_case('setter', mode, tx, observe(rng, core, pol(), True)))
    # ---- C. signed, attributes changed in place, sign_and_update()
    for _ in range(800 if big else 70):
        mode = rng.choice(['apik', 'apib', 'ctor', 'apikr'])
        tx = sess_tx(rng)
        n_in, n_out = len(tx['ins']), len(tx['outs'])
        core = ['sign']
        for _ in range(rng.choice([1, 1, 2, 3])):
            m, n_in, n_out = gen_mutation(rng, n_in, n_out)
            core.append(m)
        core.append(rng.choice(['sau', 'sau', 'sau', 'rsign', 'rsignk']))
        cs_.append(sess_case('mutate_resign', mode, tx, observe(rng, core, pol(), True)))
    # ---- D. digests only (public keys): look, change, look — nothing is ever signed
    for _ in range(400 if big else 40):
        tx = sess_tx(rng)
        n_in, n_out = len(tx['ins']), len(tx['outs'])
        core = []
        for _ in range(rng.choice([1, 2, 3, 4])):
            m, n_in, n_out = gen_mutation(rng, n_in, n_out)
            core.append(m)
        cs_.append(sess_case('digest_only', 'api', tx, observe(rng, core, rng.choice(['every', 'first']), False)))
    # ---- E. parsed from bytes, then modified and re-signed with keys supplied
    for _ in range(400 if big else 40):
        tx = sess_tx(rng)
        n_in, n_out = len(tx['ins']), len(tx['outs'])
        core = []
        for _ in range(rng.choice([1, 1, 2])):
            m, n_in, n_out = gen_mutation(rng, n_in, n_out, allow_grow=False)
            core.append(m)
        core.append('rsignk')
        if rng.random() < 0.4:
            core.append('sau')
        cs_.append(sess_case('parse_modify', 'parse', tx, observe(rng, core, pol(), False)))
    # ---- G. input CONSTRUCTION forms: inputs described without their keys (kind only / public hash / locking script /
    #         address / both), the keys arrive with sign(keys) as Key, hex, bytes, WIF or HDKey; every input kind; then every
    #         preimage against consensus and the signatures embedded in raw() against the independent verifier
    nested_lock = _recorded('nested_p2wpkh_from_locking_script')
    for mode in FORM_MODES:
        for kind in SESS_KINDS:
            for sk in ('signk',) + SIGNK_FORMS:
                if not (big or sk == 'signk' or rng.random() < 0.5):
                    continue
                if kind == 'p2sh_p2wpkh' and mode in ('fl', 'fla') and not nested_lock:
                    continue
                for shape in ((kind,), (kind, rng.choice(SESS_KINDS), kind)):
                    if kind == 'p2sh_p2wpkh' and mode in ('fl', 'fla'):
                        shape = (kind,) * len(shape)      # the recorded class hides nothing else
                    elif mode in ('fl', 'fla'):
                        shape = tuple(k_ if k_ != 'p2sh_p2wpkh' else 'p2wpkh' for k_ in shape)
                    tx = gen_tx(rng, list(shape), n_out=rng.choice([1, 2]), sw=True, net=('bitcoin' if sk == 'signkw' else rng.choice(['bitcoin', 'testnet', 'litecoin'])))
                    for x in tx['ins']:
                        if len(x['keys']) > 3:
                            x['keys'], x['m'] = x['keys'][:3], min(x['m'], 3)
                        x['value'] = rng.choice([546, 100000000, 0x100000001]) if rng.random() < 0.5 else rng.randrange(1, 1 << 50)
                    tx['ver'] = rng.choice([0, 1, 2])
                    if tx['ver'] == 1 and any(0 < x['seq'] < 0x80000000 for x in tx['ins']):
                        tx['ver'] = 2
                    ops = [sk, 'dig', 'vfy']
                    if rng.random() < 0.4:
                        ops += [rng.choice(['oval~0~%d' % rng.randrange(1, 1 << 40), 'lt~%d' % rng.choice(LOCKS)]), 'rsignk', 'dig', 'vfy']
                    cs_.append(sess_case('form_' + mode, mode, tx, ops))
    # ---- H. inputs whose witness type is NOT passed: the library infers it from the locking script / address / script type /
    #         unlocking script of the form (with the private keys: k*, without: i*; add_input or Input(...) + constructor).
    #         `inf` reads the type the library holds per input and the preimage sign() would use, before and after signing
    cs_.extend(gen_inferred(rng, big))
    # ---- F. random walks over everything
    for _ in range(1500 if big else 80):
        mode = rng.choice(['apik', 'apib', 'ctor', 'apikr', 'api', 'parse'])
        tx = sess_tx(rng, sw=(rng.random() < 0.9))
        n_in, n_out = len(tx['ins']), len(tx['outs'])
        priv = mode in PRIV_MODES
        core = []
        for _ in range(rng.randrange(2, 9)):
            r = rng.random()
            if r < 0.45:
                m, n_in, n_out = gen_mutation(rng, n_in, n_out, allow_grow=(mode != 'parse'))
                core.append(m)
            elif r < 0.6 and priv:
                core.append(gen_setter(rng, n_in))
            elif r < 0.8:
                core.append(rng.choice(['sign', 'sau', 'rsign', 'saui~%d' % rng.randrange(n_in)] if priv else ['signk', 'rsignk', 'sau']))
            else:
                core.append(rng.choice(['dig', 'vfy', 'raw']))
        core.append('sau' if priv else 'rsignk')
        cs_.append(sess_case('walk', mode, tx, observe(rng, core, pol(), priv)))
    return cs_


_WITH_ADDRESS = ('p2pkh', 'p2wpkh', 'p2wsh', 'p2sh_multisig', 'p2sh_p2wpkh', 'p2sh_p2wsh')
INFER_KINDS = {
    # nothing to infer from but the script type: native segwit kinds cannot be described that way
    'kn': ('p2pkh', 'p2pk', 'p2sh_multisig', 'p2sh_p2wpkh', 'p2sh_p2wsh'), 'knc': ('p2pkh', 'p2pk', 'p2sh_multisig', 'p2sh_p2wpkh', 'p2sh_p2wsh'),
    'kl': SESS_KINDS, 'klc': SESS_KINDS, 'il': SESS_KINDS, 'ilc': SESS_KINDS,
    'ka': _WITH_ADDRESS, 'kac': _WITH_ADDRESS, 'kla': _WITH_ADDRESS, 'ia': _WITH_ADDRESS,
}


_NESTED = {'p2sh_p2wpkh': 'p2wpkh', 'p2sh_p2wsh': 'p2wsh'}


def gen_inferred(rng, big):
    cs_ = []
    nested_keyed = _recorded('nested_from_locking_script_keyed')
    for mode in INFER_MODES:
        kinds = INFER_KINDS[mode]
        for kind in kinds:
            for rep in range(3 if big else 1):
                for shape in ((kind,), (rng.choice(kinds), kind), (kind, rng.choice(kinds), rng.choice(kinds))):
                    if 'l' in mode and not (nested_keyed and kind in _NESTED and (mode[0] == 'k' or kind == 'p2sh_p2wsh')):
                        # nested kinds from their P2SH locking script: recorded class nested_p2wpkh_from_locking_script
                        # (key-less, modes fl / fla) and proposed class nested_from_locking_script_keyed (see below)
                        shape = tuple(_NESTED.get(k_, k_) for k_ in shape)
                    elif 'l' in mode:
                        shape = (kind,) * len(shape)      # the recorded class hides nothing else
                    tx = gen_tx(rng, list(shape), n_out=rng.choice([1, 2, 3]), sw=True, net=rng.choice(['bitcoin', 'testnet', 'litecoin']))
                    for x in tx['ins']:
                        if len(x['keys']) > 3:
                            x['keys'], x['m'] = x['keys'][:3], min(x['m'], 3)
                        x['value'] = rng.choice([546, 100000000, 0x100000001]) if rng.random() < 0.5 else rng.randrange(1, 1 << 50)
                    tx['ver'] = rng.choice([0, 1, 2])
                    if tx['ver'] == 1 and any(0 < x['seq'] < 0x80000000 for x in tx['ins']):
                        tx['ver'] = 2
                    sk = 'sign' if mode in INFER_K_MODES else 'signk'
                    # key-less inputs have no script code before the keys arrive: first reading after sign(keys)
                    ops = (['inf'] if mode in INFER_K_MODES else []) + [sk, 'inf', 'dig', 'vfy']
                    if rng.random() < 0.4:
                        ops += [rng.choice(['oval~0~%d' % rng.randrange(1, 1 << 40), 'lt~%d' % rng.choice(LOCKS),
                                            'seq~0~%d' % rng.choice([0xfffffffd, 0xfffffffe, 0xffffffff])]),
                                'sau' if mode in INFER_K_MODES else 'rsignk', 'inf', 'vfy']
                    cs_.append(sess_case('infer_' + mode, mode, tx, ops))
    return cs_


def pre_case(kind, mode, tok, sid, ht, wt):
    return Case(kind, 'pre %s %s %d %d %s' % (mode, tok, sid, ht, wt))


def gen_cases(rng, tier):
    big = tier == 'thorough'
    cs_ = []
    # ---- corpus: the BIP143 6-of-6 P2SH-P2WSH example, all hash types, through the library
    t0 = _tx_from_unsigned(bytes.fromhex(BIP143_6OF6_TX))
    bip = dict(ver=t0['ver'], lock=t0['lock'], sw=True, net='bitcoin', outs=t0['outs'],
               ins=[dict(prev=t0['ins'][0]['prev'], vout=1, seq=0xffffffff, idx=0, kind='p2sh_p2wsh', value=987654321, m=6,
                         keys=[bytes.fromhex(k) for k in BIP143_6OF6_KEYS])])
    for ht in SW_HTS:
        cs_.append(pre_case('bip143_example', 'api', tx_tok(bip), 0, ht, 'p2sh'))
    t1 = _tx_from_unsigned(bytes.fromhex(BIP143_P2WPKH_TX))
    ex1 = dict(ver=1, lock=0x11, sw=True, net='bitcoin', outs=t1['outs'], ins=[
        dict(prev=t1['ins'][0]['prev'], vout=0, seq=0xffffffee, idx=0, kind='p2pk', value=625000000, m=1,
             keys=[pub_of(0xbbc27228ddcb9209d7fd6f36b02f7dfa6252af40bb2f1cbc7a557da8027ff866)]),
        dict(prev=t1['ins'][1]['prev'], vout=1, seq=0xffffffff, idx=1, kind='p2wpkh', value=600000000, m=1,
             keys=[pub_of(0x619c335025c7f4012e556c2a58b2506e30b8511b53ade95ea316fd8c3286feb9)])])
    for ht in SW_HTS:
        cs_.append(pre_case('bip143_example', 'api', tx_tok(ex1), 1, ht, 'sw'))
    cs_.append(pre_case('bip143_example', 'api', tx_tok(ex1), 0, 1, 'leg'))
    t2 = _tx_from_unsigned(bytes.fromhex(BIP143_P2SH_P2WPKH_TX))
    ex2 = dict(ver=1, lock=0x492, sw=True, net='bitcoin', outs=t2['outs'], ins=[
        dict(prev=t2['ins'][0]['prev'], vout=1, seq=0xfffffffe, idx=0, kind='p2sh_p2wpkh', value=1000000000, m=1,
             keys=[pub_of(0xeb696a065ef48a2192da5b28b694f87544b30fae8327c4510137a922f32c6dcf)])])
    for ht in SW_HTS:
        cs_.append(pre_case('bip143_example', 'api', tx_tok(ex2), 0, ht, 'p2sh'))

    def emit(tx, mode, kindname, all_ht=True):
        tok = tx_tok(tx)
        n = len(tx['ins'])
        for p, x in enumerate(tx['ins']):
            wt = WT_OF[x['kind']]
            if wt == 'leg':
                cs_.append(pre_case(kindname + '_legacy', mode, tok, p, 1, 'leg'))
                if rng.random() < 0.08:
                    cs_.append(pre_case(kindname + '_legacy_ht', mode, tok, p, rng.choice([2, 3, 0x81, 0x82, 0x83, 0, 0x41]), 'leg'))
            else:
                hts = SW_HTS if all_ht else [1, rng.choice(SW_HTS[1:])]
                for ht in hts:
                    cs_.append(pre_case(kindname + '_segwit', mode, tok, p, ht, wt))
                if rng.random() < 0.1:
                    cs_.append(pre_case(kindname + '_segwit_ht', mode, tok, p,
                                        rng.choice([0, 4, 0x41, 0x101, 0x1ff, 0x84, 0xffffffff, 1 << 32, 0x9f]), wt))
            if mode == 'api' and rng.random() < 0.04:      # the other path for the same input (outside the property; model only)
                cs_.append(pre_case(kindname + '_cross', mode, tok, p, rng.choice([1, 3]), 'sw' if wt == 'leg' else 'leg'))
        if rng.random() < 0.1:           # sign_id beyond the inputs
            cs_.append(pre_case(kindname + '_oob', mode, tok, n + rng.randrange(3), 1, rng.choice(['leg', 'sw'])))

    # ---- every kind alone, every network
    for net in NETWORKS:
        for k in KINDS:
            tx = gen_tx(rng, [k], sw=True, net=net)
            emit(tx, 'api', 'single')
            if k != 'multisig':
                emit(tx, 'parse', 'single_parse', all_ht=False)
    for k in ('p2sh_p2wpkh', 'p2sh_p2wsh'):
        for _ in range(4):
            emit(gen_tx(rng, [k, rng.choice(KINDS)]), 'api2', 'altspelling')
    # ---- legacy transactions (Transaction.witness_type = 'legacy')
    for _ in range(60 if big else 12):
        kinds = [rng.choice(KINDS[:4]) for _ in range(rng.randrange(1, 5))]
        emit(gen_tx(rng, kinds, sw=False), 'api', 'legacytx')
    tx = gen_tx(rng, ['p2wpkh', 'p2pkh'], sw=False)       # segwit path on a legacy transaction: refused
    emit(tx, 'api', 'legacytx_segwit_input')
    # ---- mixed kinds, 1..6 inputs, every index
    for r in range(8000 if big else 450):
        n = rng.randrange(1, 7)
        kinds = [rng.choice(KINDS) for _ in range(n)]
        tx = gen_tx(rng, kinds)
        emit(tx, 'api', 'mixed')
    for r in range(4000 if big else 220):
        n = rng.randrange(1, 7)
        kinds = [rng.choice([k for k in KINDS if k != 'multisig']) for _ in range(n)]
        emit(gen_tx(rng, kinds), 'parse', 'mixed_parse', all_ht=False)
    # ---- multisig m-of-n sweep up to 15 keys
    for n in range(1, 16):
        for m in sorted({1, n, (n + 1) // 2}):
            for k in ('p2sh_multisig', 'p2wsh', 'p2sh_p2wsh', 'multisig'):
                js = rng.sample(range(NKEYS), n)
                x = gen_input(rng, k, 0)
                x['keys'], x['m'] = [pub(j) for j in js], m
                tx = gen_tx(rng, ['p2pkh'])
                tx['ins'] = [x]
                if tx['ver'] == 1 and 0 < x['seq'] < 0x80000000:
                    tx['ver'] = 2
                emit(tx, 'api', 'msweep', all_ht=False)
    # ---- output counts across the CompactSize boundary; SINGLE with and without a matching output
    for n_out in ([0, 252, 253, 254, 300] if not big else [0, 251, 252, 253, 254, 255, 300, 1000]):
        kinds = ['p2wpkh', 'p2pkh', 'p2sh_p2wsh']
        emit(gen_tx(rng, kinds, n_out=n_out), 'api', 'outs_%d' % n_out)
    # ---- output script lengths across the 2-byte CompactSize boundary (the preimages length-prefix every script)
    for ln in ([65534, 65535, 65536] if not big else [252, 253, 254, 65534, 65535, 65536, 70000]):
        tx = gen_tx(rng, ['p2wpkh', 'p2pkh'], n_out=2)
        tx['outs'][0] = (0, b'\x6a' + b'\x51' * (ln - 1))
        emit(tx, 'api', 'outscript_len_%d' % ln, all_ht=False)
    for _ in range(40 if big else 8):
        kinds = [rng.choice(KINDS) for _ in range(rng.randrange(3, 7))]
        emit(gen_tx(rng, kinds, n_out=rng.choice([1, 2])), 'api', 'single_oob')
    # ---- zero value on the segwit path (refused by the library), value boundaries
    for v in (0, 1, 0xffffffff, 0x100000000, 2100000000000000, (1 << 64) - 1, 1 << 64):
        tx = gen_tx(rng, ['p2wpkh', 'p2sh_p2wsh'])
        tx['ins'][0]['value'] = v
        emit(tx, 'api', 'value_boundary', all_ht=False)
    # ---- index_n differing from the list position (reachable through add_input(index_n=...))
    for _ in range(200 if big else 30):
        n = rng.randrange(2, 6)
        kinds = [rng.choice(KINDS) for _ in range(n)]
        tx = gen_tx(rng, kinds)
        perm = list(range(n))
        c = rng.randrange(3)
        if c == 0:
            rng.shuffle(perm)
        elif c == 1:
            perm = [p + rng.randrange(1, 4) for p in perm]
        else:
            perm = [rng.randrange(n) for _ in perm]
        for p, x in enumerate(tx['ins']):
            x['idx'] = perm[p]
        tok = tx_tok(tx)
        for p, x in enumerate(tx['ins']):
            cs_.append(pre_case('perm_index', 'api', tok, p, 1, WT_OF[x['kind']]))
        if all(x['kind'] != 'multisig' for x in tx['ins']):
            cs_.append(Case('perm_signed', 'signed ' + tok))
    # ---- signed through the library, signatures checked by the independent verifier
    for _ in range(3000 if big else 150):
        n = rng.randrange(1, 6)
        kinds = [rng.choice([k for k in KINDS if k != 'multisig']) for _ in range(n)]
        tx = gen_tx(rng, kinds)
        cs_.append(Case('signed', 'signed ' + tx_tok(tx)))
    # ---- the life cycle of one object: sessions
    cs_ += gen_sessions(rng, big)
    return cs_


# ============================================================================ verdicts
def model_req(c):
    return c.req


def _norm(o):
    return 'ERR' if o.startswith('ERR') else o


def is_trivial(c, out):
    return out.startswith('ERR') or out == 'BADREQ'


# -- independent reader of a serialized transaction and of the signatures it carries
class _R:
    def __init__(self, b):
        self.b, self.p = b, 0

    def take(self, n):
        if self.p + n > len(self.b):
            raise ValueError('truncated')
        r = self.b[self.p:self.p + n]
        self.p += n
        return r

    def cs(self):
        b = self.take(1)[0]
        if b < 253:
            return b
        return int.from_bytes(self.take({253: 2, 254: 4, 255: 8}[b]), 'little')


def read_raw(raw):
    r = _R(raw)
    ver = struct.unpack('<I', r.take(4))[0]
    sw = raw[4:6] == b'\x00\x01'
    if sw:
        r.take(2)
    ins = []
    for _ in range(r.cs()):
        prev, vout = r.take(32), struct.unpack('<I', r.take(4))[0]
        ss = r.take(r.cs())
        ins.append(dict(prev=prev, vout=vout, script=ss, seq=struct.unpack('<I', r.take(4))[0], wit=[]))
    outs = []
    for _ in range(r.cs()):
        v = struct.unpack('<Q', r.take(8))[0]
        outs.append((v, r.take(r.cs())))
    if sw:
        for x in ins:
            x['wit'] = [r.take(r.cs()) for _ in range(r.cs())]
    lock = struct.unpack('<I', r.take(4))[0]
    if r.p != len(raw):
        raise ValueError('trailing bytes')
    return dict(ver=ver, lock=lock, ins=ins, outs=outs)


def pushes(script):
    """data items of a push-only script"""
    r, out = _R(script), []
    while r.p < len(script):
        op = r.take(1)[0]
        if op == 0:
            out.append(b'')
        elif op <= 75:
            out.append(r.take(op))
        elif op == 76:
            out.append(r.take(r.take(1)[0]))
        elif op == 77:
            out.append(r.take(int.from_bytes(r.take(2), 'little')))
        else:
            raise ValueError('not push-only')
    return out


def der_sig(b):
    """strict DER signature + hash type byte -> (r, s, hash_type)"""
    if len(b) < 9 or b[0] != 0x30 or b[1] != len(b) - 3 or b[2] != 2:
        raise ValueError('der')
    lr = b[3]
    if b[4 + lr] != 2:
        raise ValueError('der')
    ls = b[5 + lr]
    if 6 + lr + ls != len(b) - 1:
        raise ValueError('der')
    return int.from_bytes(b[4:4 + lr], 'big'), int.from_bytes(b[6 + lr:6 + lr + ls], 'big'), b[-1]


def verify_input(x, ri, p, digest_of):
    """consensus-style check of ONE input: x describes the output being spent (kind, keys, m), ri is the input as
    read from the serialized transaction; digest_of(position, hash_type) supplies the digest.  None or the failure."""
    kind, keys, m = x['kind'], x['keys'], x['m']
    code = script_code(kind, keys, m)
    try:
        ss = pushes(ri['script'])
        if kind == 'p2pkh':
            sigs, ks = ss[:1], [ss[1]]
            if len(ss) != 2 or ss[1] != keys[0] or ri['wit']:
                return 'input %d: scriptSig is not <sig> <pubkey>' % p
        elif kind == 'p2pk':
            sigs, ks = ss, keys
            if len(ss) != 1 or ri['wit']:
                return 'input %d: scriptSig is not <sig>' % p
        elif kind == 'p2sh_multisig':
            if len(ss) < 2 or ss[0] != b'' or ss[-1] != code or ri['wit']:
                return 'input %d: scriptSig is not OP_0 <sigs> <redeemScript>' % p
            sigs, ks = ss[1:-1], keys
        elif kind in ('p2wpkh', 'p2sh_p2wpkh'):
            want = [] if kind == 'p2wpkh' else [b'\x00\x14' + h160(keys[0])]
            if ss != want or len(ri['wit']) != 2 or ri['wit'][1] != keys[0]:
                return 'input %d: scriptSig/witness not of the %s form' % (p, kind)
            sigs, ks = ri['wit'][:1], keys
        else:
            want = [] if kind == 'p2wsh' else [b'\x00\x20' + hashlib.sha256(code).digest()]
            w = ri['wit']
            if ss != want or len(w) < 2 or w[0] != b'' or w[-1] != code:
                return 'input %d: scriptSig/witness not of the %s form' % (p, kind)
            sigs, ks = w[1:-1], keys
        need = 1 if kind in SINGLE_KEY else m
        if len(sigs) != need:
            return 'input %d: %d signatures, %d required' % (p, len(sigs), need)
        # OP_CHECKMULTISIG matching (and the one-key case): signatures in key order
        ki = 0
        for sb in sigs:
            r_, s_, ht = der_sig(sb)
            d = digest_of(p, ht)
            while ki < len(ks) and not ecdsa_verify(d, r_, s_, ks[ki]):
                ki += 1
            if ki == len(ks):
                return 'input %d (%s): a signature does not verify against the digest' % (p, kind)
            ki += 1
    except (ValueError, IndexError) as e:
        return 'input %d: malformed scriptSig/witness/signature (%r)' % (p, e)
    return None


def verify_signed(tx, raw, digest_of):
    """consensus-style check of every input of the serialized transaction `raw` against the spent outputs described
    by `tx`; digest_of(position, hash_type) supplies the digest.  Returns None or a description of the failure."""
    try:
        rt = read_raw(raw)
    except Exception as e:
        return 'serialized transaction unreadable: %r' % (e,)
    if rt['ver'] != tx['ver'] or rt['lock'] != tx['lock'] or rt['outs'] != tx['outs'] or len(rt['ins']) != len(tx['ins']):
        return 'serialized transaction differs from the one requested'
    for p, (x, ri) in enumerate(zip(tx['ins'], rt['ins'])):
        if (ri['prev'], ri['vout'], ri['seq']) != (x['prev'], x['vout'], x['seq']):
            return 'input %d: outpoint/sequence differ' % p
        why = verify_input(x, ri, p, digest_of)
        if why is not None:
            return why
    return None


# ============================================================================ sessions on one Transaction object
# Request `sess <mode> <tx> <op> ...` (ops in harness/impl/c01_impl.py: session_op).  The oracle below never looks at
# what the request asked the library to DO to the serialised fields: version, locktime, outpoints, sequences and
# outputs are read from the bytes Transaction.raw() returned at that moment (own parser read_raw); only the description
# of the outputs being spent (kind, keys, m, amount) — which no serialisation carries — follows the request.
INFER_K_MODES = ('kn', 'kl', 'ka', 'kla', 'klc', 'kac', 'knc')
INFER_I_MODES = ('il', 'ia', 'ilc')
# inputs whose witness type (and, for single-key kinds, script type) is left to the library to infer from the locking
# script / address / script type / unlocking script; k*: private keys passed with the input, i*: keys arrive with sign(keys)
INFER_MODES = INFER_K_MODES + INFER_I_MODES
PRIV_MODES = ('apik', 'apib', 'apikr', 'ctor') + INFER_K_MODES
SIGNING_OPS = ('sign', 'rsign', 'signk', 'rsignk', 'sau', 'saui', 'slrb', 'slrt', 'slb', 'slt', 'merge',
               'signkh', 'signkb', 'signkw', 'signkd')
SIGNK_FORMS = ('signkh', 'signkb', 'signkw', 'signkd')
# inputs described without their keys: nothing but the kind / public hash / locking script / address / both
FORM_MODES = ('fn', 'fh', 'fl', 'fa', 'fla', 'fu', 'fr')


def in_of_tok(s):
    prev, vout, seq, idx, kind, value, m, keys = s.split(',')
    return dict(prev=bytes.fromhex(prev), vout=int(vout), seq=int(seq), idx=int(idx), kind=kind, value=int(value), m=int(m),
                keys=[bytes.fromhex(k) for k in keys.split('/')])


def in_tok(x):
    return '%s,%d,%d,%d,%s,%d,%d,%s' % (x['prev'].hex(), x['vout'], x['seq'], x['idx'], x['kind'], x['value'], x['m'],
                                        '/'.join(k.hex() for k in x['keys']))


def fields_str(rt):
    """the serialised fields of a transaction read by read_raw, in the notation of the model driver"""
    ins = ';'.join('%s,%d,%d' % (x['prev'].hex(), x['vout'], x['seq']) for x in rt['ins']) or '-'
    outs = ';'.join('%d,%s' % (v, hx(sc)) for v, sc in rt['outs']) or '-'
    return '%d/%d/%s/%s' % (rt['ver'], rt['lock'], ins, outs)


def _tx_from_raw(rt, info, sw):
    """transaction description for consensus_sighash: serialised fields from the bytes, spent outputs from `info`"""
    return dict(ver=rt['ver'], lock=rt['lock'], outs=rt['outs'], sw=sw,
                ins=[dict(prev=ri['prev'], vout=ri['vout'], seq=ri['seq'], kind=x['kind'], keys=x['keys'], m=x['m'],
                          value=x['value']) for ri, x in zip(rt['ins'], info)])


def session_walk(c, out):
    """Replay the bookkeeping of a session next to the implementation's answers.
    Yields (op, answer token, info (spent outputs by position), sigstate (by position: none/fresh/stale; a trailing
    '+' marks an input that has been signed more than once))."""
    t = c.req.split(' ')
    mode, tx, ops = t[1], tx_of_tok(t[2]), t[3:]
    info = [dict(kind=x['kind'], keys=x['keys'], m=x['m'], value=x['value']) for x in tx['ins']]
    sig = ['fresh' if mode == 'parse' else 'none' for _ in info]
    priv = mode in PRIV_MODES
    ans = out.split(' ')
    nsig = {}          # id of the info entry -> how often the library signed that input
    for x in info:
        x['uid'] = len(nsig)
        nsig[x['uid']] = 1 if mode == 'parse' else 0
    for op, a in zip(ops, ans):
        k = op.split('~')
        if k[0] in SIGNK_FORMS:
            k[0] = 'signk'          # the same call, the keys spelled as hex / bytes / WIF / HDKey
        ok = a == 'ok'
        before = list(zip([x['uid'] for x in info], sig))
        if k[0] in ('sign', 'signk') and (priv or k[0] == 'signk'):
            if ok:
                sig = ['fresh' if x == 'none' else x for x in sig]
        elif k[0] == 'rsign':
            if ok and priv:
                sig = ['fresh'] * len(sig)
        elif k[0] == 'rsignk':
            if ok:
                sig = ['fresh'] * len(sig)
        elif k[0] in ('sau', 'saui'):
            # sign_and_update may change what raw() serialises (it copies version_int into version) and re-signs only
            # the inputs it holds private keys for / the one input it was asked for
            sig = ['stale' if x != 'none' else x for x in sig]
            if ok and priv:
                if k[0] == 'sau':
                    sig = ['fresh'] * len(sig)
                elif int(k[1]) < len(sig):
                    sig[int(k[1])] = 'fresh'
        elif k[0] in ('seq', 'op', 'lt', 'ver', 'vint', 'oval', 'oscr', 'addout', 'perm'):
            sig = ['stale' if x != 'none' else x for x in sig]
            if k[0] == 'perm' and ok:
                pm = [int(v) for v in k[1].split('.')]
                info = [info[j] for j in pm]
                sig = [sig[j] for j in pm]
        elif k[0] == 'ival':
            i = int(k[1])
            if i < len(info):
                info[i] = dict(info[i], value=int(k[2]))
                if sig[i] != 'none':
                    sig[i] = 'stale'
        elif k[0] == 'addin':
            sig = ['stale' if x != 'none' else x for x in sig]
            if ok:
                x = in_of_tok(k[1])
                info.append(dict(kind=x['kind'], keys=x['keys'], m=x['m'], value=x['value'], uid=len(nsig)))
                nsig[len(nsig)] = 0
                sig.append('none')
        elif k[0] == 'merge':
            # inputs and outputs of another transaction appended, both lists shuffled, sign_and_update()
            sig = ['stale' if x != 'none' else x for x in sig]
            x = in_of_tok(k[1])
            pm = [int(v) for v in k[4].split('.')]
            if a == 'ok' or not a.startswith('E:IndexError'):
                info.append(dict(kind=x['kind'], keys=x['keys'], m=x['m'], value=x['value'], uid=len(nsig)))
                nsig[len(nsig)] = 0
                sig.append('none')
                if sorted(pm) == list(range(len(info))):
                    info = [info[j] for j in pm]
                    sig = [sig[j] for j in pm]
            if ok and priv:
                sig = ['fresh'] * len(sig)
        elif k[0] in ('slrb', 'slrt'):
            sig = ['stale' if x != 'none' else x for x in sig]
            if ok and priv and int(k[2]) < len(sig):
                sig[int(k[2])] = 'fresh'
        elif k[0] in ('slb', 'slt'):
            sig = (['fresh'] * len(sig)) if (ok and priv) else ['stale' if x != 'none' else x for x in sig]
        was = dict(before)
        for x, st in zip(info, sig):
            # an input counts as signed (again) by this step when the step left it fresh and it was not fresh before,
            # or when the step re-signs whatever it finds (replace_signatures)
            if st == 'fresh' and (was.get(x['uid']) != 'fresh' or k[0] in ('rsign', 'rsignk', 'sau', 'saui', 'slrb', 'slrt', 'slb', 'slt', 'merge')):
                nsig[x['uid']] += 1
        yield op, a, [dict(x) for x in info], [st + ('+' if nsig[x['uid']] > 1 else '') for x, st in zip(info, sig)]


def session_check(c, out, exempt_p2pk_resigned=False):
    """exempt_p2pk_resigned: leave P2PK inputs that were signed more than once out of the signature checks (used
    only to decide whether a failure belongs to the recorded class p2pk_resign_stale_scriptsig and to nothing else)"""
    t = c.req.split(' ')
    sw = tx_of_tok(t[2])['sw']
    n_ops = len(t) - 3
    if len(out.split(' ')) != n_ops:
        return 'session answered %d tokens for %d steps' % (len(out.split(' ')), n_ops)
    step = 0
    for op, a, info, sig in session_walk(c, out):
        step += 1
        where = 'step %d (%s)' % (step, op.split('~')[0])
        if a == 'BADOP':
            return 'unexpected answer BADOP at ' + where
        if a == 'I=ERR' and t[1] in INFER_MODES:
            return '%s: Transaction.raw() refuses a transaction built from inputs whose types the library infers' % where
        if a[:2] not in ('D=', 'V=', 'I=') or a in ('D=ERR', 'V=ERR', 'I=ERR'):
            continue
        body = a[2:].split('#')
        try:
            raw = bytes.fromhex(body[0])
            rt = read_raw(raw)
        except Exception as e:
            return '%s: Transaction.raw() is not a readable transaction (%r)' % (where, e)
        if len(rt['ins']) != len(info):
            return '%s: Transaction.raw() has %d inputs, %d expected' % (where, len(rt['ins']), len(info))
        txr = _tx_from_raw(rt, info, sw)
        if a[:2] == 'I=':
            # the witness type the library holds for every input (inferred or given) must be the one of the output being
            # spent, and the preimage Transaction.signature gives for THAT type (what sign() signs) the consensus one
            for ent in ([] if body[1] == '-' else body[1].split(',')):
                e = ent.split('.')
                pos = int(e[0])
                if e[1] == 'ERR':
                    return '%s: Transaction.signature(%d, 1, <witness type of the input>) raises' % (where, pos)
                want_wt = WT_OF[info[pos]['kind']]
                if e[1] != want_wt:
                    return ('%s: input %d spends a %s output but the library holds witness type %r for it (expected %r): '
                            'sign() would use the wrong digest algorithm' % (where, pos, info[pos]['kind'], e[1], want_wt))
                pre = b'' if e[2] == '-' else bytes.fromhex(e[2])
                if dsha(pre).hex() != e[3]:
                    return '%s: signature_hash(%d, 1) is not the double SHA256 of what Transaction.signature returns' % (where, pos)
                if not (0 < info[pos]['value'] < (1 << 64)) or (want_wt != 'leg' and not sw):
                    continue
                want, dig = consensus_sighash(txr, pos, 1)
                if want is None or pre != want:
                    return ('%s: the preimage sign() would use for input %d (%s, witness type held by the input: %s) is not '
                            'the consensus preimage: library digest %s, consensus digest %s'
                            % (where, pos, info[pos]['kind'], e[1], e[3][:16], dig.hex()[:16]))
            continue
        if a[:2] == 'D=':
            if body[1] == '-':
                continue
            for ent in body[1].split(','):
                e = ent.split('.')
                pos, ht = int(e[0]), int(e[1])
                if e[2] == 'ERR':
                    continue
                pre = b'' if e[2] == '-' else bytes.fromhex(e[2])
                if dsha(pre).hex() != e[3]:
                    return '%s: signature_hash(%d, %#x) is not the double SHA256 of what Transaction.signature returns' % (where, pos, ht)
                if not (0 < info[pos]['value'] < (1 << 64)):
                    continue
                want, dig = consensus_sighash(txr, pos, ht)
                if want is None or pre != want:
                    return ('%s: Transaction.signature(%d, %#x) of the live object is not the consensus preimage of the '
                            'transaction its raw() serialises at that moment (version %d, locktime %d, sequences %s): '
                            'library digest %s, consensus digest %s'
                            % (where, pos, ht, rt['ver'], rt['lock'], '/'.join('%08x' % x['seq'] for x in rt['ins']),
                               e[3][:16], dig.hex()[:16]))
        else:
            lib_ok = body[1] == '1'
            bad = {}
            for pos, (x, ri) in enumerate(zip(info, rt['ins'])):
                why = verify_input(x, ri, pos, lambda q, ht: consensus_sighash(txr, q, ht)[1])
                if why is not None:
                    bad[pos] = why
            if exempt_p2pk_resigned:
                for pos, st in enumerate(sig):
                    if st.endswith('+') and info[pos]['kind'] == 'p2pk':
                        bad.pop(pos, None)
                        if not bad:
                            lib_ok = True      # nothing left for the two verdicts to disagree about
            for pos, st in enumerate(sig):
                if st.rstrip('+') == 'fresh' and pos in bad:
                    return ('%s: input %d was (re-)signed by the library after the last change, but the signature embedded in '
                            'raw() is rejected by the independent verifier: %s (library verify() = %s; version %d, locktime %d, '
                            'sequences %s)' % (where, pos, bad[pos], body[1], rt['ver'], rt['lock'],
                                               '/'.join('%08x' % x['seq'] for x in rt['ins'])))
            if lib_ok and bad:
                return ('%s: Transaction.verify() is True but the independent verifier rejects: %s'
                        % (where, bad[min(bad)]))
            if not lib_ok and not bad:
                return '%s: Transaction.verify() is False for a transaction whose signatures are valid for consensus' % where
    return None


def session_same(c, io, mo):
    """implementation answers against the life-cycle model, step by step; comparison stops at the first step the
    implementation refused (the model does not predict exceptions)"""
    if io.startswith('ERR'):
        return mo.startswith('ERR')
    if mo.startswith('ERR') or mo.startswith('CRASH') or mo == 'BADREQ':
        return False
    ia, ma = io.split(' '), mo.split(' ')
    if len(ia) != len(ma):
        return False
    for a, m in zip(ia, ma):
        if a.startswith('E:'):
            return True
        if a[:2] in ('D=', 'R=', 'V=', 'I='):
            body = a[2:].split('#')
            if body[0] == 'ERR':
                return False
            try:
                f = fields_str(read_raw(bytes.fromhex(body[0])))
            except Exception:
                return False
            if a[:2] == 'V=':
                if m != 'V':
                    return False
                continue
            mb = m[2:].split('#')
            if m[:2] != a[:2] or mb[0] != f:
                return False
            if a[:2] == 'R=':
                if mb[1:] != body[1:]:
                    return False
            elif a[:2] == 'I=':
                # position . witness type . preimage (the model: k_wtype of the kind, ob_signature with it)
                ie = [] if body[1] == '-' else ['.'.join(x.split('.')[:3]) for x in body[1].split(',')]
                me = [] if mb[1] == '-' else mb[1].split(',')
                if ie != me:
                    return False
            else:
                ie = [] if body[1] == '-' else ['.'.join(x.split('.')[:3]) for x in body[1].split(',')]
                me = [] if mb[1] == '-' else mb[1].split(',')
                if ie != me:
                    return False
        elif a != m:
            return False
    return True


def _in_statement(tx, sid, ht, wt):
    """is this (transaction, sign_id, hash_type, path) one the property statement speaks about?"""
    if not (0 <= sid < len(tx['ins'])) or not (0 <= ht < (1 << 32)):
        return False
    x = tx['ins'][sid]
    if WT_OF[x['kind']] != wt:
        return False
    if wt != 'leg' and not tx['sw']:
        return False
    return all(0 <= y['value'] < (1 << 64) for y in tx['ins'])


def prop_check(c, out):
    if BIP143_BAD or len(BIP143_OK) < 9:
        return 'harness self-test: independent BIP143 implementation does not reproduce the published examples %r' % (BIP143_BAD,)
    if out.startswith('CRASH') or out == 'BADREQ':
        return 'unexpected answer %r' % out[:120]
    t = c.req.split(' ')
    if t[0] == 'sess':
        if out.startswith('ERR'):
            return None
        return session_check(c, out)
    if t[0] == 'pre':
        mode, tok, sid, ht, wt = t[1], t[2], int(t[3]), int(t[4]), t[5]
        tx = tx_of_tok(tok)
        if out.startswith('ERR'):
            return None
        o = out.split(' ')
        if len(o) != 2 or dsha(bytes.fromhex(o[0])).hex() != o[1]:
            return 'signature_hash is not the double SHA256 of what Transaction.signature returns'
        if not _in_statement(tx, sid, ht, wt):
            return None
        pre, dig = consensus_sighash(tx, sid, ht)
        want = '%s %s' % (hx(pre) if pre is not None else '<none: digest is the constant 1>', dig.hex())
        if out == want:
            return None
        o = out.split(' ')
        return ('Transaction.signature(%d, %#x, %s) [%s] is not the consensus preimage: preimage %s, digest %s, consensus digest %s'
                % (sid, ht, wt, mode, 'equal' if o[0] == hx(pre or b'') else 'differs', o[-1][:16], dig.hex()[:16]))
    if t[0] == 'signed':
        if out.startswith('ERR'):
            return None
        tx = tx_of_tok(t[1])
        raw_hex, ok = out.split(' ')
        why = verify_signed(tx, bytes.fromhex(raw_hex), lambda p, ht: consensus_sighash(tx, p, ht)[1])
        if why is None and ok != '1':
            return 'Transaction.verify() is False for a transaction whose signatures are valid for consensus'
        if why is not None:
            return 'signed through the library, rejected by the independent verifier: %s (library verify() = %s)' % (why, ok)
        return None
    return None


def same(c, io, mo):
    t = c.req.split(' ')
    if t[0] == 'sess':
        if _nested_from_lock_keyed(c, io, mo):
            return True      # proposed class nested_from_locking_script_keyed: same reason, the keyed / P2SH-P2WSH forms
        if t[1] in ('fl', 'fla') and _nested_from_lock(c, io, mo):
            # recorded class nested_p2wpkh_from_locking_script: the construction form is not a parameter of the model (it
            # answers with the digests of the keyed input); generated only while the class is recorded
            return True
        return session_same(c, io, mo)
    if t[0] == 'signed':
        if io.startswith('ERR'):
            return 'ERR' in mo
        tx = tx_of_tok(t[1])
        ds = mo.split(',')
        if len(ds) != len(tx['ins']) or any(d == 'ERR' for d in ds):
            return False
        # the signatures the library embedded must be valid for the digests the MODEL says sign() uses
        return verify_signed(tx, bytes.fromhex(io.split(' ')[0]), lambda p, ht: bytes.fromhex(ds[p]) if ht == 1 else b'\x00' * 32) is None
    # preimage bytes; the digest half of the adapter's answer is checked against hashlib in prop_check
    return _norm(io).split(' ')[0] == _norm(mo)


# ---------------------------------------------------------------- known classes (decided from the case alone)
def _case_tx(c):
    t = c.req.split(' ')
    if t[0] == 'pre':
        return tx_of_tok(t[2]), t
    if t[0] in ('signed', 'vdig'):
        return tx_of_tok(t[1]), t
    return None, t


def _perm(c):
    tx, _ = _case_tx(c)
    return tx is not None and any(x['idx'] != p for p, x in enumerate(tx['ins']))


def _legacy_non_all(c):
    tx, t = _case_tx(c)
    if tx is None or t[0] != 'pre' or t[5] != 'leg':
        return False
    ht = int(t[4])
    return bool(ht & 0x80) or (ht & 0x1f) in (2, 3)


_KNOWN_IDS = []


def _recorded(cid):
    """is the finding recorded as known (known_findings.json / VERIF_EXTRA_KNOWN)?  A class whose repair is proposed as
    a fix: commit must stop excusing anything once the repair is in and the entry is gone."""
    if not _KNOWN_IDS:
        from core import load_known
        _KNOWN_IDS.append({e.get('id') for e in load_known(PROP) if e.get('status') == 'known'})
    return cid in _KNOWN_IDS[0]


def _p2pk_resign(c, io, mo):
    """session with a P2PK input that the library signs more than once, and the ONLY thing wrong with the answers is
    what that class explains (the scriptSig of such an input keeps the first signature)"""
    t = c.req.split(' ')
    if t[0] != 'sess' or not _recorded('p2pk_resign_stale_scriptsig'):
        return False
    if ',p2pk,' not in c.req:
        return False
    if sum(1 for op in t[3:] if op.split('~')[0] in SIGNING_OPS) + (1 if t[1] == 'parse' else 0) < 2:
        return False
    return session_check(c, io, exempt_p2pk_resigned=True) is None


def _nested_from_lock(c, io, mo):
    """a P2SH-P2WPKH input created from the locking script of the output it spends (a914 <script hash> 87), no keys:
    Input.__init__ takes the SCRIPT hash found in the locking script for the public-key hash; script code and redeem
    script are built from it and stay so after the key arrives with sign().  Decided from the case: construction mode
    fl / fla and every input of the transaction is of that kind"""
    t = c.req.split(' ')
    if t[0] != 'sess' or t[1] not in ('fl', 'fla') or not _recorded('nested_p2wpkh_from_locking_script'):
        return False
    return all(x['kind'] == 'p2sh_p2wpkh' for x in tx_of_tok(t[2])['ins'])


def _nested_from_lock_keyed(c, io, mo):
    """P2SH-P2WPKH inputs created WITH their keys, or P2SH-P2WSH inputs (keys are part of the script), together with the
    P2SH locking script of the output they spend (a914 <script hash> 87) and no witness_type: same root as
    nested_p2wpkh_from_locking_script (Input.__init__ takes the script hash for the public-key hash).  Decided from the
    case: a construction mode that passes the locking script (kl / kla / klc, for P2SH-P2WSH also il / ilc) and every
    input of the transaction is of a nested kind; generated only while the class is recorded"""
    t = c.req.split(' ')
    if t[0] != 'sess' or t[1] not in ('kl', 'kla', 'klc', 'il', 'ilc') or not _recorded('nested_from_locking_script_keyed'):
        return False
    kinds = [x['kind'] for x in tx_of_tok(t[2])['ins']]
    return all(k in _NESTED for k in kinds) and (t[1][0] == 'k' or all(k == 'p2sh_p2wsh' for k in kinds))


KNOWN_CLASSES = {
    'nested_p2wpkh_from_locking_script': _nested_from_lock,
    # proposed (fixes/C01-known-nested-from-locking-script-keyed.json); dead while the entry is not recorded
    'nested_from_locking_script_keyed': _nested_from_lock_keyed,
    # index_n != list position was repaired (fixes/C01-2): no class for it, the permuted-index stream must pass
    'legacy_non_all_hashtype': lambda c, io, mo: _legacy_non_all(c),
    # repaired by fixes/C01-3 (proposed); the predicate is live only while the finding is recorded as known instead
    'p2pk_resign_stale_scriptsig': _p2pk_resign,
}


def reproduce_known(entry, rundir):
    from core import run_impl
    rc, out, err = run_impl(IMPL, [entry['witness']['request']], rundir)
    return len(out) == 1 and out[0] == entry['witness']['impl_answer']
