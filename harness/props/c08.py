"""C08 — wallet ledger stays consistent over any history and survives reopening.

History differential: random and directed operation sequences are executed against real Wallet objects on one sqlite
file (harness/impl/c08_impl.py) and against the extracted Gallina state machine (coq/Model/Ledger.v, database level
[db_step_gen]: several wallets in one file, session view and committed rows, via ocaml/c08_driver.ml).  After an
operation the FIRST reading is made through a second Wallet object (or a forked process) before anything else is
called on the live object; then balance(), utxos(), the per-key balances, the stored transactions and balance / utxos
of EVERY (network, account) group are read, for EVERY wallet of the file; operations marked "!" are followed by no
observation at all.  Everything is compared with the model, and the property statement is evaluated on the
implementation's own answers by an oracle that does not use the model (Oracle.step / per_account / durable /
untouched), one oracle per wallet.
Failing histories are shrunk to a minimal operation list before the replay is written."""
import json, os, random, re, sys, threading, time
import core
from core import Result, coq_make, check_properties_file, build_driver, run_driver, run_impl, violation, finish, \
    load_known, scan_forbidden, run_dir

PROP = 'C08'
COQ_FILES = ['Proofs/LedgerDefault.v', 'Extract/C08.v', 'Properties/C08.v']
DRIVER = 'c08'
IMPL = 'harness/impl/c08_impl.py'
ALLOWED_AXIOMS = []
# the model variant that mirrors the repository: fixes/C08-1 (cache reset + loaded-key sync) and C08-2 are in; delete()
# commits; send() marks the consumed outpoints in the rows of every wallet of the file; delete() looks its
# transaction row up by txid only (two rows -> MultipleResultsFound) until fixes/C08-8 is recorded as fixed
KNOWN_SHARED_DELETE = 'delete_shared_txid'


def known_status(kid):
    for e in load_known(PROP):
        if e.get('id') == kid or e.get('class') == kid:
            return e.get('status')
    return None


def model_variant():
    return '1 1 1 1 %d' % (1 if known_status(KNOWN_SHARED_DELETE) == 'fixed' else 0)


WORKERS = 8
ASSUMPTIONS = [
    'theorems are about coq/Model/Ledger.v: a state machine over (keys with persisted balance, transactions with '
    'input/output rows and spent flags, Wallet._balances) mirroring Wallet._balance_update, balance, utxos, '
    'utxos_update/utxo_add, WalletTransaction.store/send/delete and the reload in Wallet.__init__; on top of it '
    'the database file (db_step_gen): the wallets of one file, each with its session view and its committed rows, '
    'the commit at the end of every writing operation, the cross-wallet effect of send()',
    'tie to /repo: history differential on every run; the operations fed to the model carry what the environment '
    'supplied (provider answers, selected inputs, signed transaction data); every ledger effect is recomputed by '
    'the model and compared after every operation',
    'the step theorems carry the precondition op_ok (fresh key ids, keys of outputs exist in the transaction\'s '
    '(network, account), no sent transaction already consumes an output of the transaction being stored, input '
    'rows after store() are the object\'s inputs); the driver evaluates op_ok on every step of every real history '
    'and the harness reports a step where it is false',
    'partial: SQLAlchemy identity-map behaviour, sqlite locking and Python object lifetime are not in the Gallina '
    'model; they are reached only through the differential (readings through the same Wallet object, through '
    'WalletKey objects and through a second Wallet object on the same file are all compared).  What IS in the model '
    'since the database level was added: per wallet the session view (wl_live) and the committed rows (wl_disk), '
    'which operations end in a commit, a reopen / second object reading wl_disk; durable_step / '
    'reload_equal_every_op state durability for every operation kind',
    'observation: after an operation the first reading is taken through a second Wallet object (kind flag f: by a '
    'forked process) before the adapter calls anything on the live object (model: P token, read from wl_disk); the '
    'oracle requires it to agree with what the live object then reports (not_durable) and that a deleted '
    'transaction is returned by neither (deleted_tx_present); operations written with "!" are followed by no '
    'observation and no call at all before the next operation / the reopen',
    'several wallets in one file (same keys under a second name, cosigner wallet of the 2-of-2, unrelated seed): every '
    'wallet is observed after every operation, compared with its own model ledger and checked by its own oracle; '
    'an operation on another wallet must leave its unspent outputs and stored transactions as they were, except that '
    'an outpoint consumed by a transaction another wallet of the file broadcast may have become spent '
    '(other_wallet_changed).  The code as it is marks the consumed outpoints in the rows of EVERY wallet of the '
    'file (send() looks them up by txid and output_n only): modelled faithfully (mark_wal), the other wallet stays '
    'consistent (db_inv_step), theorem other_wallets_untouched carries the guard touches_others = false and '
    'other_wallets_untouched_refuted shows it is needed; the property text does not speak about it (the outpoint '
    'is spent on the network), so it is counted (sends_marking_rows_of_another_wallet), not reported',
    'transaction_delete of a transaction id which another wallet of the file holds too raises '
    'MultipleResultsFound in the code as it is (recorded-finding class delete_shared_txid, proposed in '
    'fixes/C08-known-shared-delete.json, repair fixes/C08-8-delete-own-wallet-rows.diff): attempted only when the '
    'entry is recorded (kind flag x; status known -> model variant v_del_own = 0 answers DRefused, status fixed -> '
    'v_del_own = 1); otherwise the adapter skips such a deletion (answer skip:shared)',
    'coin selection itself (which unspent outputs are picked) is taken from the implementation and checked for '
    'admissibility (Select); sweep completeness and amounts are C07',
    'several accounts and networks: the HD histories open up to 3 accounts on the wallet\'s network (bitcoinlib_test, '
    'built-in offline provider) and up to 2 on a second network (litecoin; its provider is a deterministic stub in '
    'the adapter: one confirmed output per address, fixed fee rate, broadcast = txid), create keys of the groups in '
    'interleaved key-id order, and name the (network, account) group in new_key / get_key / utxos_update / send_to / '
    'sweep; after every operation balance(account_id, network), utxos(account_id, network) and the key balances '
    'are read for EVERY group (and compared with the model\'s BalanceOf / UtxosOf steps), and the independent '
    'oracle checks balance(group) == sum utxos(group) == sum of the balances of the keys of the group for every '
    'group, every key balance == that key\'s unspent outputs, and that no key changes its account',
    'not exercised by default (recorded-finding class cross_account_output, proposed in fixes/C08-known-multiacct.json; '
    'generated as soon as that entry is in known_findings.json / VERIF_EXTRA_KNOWN): operations that put an output of '
    'a key of one account into a transaction row filed under another account (utxo_add on a key of a non-default '
    'account, sweep of a non-default account to an own address, payments between accounts of the wallet, '
    'transaction_import of another account\'s transaction).  There the Gallina model is NOT faithful (it keeps the '
    'key\'s group and sums a key\'s rows over all groups; the library overwrites DbKey.account_id and keeps the last '
    '(key, account) row); the theorems exclude the class through op_ok, has_cross decides it on the model state',
    'round 3: wallets and keys WITHOUT key material (import_key(Address) / public-only imported keys in HD and single-key '
    'wallets; single-key wallets made from an address string or a public key; an HD wallet made from the account xpub) '
    'receive outputs and are observed like every other key, plus utxos(key_id=k) for every key holding something '
    '(oracle clause key_listing: it sums to the key balance and lists no other key; not in the Gallina model, which has '
    'no key kinds: utxos() there lists every unspent output with a key row); wallets whose DEFAULT ACCOUNT is not 0 '
    '(created with account_id=N: flag a; default_account_id set and persisted: flag d), where every per-group reading '
    'names its account, account 0 included (theorem named_account_ignores_default); spends that name account 0 in such '
    'a wallet are filed under the default account by WalletTransaction.__init__ ("if not account_id") and fall into '
    'the recorded class cross_account_output: generated only while that entry is recorded',
    'round 3, reload fidelity (oracle clause fidelity, parse_raw written from the serialisation format, not from the '
    'library): transactions made elsewhere (version 1/2/3, locktime, sequences, two outputs), imported as raw bytes / '
    'Transaction object / dict (op ir), then stored or sent: after a reload by a second Wallet object the object '
    'serialises to the imported bytes and carries their version / locktime / sequences / amounts, and the id in use is '
    'the id of those bytes (or what the offline provider answered on broadcast); the same for every fully signed '
    'transaction at the moment it was stored.  Proposed recorded class import_raw_txid_of_version1 '
    '(fixes/C08-known-import-raw-txid.json): raw imports of version != 1 are stored without being sent only once the '
    'entry is recorded.  Byte-level serialisation is not in the Gallina model (raw bytes are an opaque field there)',
    'round 4, reload of the INPUTS (oracle clause inputs_fidelity; multisig_script / unlock_keys written from BIP11 / '
    'BIP16 / BIP141, not from the library): 2-of-3 multisig wallets (p2wsh, p2sh; p2sh-p2wsh once the class below is '
    'recorded) whose BIP67-sorted key order differs from the cosigner order, next to the 2-of-2; every key spent by its '
    'own transaction; for every sent transaction the wallet still holds, the inputs of Wallet.transaction(txid) (wallet '
    'object after every operation; second Wallet object after a reopen and at the end) carry the address, script / '
    'witness type, sequence, value, public keys IN ORDER and redeem script (after its first byte) of the object that '
    'was sent (reload_input_differs), and the public keys / redeem script are those of the witness script / redeem '
    'script / public key in the BYTES that were sent (reload_keys_not_of_script).  Proposed recorded class '
    'reload_multisig_threshold (fixes/C08-known-reload-multisig-threshold.json): from_txid does not pass sigs_required, '
    'a reloaded p2wsh / p2sh-p2wsh multisig input says 1-of-n, and a reloaded p2sh-p2wsh transaction serialises with '
    'a scriptSig committing to the 1-of-n script: the number of required signatures is compared, and p2sh-p2wsh '
    'multisig wallets are generated, only once the entry is recorded (class predicate threshold_only_diff on the '
    'bytes).  Input scripts and keys are not in the Gallina model',
    'accounts on the second network are always named with their account id (balance(network=n) without account_id '
    'resolves the account from the key table; not modelled); transactions_update / scan need a provider with '
    'gettransactions and are not exercised; mixed witness types in one wallet are not exercised',
]
RULE = ('random histories over {new_key, get_key, new_account (own and second network), utxos_update (rescan / no '
        'rescan / one key / naming an account or network), utxo_add and utxos_update(utxos=..) (colliding outpoints, '
        'several output numbers of one txid), send_to / sweep (own or external destination, broadcast or not, '
        'min_confirms 0/1, from any (network, account) group), send_to(input_key_id) and send(input_arr=[one chosen '
        'unspent output]), later broadcast / store / import / reload of a created transaction, transaction_delete, '
        'reopen} for HD (segwit, legacy, p2sh-segwit; half of them with several accounts, a quarter with a second '
        'network), single-key and 2-of-2 multisig wallets; a third of them with runs of operations that are not '
        'observed, a fifth with the first reading made by a forked process; corpus histories; three directed '
        'families: durability (every operation kind directly followed by reopen / second object / other process), '
        'sibling outputs (a funding transaction with several wallet outputs through utxo_add, a provider answering '
        'several outputs per txid, a payment to self, another account; spent by different transactions; then delete / '
        'store again / import / rescan / reopen in random order), several wallets in one file (same keys, cosigner, '
        'unrelated; either wallet registers the overlapping outpoints first; spends, cross imports, deletes, '
        'reopens), and a fourth (round 3): watched addresses / public-only keys holding outputs, wallets made from an '
        'address / public key / account xpub, default account 1 or 2 with account 0 next to it, imports of version-2 '
        'transactions with locktime as raw / object / dict followed by store / send / reopen; a fifth (round 4): 2-of-3 '
        'and 2-of-2 multisig wallets (p2wsh, p2sh, p2sh-p2wsh) with several funded keys, each spent by its own '
        'transaction (sent at once / created, stored, sent later), read back input by input (keys in order, redeem '
        'script, address, value) through the wallet object, a second object and after reopening, then deletes / '
        'rescans / the same keys under a second name; one evaluation = one observation of one wallet (first reading through a second object, default '
        'readings, then balance / utxos of every group, key balances and key groups) compared with the model; a step '
        'is non-trivial when it changed balance, unspent set, per-key balances, stored transactions or a per-group '
        'reading of that wallet; distinct by (kind, history, step)')

KINDS_QUICK = ['hd'] * 5 + ['hdl', 'hdp', 'single', 'single', 'ms']
KNOWN_CROSS = 'cross_account_output'
KNOWN_STALE_TXID = 'import_raw_txid_of_version1'
KNOWN_THRESHOLD = 'reload_multisig_threshold'
_GATE = {}


def threshold_gate():
    """The number of required signatures of a reloaded multisig input is compared only once the recorded-finding class
    reload_multisig_threshold is present (proposed in fixes/C08-known-reload-multisig-threshold.json)."""
    if 'thr' not in _GATE:
        _GATE['thr'] = known_status(KNOWN_THRESHOLD) == 'known'
    return _GATE['thr']


# ---------------------------------------------------------------- generator
def gen_history(rng, lo, hi, multi=False, cross=False, nets=False):
    """multi: the history opens further accounts and most calls name one (suffix :A, an index into the wallet's list
    of (network, account) groups at that moment).  nets: also accounts on a second network.  cross: also operations
    that put an output of a key of one account into a transaction filed under another account (recorded finding
    class cross_account_output)."""
    n = rng.randrange(lo, hi + 1)
    ops = []

    def acc(p=0.75):
        """account suffix: '' = the call passes no account_id"""
        return ':%d' % rng.randrange(5 if nets else 3) if multi and rng.random() < p else ''

    def own():
        return rng.choice(['o', 'o', 'x'] if cross else ['o']) + str(rng.randrange(6))

    for i in range(n):
        r = rng.random()
        if multi and i < 6 and rng.random() < 0.6:
            # the prologue interleaves key ids of different accounts: new_account / new_key(account_id=..) in turn
            ops.append(rng.choice(['na', 'nk:0', 'nk:1', 'nk:2', 'nk'] + (['nn', 'nn', 'nk:3', 'nk:4'] if nets else [])))
        elif i == 0 and rng.random() < 0.7:
            ops.append('uu')
        elif multi and r < 0.03:
            ops.append('nn' if nets and rng.random() < 0.5 else 'na')
        elif r < 0.06:
            ops.append('nk' + acc())
        elif r < 0.10:
            ops.append('gk' + acc())
        elif r < 0.20:
            ops.append('uu' + acc())
        elif r < 0.25:
            ops.append('un' + acc())
        elif r < 0.30:
            ops.append('uk:%d' % rng.randrange(16 if nets else 12 if multi else 6))
        elif r < 0.42:
            ops.append('%s:%d:%d:%d:%d:%d' % ('uA' if cross and rng.random() < 0.4 else 'ua',
                                               rng.randrange(16 if nets else 12 if multi else 6),
                                               rng.choice([600, 1000, 5000, 70000, 2500000, 100000000]),
                                               rng.randrange(4), rng.choice([0, 0, 1, 1, 2]), rng.choice([0, 1, 3, 10])))
        elif r < 0.60:
            a = acc()
            ops.append('st:%s:%d:%d:%d%s' % (rng.choice(['e', 'e', own()]),
                                             rng.choice([1, 100, 300, 500, 900, 990, 1000, 1200]),
                                             1 if rng.random() < 0.7 else 0, rng.choice([0, 1, 1]), a))
        elif r < 0.68:
            a = acc()
            # sweep(account_id=a) hands the transaction to send() without the account: with an own destination the
            # output would sit in a transaction of the default account (class cross_account_output)
            dest = rng.choice(['e', 'e', own()]) if (a == '' or cross) else 'e'
            ops.append('sw:%s:%d:%d%s' % (dest, 1 if rng.random() < 0.7 else 0, rng.choice([0, 1, 1]), a))
        elif r < 0.74:
            ops.append('bc:%d' % rng.randrange(8))
        elif r < 0.77:
            ops.append('ps:%d' % rng.randrange(8))
        elif r < 0.80:
            ops.append('%s:%d' % ('iM' if cross and rng.random() < 0.5 else 'im', rng.randrange(8)))
        elif r < 0.83:
            ops.append('ld:%d' % rng.randrange(12))
        elif r < 0.90:
            ops.append('de:%d' % rng.randrange(12))
        elif r < 0.93:
            # exactly one chosen unspent output / the outputs of one key are spent
            ops.append('si:%d:%s:%d:%d' % (rng.randrange(6), rng.choice(['e', own()]), rng.choice([300, 900]),
                                           1 if rng.random() < 0.8 else 0) if rng.random() < 0.5 else
                       'sk:%d:%s:%d:%d:%d' % (rng.randrange(8), rng.choice(['e', own()]), rng.choice([300, 900, 990]),
                                              1 if rng.random() < 0.8 else 0, rng.randrange(2)))
        else:
            ops.append('ro')
    return ops


def quieten(rng, ops, p):
    """Operations follow each other with NO observation in between: a trailing "!" suppresses the observation after
    the operation (the adapter then makes no call at all on the wallet between this operation and the next)."""
    return [o + '!' if rng.random() < p and not o.startswith(('w:', 'nw')) else o for o in ops]


FUND_VALUES = [600, 5000, 70000, 2500000, 100000000]


def gen_durable(rng):
    """Class 1: every kind of operation directly followed by a second Wallet object / another process reading the
    file, or by close + reopen, with no call on the wallet object in between."""
    pre = ['uu'] if rng.random() < 0.6 else ['ua:0:%d:0:0:3' % rng.choice(FUND_VALUES[2:]), 'ua:1:%d:0:1:3' % rng.choice(FUND_VALUES[2:])]
    pre += rng.sample(['nk', 'st:e:300:1:1', 'st:o1:500:1:0', 'st:e:400:0:1', 'ua:2:70000:1:0:1', 'sk:0:e:500:1:0'],
                      rng.randrange(1, 4))
    burst_pool = ['de:%d' % rng.randrange(8), 'dl:%d' % rng.randrange(3), 'ps:%d' % rng.randrange(4),
                  'bc:%d' % rng.randrange(4), 'im:%d' % rng.randrange(4), 'ld:%d' % rng.randrange(8),
                  'ua:%d:%d:%d:%d:%d' % (rng.randrange(6), rng.choice(FUND_VALUES), rng.randrange(3), rng.randrange(3), rng.choice([0, 1, 5])),
                  'uu', 'un', 'uk:%d' % rng.randrange(6), 'nk', 'gk',
                  'st:%s:%d:%d:%d' % (rng.choice(['e', 'o1']), rng.choice([100, 500, 990]), rng.randrange(2), rng.randrange(2)),
                  'sw:e:%d:%d' % (rng.randrange(2), rng.randrange(2)),
                  'si:%d:e:%d:%d' % (rng.randrange(4), rng.choice([300, 900]), rng.randrange(2)),
                  'sk:%d:e:%d:1:0' % (rng.randrange(6), rng.choice([300, 900]))]
    ops = list(pre)
    for _ in range(rng.randrange(2, 5)):
        burst = [rng.choice(burst_pool) for _ in range(rng.randrange(1, 4))]
        mode = rng.random()
        if mode < 0.45:
            ops += [o + '!' for o in burst] + ['ro']            # close + reopen directly after the operations
        elif mode < 0.7:
            ops += [o + '!' for o in burst[:-1]] + [burst[-1]]   # observed only after the last one
        else:
            ops += burst                                         # second object / other process first, every time
    return ops


def gen_siblings(rng):
    """Class 2: a funding transaction with SEVERAL outputs of the wallet, spent by DIFFERENT transactions, then
    delete / store again / import / rescan / reopen in every order.  Returns (kind flags, ops)."""
    how = rng.randrange(4)
    flags = ''
    nkeys = rng.randrange(2, 4)
    if how == 0:
        # utxo_add of several output numbers of one transaction id, to different keys (and one key twice)
        slot = rng.randrange(4)
        ops = ['nk'] * (nkeys - 1)
        ns = rng.sample(range(5), nkeys + 1)
        for j, n in enumerate(ns):
            ops.append('ua:%d:%d:%d:%d:%d' % (j % nkeys, rng.choice(FUND_VALUES[2:]), slot, n, rng.choice([1, 3, 10])))
    elif how == 1:
        # the provider answers with several outputs per transaction id
        flags = 'm'
        ops = ['nk'] * (nkeys - 1) + ['uu']
    elif how == 2:
        # payment to self with change: two outputs of one own transaction
        ops = ['uu', 'st:o%d:%d:1:1' % (rng.randrange(1, 4), rng.choice([300, 500, 700]))]
    else:
        # several outputs through utxos_update(utxos=..) into one transaction of another account
        ops = ['na', 'nk:1', 'nk:1']
        slot = rng.randrange(4)
        ops += ['ua:%d:%d:%d:%d:5' % (1 + j, rng.choice(FUND_VALUES[2:]), slot, j) for j in range(2)]
    # the siblings are spent by different transactions
    spends = []
    for j in range(rng.randrange(2, 4)):
        r = rng.random()
        if how == 3:
            spends.append('st:e:%d:1:0:1' % rng.choice([300, 600]))
        elif r < 0.5:
            spends.append('sk:%d:%s:%d:%d:0' % (j, rng.choice(['e', 'e', 'o1']), rng.choice([500, 900, 990]),
                                                  1 if rng.random() < 0.85 else 0))
        else:
            spends.append('si:%d:%s:%d:%d' % (rng.randrange(4), rng.choice(['e', 'e', 'o2']), rng.choice([500, 900]),
                                               1 if rng.random() < 0.85 else 0))
    ops += spends
    after = ['de:%d' % j for j in rng.sample(range(7), rng.randrange(1, 4))] + \
        ['dl:%d' % j for j in rng.sample(range(3), rng.randrange(1, 3))] + \
        rng.sample(['ld:%d' % rng.randrange(8), 'ps:%d' % rng.randrange(5), 'im:%d' % rng.randrange(5),
                    'bc:%d' % rng.randrange(5), 'ro', 'un', 'uu', 'uk:%d' % rng.randrange(4),
                    'ua:%d:%d:%d:%d:3' % (rng.randrange(3), 70000, rng.randrange(4), rng.randrange(3)),
                    'si:%d:e:900:1' % rng.randrange(4), 'sw:e:1:0'], rng.randrange(2, 6))
    rng.shuffle(after)
    return flags, ops + after


def gen_wallets(rng, kind, shared_delete):
    """Class 3: SEVERAL wallets in one database file (the same keys restored under a second name, the cosigner's
    wallet of a 2-of-2, unrelated wallets) registering overlapping outpoints in both orders, spending, importing
    each other's transactions, deleting, reopening.  Returns (kind flags, ops)."""
    flags = 'x' if shared_delete else ''
    how = rng.choice(['s', 's', 'o'] + (['c', 'c'] if kind == 'ms' else []))

    def fund():
        r = rng.random()
        if r < 0.45:
            return ['uu' if rng.random() < 0.7 else 'un']
        # the same pool outpoint in every wallet (unrelated wallets register it for their own address)
        return ['ua:%d:%d:%d:%d:%d' % (rng.randrange(2), rng.choice(FUND_VALUES[2:]), rng.randrange(2), rng.randrange(2),
                                        rng.choice([1, 5]))]

    def spend():
        r = rng.random()
        if r < 0.4:
            return 'si:%d:%s:%d:1' % (rng.randrange(4), rng.choice(['e', 'e', 'o1']), rng.choice([500, 900]))
        if r < 0.7:
            return 'st:%s:%d:%d:%d' % (rng.choice(['e', 'e', 'o1']), rng.choice([100, 500, 990]),
                                        1 if rng.random() < 0.8 else 0, rng.randrange(2))
        if r < 0.85:
            return 'sw:e:1:%d' % rng.randrange(2)
        return 'sk:%d:e:%d:1:0' % (rng.randrange(6), rng.choice([500, 990]))

    ops = []
    order = rng.randrange(3)
    if order == 0:
        ops += fund() + ['nw:' + how] + fund()                   # the first wallet registers the outpoints first
    elif order == 1:
        ops += ['nw:' + how] + fund() + ['w:0'] + fund()         # the second wallet registers them first
    else:
        ops += fund() + [spend(), 'nw:' + how] + fund()          # ... after the first wallet has spent one
    if rng.random() < 0.25:
        ops += ['nw:' + rng.choice(['s', 'o'])] + fund()
    for _ in range(rng.randrange(3, 8)):
        r = rng.random()
        if r < 0.3:
            ops.append('w:%d' % rng.randrange(3))
        elif r < 0.55:
            ops.append(spend())
            if rng.random() < 0.3:
                ops.append('dl:0')          # the transaction just sent is deleted again
        elif r < 0.65:
            ops += fund()
        elif r < 0.75:
            ops.append(rng.choice(['de:%d' % rng.randrange(8), 'dl:%d' % rng.randrange(2), 'dl:0']))
        elif r < 0.83:
            ops.append(rng.choice(['iw:%d' % rng.randrange(4), 'im:%d' % rng.randrange(4)]))
        elif r < 0.9:
            ops.append(rng.choice(['bc:%d' % rng.randrange(4), 'ps:%d' % rng.randrange(4)]))
        else:
            ops.append('ro')
    return flags, quieten(rng, ops, 0.15)


def gen_watch(rng, i, cross=False, stale=False):
    """Round 3: wallet / key KINDS without key material, wallets whose DEFAULT ACCOUNT is not 0, transactions made
    elsewhere and imported.  Returns (kind with flags, ops).  Key index -1 = the key added last."""
    fam = i % 4
    val = lambda: rng.choice(FUND_VALUES[1:])
    if fam == 0:
        # an HD / single-key wallet that also watches foreign addresses (import_key(Address)) and holds public-only
        # imported keys; these keys receive outputs through the provider, utxo_add and utxos_update(key_id=..)
        kind = rng.choice(['hd', 'hd', 'hdl', 'hdp', 'single'])
        ops = ['uu'] if rng.random() < 0.5 else []
        ops += [rng.choice(['ik:0', 'ik:0', 'ip:0']), rng.choice(['ua:-1:%d:0:0:3' % val(), 'uk:-1', 'uu'])]
        pool = ['ik:1', 'ip:2', 'ua:-1:%d:1:%d:%d' % (val(), rng.randrange(2), rng.choice([0, 1, 5])), 'uk:-1', 'uu', 'un',
                'st:e:%d:1:%d' % (rng.choice([100, 500, 990]), rng.randrange(2)), 'sk:-1:e:500:1:0', 'sw:e:1:0',
                'st:o%d:300:1:0' % rng.randrange(6), 'si:%d:e:900:1' % rng.randrange(4), 'ro', 'de:%d' % rng.randrange(6),
                'dl:0', 'ua:%d:%d:2:0:3' % (rng.randrange(6), val()), 'nk', 'ro']
        ops += [rng.choice(pool) for _ in range(rng.randrange(4, 10))] + ['ro']
        return kind, ops
    if fam == 1:
        # the whole wallet is without private keys: made from an address string, from a public key, from an account xpub
        kind = rng.choice(['addr', 'addrl', 'singlep', 'hdw', 'addr'])
        ops = [rng.choice(['uu', 'ua:0:%d:0:0:3' % val(), 'un'])]
        pool = ['ua:0:%d:%d:%d:%d' % (val(), rng.randrange(3), rng.randrange(2), rng.choice([0, 1, 5])), 'uk:0', 'uu', 'un',
                'st:e:500:1:0', 'sw:e:1:0', 'ro', 'de:%d' % rng.randrange(4), 'ik:0', 'ua:-1:%d:1:1:2' % val(), 'uk:-1'] + \
               (['nk', 'gk', 'nk', 'uk:-1', 'st:e:300:0:0', 'ps:0'] if kind == 'hdw' else [])
        ops += [rng.choice(pool) for _ in range(rng.randrange(3, 9))] + ['ro']
        return kind, ops
    if fam == 2:
        # the default account is 1 or 2 (wallet created with account_id=N / default_account_id set and persisted);
        # account 0 exists next to it and every call names an account, account 0 included
        kind = rng.choice(['hd', 'hd', 'hdl', 'hdp']) + '+' + rng.choice('ad')
        pro = ['na', 'nk:0', 'nk:1', 'uu:0', 'uu:1', 'uu']
        if rng.random() < 0.5:
            pro = ['na', 'na', 'nk:0', 'nk:2', 'uu:1', 'uu:0', 'uu:2']
        if rng.random() < 0.4:
            pro.insert(rng.randrange(2, len(pro)), 'ik:0:0')
        body = gen_history(rng, 3, 10, multi=True)
        named = ['st:e:%d:1:%d:%d' % (rng.choice([300, 900]), rng.randrange(2), rng.randrange(3)),
                 'sw:e:1:0:%d' % rng.randrange(3), 'uu:0', 'un:0', 'sk:%d:e:500:1:0' % rng.randrange(8), 'ro']
        if not cross:
            # WalletTransaction files a transaction made for account 0 under the default account (class
            # cross_account_output): spends that may name account 0 only once that entry is recorded
            body = [o for o in body if not o.startswith(('st:', 'sw:', 'sk:', 'si:'))]
            named = ['uu:0', 'un:0', 'ro', 'uu:1', 'nk:0', 'uk:%d' % rng.randrange(8)]
        ops = pro + body + rng.sample(named, rng.randrange(2, 5)) + ['ro']
        return kind, ops
    # transactions made elsewhere (version 2, locktime, sequences, two outputs) imported as raw bytes / object / dict,
    # then stored or sent, read back through a second Wallet object and after reopening
    kind = rng.choice(['hd', 'hd', 'hdl', 'hdp', 'single', 'ms'])
    ops = ['uu'] if rng.random() < 0.7 else ['ua:0:%d:0:0:3' % rng.choice(FUND_VALUES[3:]), 'ua:0:2500000:0:1:3']

    def imp(then=None):
        ver, form, then = rng.choice([2, 2, 2, 1, 3]), rng.choice('rrod'), then or rng.choice('0sbb')
        if form == 'r' and ver != 1 and not stale:
            # recorded-finding class import_raw_txid_of_version1: stored without being sent only once the entry is in
            then = 'b'
        return 'ir:%s:%d:%d:%d:%s:%s' % (rng.choice(['e', 'e', 'o1']), rng.choice([200, 400, 700]), ver,
                                         rng.choice([0, 77, 500000, 1700000000]), form, then)
    ops.append(imp(rng.choice('sb')))
    pool = [imp(), imp(), 'bc:0', 'ps:0', 'bc:1', 'ps:1', 'ro', 'dl:0', 'de:%d' % rng.randrange(6), 'uu', 'un', 'ld:%d' % rng.randrange(6),
            'st:e:300:1:0', 'im:0']
    ops += [rng.choice(pool) for _ in range(rng.randrange(2, 7))] + ['ro']
    return kind, ops


MS_KINDS = ['ms3', 'ms3l', 'ms3p', 'ms3', 'ms']


def gen_multisig(rng, i, thr=False):
    """Round 4: multisig wallets whose sorted key order differs from the cosigner order (2-of-3: p2wsh, p2sh,
    p2sh-p2wsh; the 2-of-2 next to them).  Several keys receive outputs, each is spent by its own transaction (sent at
    once, or created / stored first and sent later), the transactions are read back through the wallet object, a
    second Wallet object and after reopening; then deletes / rescans / the same keys under a second name."""
    kind = MS_KINDS[i % len(MS_KINDS)]
    if kind == 'ms3p' and not thr:
        # p2sh-p2wsh multisig transactions reload with a scriptSig that commits to the 1-of-n script (recorded-finding
        # class reload_multisig_threshold): generated once that entry is recorded
        kind = 'ms3'
    nk = rng.randrange(1, 4)
    ops = ['nk'] * nk
    if rng.random() < 0.6:
        ops.append('uu')
    else:
        ops += ['ua:%d:%d:%d:%d:%d' % (j, rng.choice(FUND_VALUES[2:]), rng.randrange(3), j, rng.choice([1, 3])) for j in range(nk + 1)]
    if rng.random() < 0.3:
        ops += ['nw:s', rng.choice(['uu', 'un'])]
    spends = []
    for j in rng.sample(range(nk + 1), rng.randrange(2, nk + 2) if nk > 0 else 1):
        r = rng.random()
        if r < 0.6:
            spends.append('sk:%d:%s:%d:1:%d' % (j, rng.choice(['e', 'e', 'o1']), rng.choice([500, 900, 990]), rng.randrange(2)))
        elif r < 0.8:
            spends += ['sk:%d:e:%d:0:0' % (j, rng.choice([500, 900])), rng.choice(['ps:0', 'bc:0']), 'bc:0']
        else:
            spends.append('si:%d:%s:%d:1' % (rng.randrange(4), rng.choice(['e', 'o2']), rng.choice([500, 900])))
    ops += spends
    ops += rng.sample(['ro', 'ld:%d' % rng.randrange(6), 'de:%d' % rng.randrange(6), 'dl:0', 'uu', 'un', 'sw:e:1:0', 'ro',
                       'st:e:%d:1:0' % rng.choice([300, 990]), 'im:0', 'bc:%d' % rng.randrange(3)], rng.randrange(1, 5))
    return kind + rng.choice(['', '', '+f']), ops + ['ro']


def gen_histories(rng, tier, cross=False, shared_delete=False, stale=False, thr=False):
    if tier == 'thorough':
        n, lo, hi, nd = 1000, 5, 100, 400
    else:
        n, lo, hi, nd = 96, 5, 36, 16
    hs = []
    # corpus first: the recorded witnesses
    hs.append(('hd', 'corpus0', ['uu', 'sw:e:1:1']))
    hs.append(('hd', 'corpus1', ['uu', 'st:e:300:1:1', 'de:2']))
    hs.append(('hd', 'corpus2', ['uu', 'st:e:300:0:1', 'st:e:300:0:1', 'bc:0', 'bc:1', 'de:2', 'de:3']))
    hs.append(('hd', 'corpus3', ['uu', 'st:o0:300:0:1', 'ps:0', 'st:e:990:1:0', 'bc:0', 'ro']))
    # several accounts with interleaved key ids: account 0 owns keys below and above the keys of account 1
    hs.append(('hd', 'corpus4', ['nk', 'na', 'nk:1', 'nk:0', 'uu:0', 'uu:1', 'ro']))
    hs.append(('hdl', 'corpus5', ['nk', 'na', 'nk:1', 'nk:0', 'ua:1:100000:0:0:5', 'ua:3:20000:1:0:5',
                                  'ua:5:400000:2:1:5', 'ro', 'st:e:900:1:1:0']))
    hs.append(('hd', 'corpus6', ['na', 'na', 'nk:2', 'nk:1', 'nk:0', 'uu:2', 'uu:0', 'st:o1:500:1:1:2', 'sw:e:1:1:1',
                                 'uu:1', 'sw:e:1:0:1', 'ro', 'de:3']))
    # a second network: groups (bitcoinlib_test, 0), (bitcoinlib_test, 1), (litecoin, 0) with interleaved key ids
    hs.append(('hd', 'corpus7', ['nn', 'nk', 'na', 'nk:2', 'nk:0', 'uu', 'uu:1', 'st:e:500:1:1:2', 'ro', 'sw:e:1:0:2',
                                 'ua:3:70000:1:0:3', 'de:1']))
    # delete directly followed by close + reopen / by another process reading the file
    hs.append(('hd', 'corpus8', ['uu', 'st:e:300:1:1', 'de:2!', 'ro', 'de:0!', 'ro']))
    hs.append(('hdl+f', 'corpus9', ['uu', 'st:e:300:1:1', 'de:2', 'de:0', 'de:1']))
    # two outputs of one funding transaction spent by two transactions; each of them deleted
    hs.append(('hd', 'corpus10', ['nk', 'ua:0:70000:0:0:3', 'ua:1:50000:0:1:3', 'sk:0:e:900:1:1', 'sk:1:e:900:1:1',
                                  'de:2', 'de:1', 'ro']))
    hs.append(('hd+m', 'corpus11', ['nk', 'nk', 'uu', 'sk:0:e:900:1:1', 'sk:1:e:900:1:1', 'de:0', 'de:1', 'de:2', 'de:3']))
    # the same keys restored under a second name in the same file: either wallet registered the outputs first
    hs.append(('hd', 'corpus12', ['uu', 'nw:s', 'uu', 'si:0:e:500:1', 'w:0', 'si:1:e:500:1', 'ro']))
    hs.append(('hdp', 'corpus13', ['nw:s', 'uu', 'w:0', 'uu', 'si:0:e:500:1', 'w:1', 'st:e:990:1:1', 'ro']))
    hs.append(('ms', 'corpus14', ['uu', 'nw:c', 'uu', 'sw:e:1:1', 'w:0', 'uu', 'st:e:500:0:1', 'w:1', 'iw:0', 'bc:0']))
    hs.append(('single', 'corpus15', ['ua:0:70000:0:0:3', 'nw:o', 'ua:0:5000:0:0:1', 'st:e:900:1:0', 'w:0', 'st:e:900:1:0']))
    # one wallet spends an outpoint both wallets know, then deletes its transaction again
    hs.append(('hd', 'corpus16', ['uu', 'nw:s', 'uu', 'si:0:e:500:1', 'dl:0', 'w:0', 'si:1:e:500:1', 'w:1', 'dl:0', 'ro']))
    # keys without key material holding outputs: a watched address in an HD wallet, a wallet made from an address
    hs.append(('hd', 'corpus17', ['uu', 'ik:0', 'ua:-1:70000:0:0:3', 'st:e:300:1:1', 'ro']))
    hs.append(('addrl', 'corpus18', ['uu', 'ua:0:5000:0:1:3', 'ro']))
    # default account 1, account 0 next to it, every reading names its account
    hs.append(('hd+d', 'corpus19', ['nk:0', 'nk:1', 'uu:0', 'uu:1', 'ro', 'un:0'] + (['st:e:300:1:1:0', 'ro', 'sw:e:1:0:0'] if cross else [])))
    hs.append(('hdl+a', 'corpus20', ['na', 'nk:0', 'uu:0', 'uu:1', 'ro'] + (['st:e:500:1:0:0'] if cross else ['uu'])))
    # a version-2 transaction with a locktime, made elsewhere, imported as raw bytes, sent, read back
    hs.append(('hd', 'corpus21', ['uu', 'ir:e:300:2:77:r:b', 'ro']))
    hs.append(('hdl', 'corpus22', ['uu', 'ir:o1:400:2:0:o:s', 'bc:0', 'ro', 'ir:e:300:3:500000:d:b']))
    # 2-of-3 multisig (keys sorted, BIP67): every key spent by its own transaction, read back by the wallet object, a
    # second object and after reopening
    hs.append(('ms3', 'corpus23', ['nk', 'nk', 'uu', 'sk:0:e:900:1:1', 'sk:1:e:900:1:1', 'sk:2:o0:500:1:1', 'ro']))
    hs.append(('ms3p' if thr else 'ms3', 'corpus24', ['nk', 'ua:0:70000:0:0:3', 'ua:1:2500000:0:1:3', 'sk:0:e:900:0:0', 'sk:1:e:900:1:0', 'bc:0', 'ro']))
    hs.append(('ms3l+f', 'corpus25', ['nk', 'uu', 'sk:1:e:900:1:1', 'st:e:500:1:0', 'ro', 'de:0']))
    for i in range(n):
        kind = KINDS_QUICK[i % len(KINDS_QUICK)]
        # accounts exist for the HD kinds only (new_account needs a BIP32 master key with an account level)
        multi = kind in ('hd', 'hdl', 'hdp') and i % 2 == 0
        ops = gen_history(rng, lo, hi, multi=multi, cross=cross and multi and i % 4 == 0, nets=multi and i % 4 == 2)
        flags = ''
        if i % 3 == 1:
            ops = quieten(rng, ops, 0.35)
        if i % 5 == 3:
            flags = '+f'
        if multi and cross and i % 8 in (2, 4):
            # the wallet's default account is not 0 (created with account_id=N / set and persisted)
            flags = (flags or '+') + ('a' if i % 8 == 2 else 'd')
        hs.append((kind + flags, 'h%d_%d' % (rng.getrandbits(32), i), ops))
    for i in range(nd):
        kind = KINDS_QUICK[(3 * i + 1) % len(KINDS_QUICK)]
        hs.append((kind + rng.choice(['', '', '+f']), 'd%d_%d' % (rng.getrandbits(32), i), gen_durable(rng)))
        flags, ops = gen_siblings(rng)
        kind = ['hd', 'hdl', 'hdp', 'hd', 'single', 'ms'][i % 6]
        if kind in ('single', 'ms') and ops[0] in ('na', 'nk'):
            kind = 'hd'
        hs.append((kind + ('+' + flags if flags else ''), 's%d_%d' % (rng.getrandbits(32), i), ops))
        kind = ['hd', 'ms', 'hdl', 'single', 'hdp', 'ms', 'hd'][i % 7]
        flags, ops = gen_wallets(rng, kind, shared_delete)
        hs.append((kind + ('+' + flags if flags else ''), 'w%d_%d' % (rng.getrandbits(32), i), ops))
    for i in range(nd + nd // 4):
        kindf, ops = gen_watch(rng, i, cross=cross, stale=stale)
        if i % 5 == 4:
            ops = quieten(rng, ops, 0.3)
        hs.append((kindf, 'k%d_%d' % (rng.getrandbits(32), i), ops))
    for i in range(nd // 2 + 2):
        kindf, ops = gen_multisig(rng, i, thr)
        hs.append((kindf, 'm%d_%d' % (rng.getrandbits(32), i), ops))
    return hs


# ---------------------------------------------------------------- running
def req_line(h):
    return 'hist %s %s %s' % (h[0], h[1], ','.join(h[2]) or '-')


def run_impl_parallel(hs, rundir, workers=WORKERS):
    """Run the adapter over the histories in parallel worker processes (each with its own data directory)."""
    workers = max(1, min(workers, len(hs)))
    chunks = [[] for _ in range(workers)]
    for i, h in enumerate(hs):
        chunks[i % workers].append((i, h))
    results = [None] * len(hs)
    errs = []

    def work(wi):
        wd = os.path.join(rundir, 'w%d' % wi)
        os.makedirs(os.path.join(wd, 'data'), exist_ok=True)
        try:
            rc, outs, err = run_impl(IMPL, [req_line(h) for _, h in chunks[wi]], wd, timeout=7200)
        except Exception as e:
            errs.append('worker %d: %r' % (wi, e))
            return
        if len(outs) != len(chunks[wi]):
            errs.append('worker %d: %d answers for %d requests; stderr: %s' % (wi, len(outs), len(chunks[wi]), err[-400:]))
            return
        for (i, _), o in zip(chunks[wi], outs):
            try:
                results[i] = json.loads(o)
            except Exception:
                results[i] = {'crash': 'unparsable adapter answer: ' + o[:200]}

    ths = [threading.Thread(target=work, args=(wi,)) for wi in range(workers)]
    for t in ths:
        t.start()
    for t in ths:
        t.join()
    return results, errs


def obs_groups(o, field='pa'):
    """The (network, account) groups the adapter read one by one, in its order: "nw.acct,..."."""
    return ','.join(x.split('~', 1)[0] for x in o.get(field, '').split('+') if x)


def observed(s):
    return isinstance(s['obs'], dict)


def model_line(r):
    toks = []
    for s in r['steps']:
        toks += s['mops']
        if s['obs'] is None:
            break
        if not observed(s):
            continue
        o = s['obs']
        toks.append('P:%s:%s' % (o.get('pre_txids') or '-', obs_groups(o, 'pa_pre') or '-'))
        toks.append(('OF' if 'txs2' in o else 'O') + ':' + (obs_groups(o) or '-'))
    return 'hist %s %s' % (model_variant(), ' '.join(toks))


def parse_model(r, out):
    """Split the driver's answer back into per-step (guards, selects, observation, respend, refused, touches)."""
    items = out.split('|')
    j = 0
    steps = []
    for s in r['steps']:
        guards, sels, respend, refused, touches = [], [], False, False, False
        for m in s['mops']:
            it = dict(x.split('=', 1) for x in items[j].split(';') if '=' in x)
            j += 1
            if m[0] in 'W@':
                continue
            guards.append(it.get('g') == '1')
            respend = respend or it.get('k') == '1'
            refused = refused or it.get('refused') == '1'
            touches = touches or it.get('t') == '1'
            if 'sel' in it:
                sels.append(it['sel'] == '1')
        ob = None
        if s['obs'] is not None and observed(s):
            ob = dict(x.split('=', 1) for x in items[j].split(';'))
            ob.update(dict(x.split('=', 1) for x in items[j + 1].split(';')))
            j += 2
        steps.append((guards, sels, ob, respend, refused, touches))
        if s['obs'] is None:
            break
    return steps


# ---------------------------------------------------------------- the property, on the implementation's own answers
def parse_utxos(s):
    return [(a[0], int(a[1]), int(a[2]), int(a[3]), int(a[4])) for a in (x.split('/') for x in s.split(',') if x)]


def parse_kb(s):
    return {int(a): int(b) for a, b in (x.split(':') for x in s.split(',') if x)}


def parse_ka(s):
    """key id -> "nw.acct" as the wallet's key table says"""
    return {int(a): b for a, b in (x.split(':') for x in s.split(',') if x)}


def parse_pa(s):
    """the per-account readings: [("nw.acct", balance(account), utxos(account))]"""
    res = []
    for x in s.split('+'):
        if x:
            g, b, u = x.split('~')
            res.append((g, int(b), parse_utxos(u)))
    return res


class Oracle:
    """Independent bookkeeping from the property text: which outpoints were consumed by a transaction the wallet
    has sent (and still holds), and what each sent transaction looked like when it was sent."""

    def __init__(self, default_group='0.0'):
        self.consumed = {}       # txid -> set((prev, n))
        self.sent_view = {}      # txid -> (ins, outs, raw)
        self.dflt = default_group
        self.key_acct = {}       # key id -> "nw.acct" when the key was first listed
        self.deleted = set()     # transaction ids removed by transaction_delete and not stored again since
        self.prev = None         # (unspent outputs, transactions) at the last observation of this wallet
        self.own_dirty = True    # an operation ran on this wallet since then
        self.foreign = set()     # outpoints consumed by transactions OTHER wallets of the file broadcast since then

    def foreign_op(self, s):
        """An operation of another wallet of the same database file."""
        for m in s['mops']:
            a = m.split(':')
            if a[0] == 'T' and a[1] == '1' and a[6] != '-':
                for x in a[6].split(','):
                    i = x.split('/')
                    self.foreign.add((i[1], int(i[2])))

    def step(self, s):
        """s: one adapter step.  Returns a list of (class, message)."""
        bad = []
        spent_now = set()
        for c in self.consumed.values():
            spent_now |= c
        for m in s['mops']:
            a = m.split(':')
            if a[0] == 'C':
                for p in (a[4].split(',') if a[4] != '-' else []):
                    tx, n = p.split('/')
                    if (tx, int(n)) in spent_now:
                        bad.append(('reselected', 'a created transaction selected %s:%s which a sent transaction '
                                                  'already consumed' % (tx[:12], n)))
            elif a[0] == 'T' and a[1] == '1':
                ins = [x.split('/') for x in a[6].split(',')] if a[6] != '-' else []
                outs = [x.split('/') for x in a[7].split(',')] if a[7] != '-' else []
                self.consumed[a[2]] = set((i[1], int(i[2])) for i in ins)
                if a[2] not in self.sent_view:
                    self.sent_view[a[2]] = (sorted((int(i[0]), i[1], int(i[2]), int(i[3])) for i in ins),
                                            sorted((int(o[0]), int(o[1])) for o in outs), a[8])
            elif a[0] == 'D':
                if (s.get('err') or '').startswith('ERR refused'):
                    bad.append((KNOWN_SHARED_DELETE, 'transaction_delete(%s) raised %s although the wallet holds the '
                                'transaction (another wallet of the file holds a transaction with the same id)'
                                % (a[1][:12], s['err'][12:])))
                    continue
                self.consumed.pop(a[1], None)
                self.sent_view.pop(a[1], None)
                self.deleted.add(a[1])
            if a[0] == 'T':
                self.deleted.discard(a[2])
            elif a[0] == 'U' and a[5] != '-':
                for x in a[5].split(','):
                    self.deleted.discard(x.split('/')[1])
            if a[0] not in 'W@':
                self.own_dirty = True
        o = s['obs']
        if not isinstance(o, dict):
            return bad
        bad += self.durable(o)
        bad += self.untouched(o)
        ut = parse_utxos(o['utxos'])
        usum = sum(u[2] for u in ut)
        if not o.get('bal_exact', True) or int(o['bal']) != usum:
            bad.append(('balance_ne_unspent', 'balance() = %s but the unspent outputs listed by utxos() sum to %d'
                        % (o['bal'], usum)))
        per_key = {}
        for u in ut:
            per_key[u[3]] = per_key.get(u[3], 0) + u[2]
        ka = parse_ka(o['ka']) if 'ka' in o else None
        for name, what in (('kb', 'a second Wallet object'), ('kb_orm', 'Wallet.keys()[*].balance'),
                           ('kb_obj', 'WalletKey.balance()')):
            kb = parse_kb(o[name])
            if ka is not None:
                # balance() / utxos() without arguments speak about the default account: its keys
                kb = {k: v for k, v in kb.items() if ka.get(k) == self.dflt}
            if sum(kb.values()) != usum:
                bad.append(('keysum_ne_unspent:' + name, 'per-key balances read through %s sum to %d, unspent outputs '
                            'sum to %d' % (what, sum(kb.values()), usum)))
            elif any(kb.get(k, 0) != per_key.get(k, 0) for k in set(kb) | set(per_key)):
                bad.append(('keybal_ne_unspent:' + name, 'a per-key balance read through %s differs from that key\'s '
                            'unspent outputs' % what))
        spent_now = set()
        for c in self.consumed.values():
            spent_now |= c
        for u in ut:
            if (u[0], u[1]) in spent_now:
                bad.append(('consumed_listed_unspent', 'output %s:%d was consumed by a sent transaction the wallet '
                            'holds and is listed by utxos()' % (u[0][:12], u[1])))
        if 'pa' in o:
            bad += self.per_account(o, ut, spent_now)
        if 'ku' in o:
            bad += self.key_listing(o)
        if 'ind' in o:
            bad += self.inputs_fidelity(o)
        if 'txs2' in o:
            for a, b, what in (('bal', 'bal2', 'balance()'), ('utxos', 'utxos2', 'utxos()'), ('kb', 'kb2', 'key balances'),
                               ('txs', 'txs2', 'stored transactions')):
                if o[a] != o[b]:
                    bad.append(('second_wallet_differs', '%s differs between the wallet object and a second Wallet '
                                'opened on the same database' % what))
            views = {}
            for t in split_txs(o['txs']):
                views[t[0]] = t
            for txid, (ins, outs, raw) in self.sent_view.items():
                v = views.get(txid)
                if v is None:
                    bad.append(('sent_tx_missing', 'sent transaction %s is not returned by transaction()' % txid[:12]))
                    continue
                if v[2] != ins or [(n, val) for (n, val, _, _) in v[3]] != outs or v[4] != raw:
                    bad.append(('reload_differs', 'transaction %s reloads with different inputs/outputs/amounts/raw '
                                'bytes than when it was sent' % txid[:12]))
            # the reloaded OBJECT must serialise to the bytes that were sent (not only carry the stored blob)
            reser = {}
            rfull = {}
            for tok in (o.get('reser') or '').split(','):
                if tok:
                    p3 = tok.split('~')
                    reser[p3[0]] = p3[1]
                    rfull[p3[0]] = p3
            bad += self.fidelity(o, rfull)
            pushed = dict(tok.split('~') for tok in (o.get('pushed') or '').split(',') if tok)
            for txid in self.sent_view:
                pr = pushed.get(txid)
                if pr is None:
                    continue
                if txid in reser and reser[txid] != pr and threshold_only_diff(pr, reser[txid]):
                    bad.append((KNOWN_THRESHOLD + ':scriptsig', 'sent transaction %s, reloaded from the database by a '
                                'second Wallet object, serialises with a scriptSig that commits to the 1-of-n script '
                                'instead of the m-of-n witness script of the bytes that were pushed' % txid[:12]))
                elif txid in reser and reser[txid] != pr:
                    bad.append(('reload_reserialises_differently', 'sent transaction %s, reloaded from the database by a '
                                'second Wallet object, serialises to different bytes than were pushed (%s...)'
                                % (txid[:12], reser[txid][:24])))
                v = views.get(txid)
                if v is not None and v[4] not in ('-', '', None) and v[4] != pr:
                    bad.append(('stored_raw_not_pushed_bytes', 'the raw bytes stored for sent transaction %s (rawtx of the '
                                'reloaded object) are not the bytes that were pushed' % txid[:12]))
        return bad


def tx_key(t):
    return (t[1], t[2], t[3])


def parse_raw(hx):
    """Bitcoin transaction serialisation (protocol documentation / BIP144), written here and not taken from the
    library: version (4 bytes LE) [marker 00 flag 01] inputs (prev txid LE, n, script, sequence) outputs (value,
    script) [witness stacks] locktime.  The transaction id is the double SHA-256 of the serialisation without
    marker, flag and witnesses, byte-reversed.  None when the bytes do not parse exactly."""
    import hashlib
    try:
        b = bytes.fromhex(hx)
        pos = [0]

        def take(n):
            if pos[0] + n > len(b):
                raise ValueError
            r = b[pos[0]:pos[0] + n]
            pos[0] += n
            return r

        def varint():
            f = take(1)[0]
            if f < 0xfd:
                return f
            return int.from_bytes(take({0xfd: 2, 0xfe: 4, 0xff: 8}[f]), 'little')

        version = int.from_bytes(take(4), 'little')
        segwit = b[4] == 0 and b[5] == 1
        if segwit:
            take(2)
        start = pos[0]
        ins = []
        sigs, wits = [], []
        for _ in range(varint()):
            prev = take(32)[::-1].hex()
            n = int.from_bytes(take(4), 'little')
            sigs.append(take(varint()).hex())
            ins.append((prev, n, int.from_bytes(take(4), 'little')))
        outs = []
        for _ in range(varint()):
            v = int.from_bytes(take(8), 'little')
            outs.append((v, take(varint()).hex()))
        end = pos[0]
        if segwit:
            for _ in ins:
                wits.append([take(varint()).hex() for _ in range(varint())])
        lock = take(4)
        if pos[0] != len(b):
            return None
        txid = hashlib.sha256(hashlib.sha256(b[:4] + b[start:end] + lock).digest()).digest()[::-1].hex()
        return {'version': version, 'locktime': int.from_bytes(lock, 'little'), 'ins': ins, 'outs': outs, 'txid': txid,
                'sigs': sigs, 'wits': wits}
    except Exception:
        return None


def script_pushes(hx):
    """The data items of a script that consists of pushes only (Bitcoin script: 0x00 empty, 0x01..0x4b that many
    bytes, 0x4c / 0x4d with a 1 / 2 byte length); None when anything else occurs."""
    b = bytes.fromhex(hx)
    i, r = 0, []
    while i < len(b):
        c = b[i]
        i += 1
        if c == 0:
            n = 0
        elif c <= 0x4b:
            n = c
        elif c == 0x4c and i < len(b):
            n = b[i]
            i += 1
        elif c == 0x4d and i + 1 < len(b):
            n = int.from_bytes(b[i:i + 2], 'little')
            i += 2
        else:
            return None
        if i + n > len(b):
            return None
        r.append(b[i:i + n].hex())
        i += n
    return r


def multisig_script(hx):
    """OP_m <key> .. <key> OP_n OP_CHECKMULTISIG (BIP11 / BIP16): (m, [keys in script order]) or None."""
    b = bytes.fromhex(hx)
    if len(b) < 4 or b[-1] != 0xae or not (0x51 <= b[0] <= 0x60) or not (0x51 <= b[-2] <= 0x60):
        return None
    ks = script_pushes(b[1:-2].hex())
    if ks is None or len(ks) != b[-2] - 0x50 or any(len(k) not in (66, 130) for k in ks) or b[0] > b[-2]:
        return None
    return b[0] - 0x50, ks


def unlock_keys(p, i):
    """What the BYTES of a signed transaction say about the keys of input i: the witness script (last witness item,
    BIP141) or redeem script (last push of the scriptSig, BIP16) of a multisig input -> ('ms', m, keys in script
    order, script); the public key that ends the witness / scriptSig of a single-key input -> ('pk', 1, [key], '')."""
    items = p['wits'][i] if i < len(p['wits']) and p['wits'][i] else script_pushes(p['sigs'][i])
    if not items or len(items) < 2:
        return None
    last = items[-1]
    ms = multisig_script(last) if last else None
    if ms is not None:
        return ('ms', ms[0], ms[1], last)
    if len(last) in (66, 130) and last[:2] in ('02', '03', '04'):
        return ('pk', 1, [last], '')
    return None


def threshold_only_diff(sent_hex, reloaded_hex):
    """Class predicate of reload_multisig_threshold on bytes, from the case alone: the two serialisations agree in
    everything except the scriptSig of inputs whose witness ends in an m-of-n multisig script with m > 1, where the
    sent bytes push 0x0020 || SHA256(witness script) (BIP141 P2SH-P2WSH) and the reloaded object pushes 0x0020 ||
    SHA256(the same script with OP_m replaced by OP_1)."""
    import hashlib
    a, b = parse_raw(sent_hex), parse_raw(reloaded_hex)
    if a is None or b is None or any(a[k] != b[k] for k in ('version', 'locktime', 'ins', 'outs', 'wits')):
        return False
    if len(a['sigs']) != len(b['sigs']) or a['sigs'] == b['sigs']:
        return False
    for n, (x, y) in enumerate(zip(a['sigs'], b['sigs'])):
        if x == y:
            continue
        ws = a['wits'][n][-1] if n < len(a['wits']) and a['wits'][n] else ''
        ms = multisig_script(ws) if ws else None
        if ms is None or ms[0] < 2:
            return False
        if x != '220020' + hashlib.sha256(bytes.fromhex(ws)).hexdigest() or \
                y != '220020' + hashlib.sha256(bytes.fromhex('51' + ws[2:])).hexdigest():
            return False
    return True


def parse_ind(s):
    """txid -> [(index, address, script type, witness type, sequence, value, sigs required, [keys], redeem script)]"""
    res = {}
    for tok in (s or '').split(','):
        if not tok:
            continue
        txid, _, body = tok.partition('~')
        ins = []
        for x in (body.split(';') if body != '-' else []):
            a = x.split('/')
            ins.append((int(a[0]), a[1], a[2], a[3], int(a[4]), int(a[5]), int(a[6]),
                        [] if a[7] == '-' else a[7].split('.'), a[8]))
        res[txid] = ins
    return res


IND_NAMES = ('index', 'address', 'script type', 'witness type', 'sequence', 'value', 'signatures required', 'public keys',
             'redeem script')


def inputs_fidelity(self, o):
    """Round 4, "stored transactions reload with the same inputs": for every transaction the wallet has sent and still
    holds, the inputs of the object returned by transaction(txid) (wallet object; second Wallet object) are the inputs
    of the object that was sent (address, script type, witness type, sequence, value, public keys IN ORDER, redeem
    script), and the public keys / redeem script are those the sent BYTES carry (witness script / redeem script /
    public key of the input, read by parse_raw, not by the library).  The number of required signatures (field and
    first byte of the redeem script) is compared only while the class reload_multisig_threshold is recorded."""
    bad = []
    sent = parse_ind(o.get('ind_sent'))
    gate = threshold_gate()
    for field, who in (('ind', 'the wallet object'), ('ind2', 'a second Wallet object')):
        if field not in o:
            continue
        views = parse_ind(o[field])
        for txid in sorted(self.sent_view):
            v = views.get(txid)
            if v is None:
                continue
            s = sent.get(txid)
            if s is not None:
                if len(s) != len(v):
                    bad.append(('reload_input_differs', 'sent transaction %s had %d inputs, reloaded through %s it has %d'
                                % (txid[:12], len(s), who, len(v))))
                    continue
                for a, b in zip(s, v):
                    for j in (0, 1, 2, 3, 4, 5, 7):
                        if a[j] != b[j]:
                            bad.append(('reload_input_differs', 'input %d of sent transaction %s: %s was %s, reloaded '
                                        'through %s it is %s' % (a[0], txid[:12], IND_NAMES[j], str(a[j])[:220], who, str(b[j])[:220])))
                            break
                    else:
                        # (a redeem / witness script is part of script-hash inputs only: for single-key inputs the
                        # attribute holds the script code used while signing and is not compared)
                        if multisig_script(a[8]) is None if a[8] != '-' else multisig_script(b[8]) is None if b[8] != '-' else True:
                            continue
                        if a[8][2:] != b[8][2:]:
                            bad.append(('reload_input_differs', 'input %d of sent transaction %s: redeem script was %s, '
                                        'reloaded through %s it is %s' % (a[0], txid[:12], a[8][:80], who, b[8][:80])))
                        elif gate and (a[6] != b[6] or a[8] != b[8]):
                            bad.append((KNOWN_THRESHOLD, 'input %d of sent transaction %s required %d signatures (redeem '
                                        'script %s..), reloaded through %s it requires %d (redeem script %s..)'
                                        % (a[0], txid[:12], a[6], a[8][:8], who, b[6], b[8][:8])))
            raw = self.sent_view[txid][2]
            p = parse_raw(raw) if raw and raw != '-' else None
            if p is None or len(p['ins']) != len(v):
                continue
            for n, b in enumerate(v):
                uk = unlock_keys(p, n)
                if uk is None:
                    continue
                if b[7] != uk[2]:
                    bad.append(('reload_keys_not_of_script', 'input %d of sent transaction %s, reloaded through %s, lists the '
                                'public keys %s; the %s in the bytes that were sent has %s'
                                % (n, txid[:12], who, '.'.join(k[:10] for k in b[7]) or '-',
                                   'witness / redeem script' if uk[0] == 'ms' else 'signature data',
                                   '.'.join(k[:10] for k in uk[2]))))
                elif uk[0] == 'ms' and b[8] != '-' and b[8][2:] != uk[3][2:]:
                    bad.append(('reload_keys_not_of_script', 'input %d of sent transaction %s, reloaded through %s, has redeem '
                                'script %s..., the bytes that were sent carry %s...' % (n, txid[:12], who, b[8][:40], uk[3][:40])))
                elif uk[0] == 'ms' and gate and (b[6] != uk[1] or (b[8] != '-' and b[8] != uk[3])):
                    bad.append((KNOWN_THRESHOLD, 'input %d of sent transaction %s spends a %d-of-%d script; reloaded through '
                                '%s it requires %d signatures (redeem script %s..)'
                                % (n, txid[:12], uk[1], len(uk[2]), who, b[6], b[8][:8])))
    return bad


def key_listing(self, o):
    """utxos(key_id=k) lists exactly that key's unspent outputs: they sum to the key's balance, whatever kind of key it
    is (derived, imported public key, address without key material) and whatever account it belongs to."""
    bad = []
    kb = parse_kb(o['kb_orm'])
    for tok in (o.get('ku') or '').split(','):
        if not tok:
            continue
        kid, total, cnt, foreign = (int(x) for x in tok.split(':'))
        if foreign:
            bad.append(('keyutxos_other_key', 'utxos(key_id=%d) lists %d unspent outputs of other keys' % (kid, foreign)))
        elif total != kb.get(kid, 0):
            bad.append(('keyutxos_ne_keybal', 'key %d has balance %d but utxos(key_id=%d) lists %d outputs summing to %d'
                        % (kid, kb.get(kid, 0), kid, cnt, total)))
    return bad


def fidelity(self, o, reser):
    """Transactions whose bytes are fixed (made elsewhere and imported as raw bytes / object / dict; fully signed when
    stored): once stored, the object reloaded by a second Wallet serialises to those bytes and carries the version,
    locktime, sequences and amounts those bytes encode (read by parse_raw, not by the library)."""
    bad = []
    for tok in (o.get('fixed') or '').split(','):
        if not tok:
            continue
        txid, raw = tok.split('~')
        p = parse_raw(raw)
        if p is None:
            bad.append(('fixed_bytes_unparsable', 'the signed bytes of transaction %s do not parse as a transaction'
                        % txid[:12]))
            continue
        # (the offline provider of the test network answers a broadcast with the hash of ALL bytes, which send() adopts)
        import hashlib
        sent_as = hashlib.sha256(hashlib.sha256(bytes.fromhex(raw)).digest()).digest()[::-1].hex()
        v1 = parse_raw('01000000' + raw[8:])
        if txid not in (p['txid'], sent_as) and p['version'] != 1 and v1 is not None and txid == v1['txid']:
            # class predicate, from the case alone: the id in use is the id of the same bytes with the version field 1
            bad.append((KNOWN_STALE_TXID, 'transaction %s (version %d) is held by the wallet under the id of its '
                        'version-1 serialisation; the id of its bytes is %s' % (txid[:12], p['version'], p['txid'][:12])))
            continue
        if txid not in (p['txid'], sent_as):
            bad.append(('txid_not_of_bytes', 'transaction %s: the id the wallet uses is not the id of its bytes (%s)'
                        % (txid[:12], p['txid'][:12])))
            continue
        if txid not in reser:
            continue
        r = reser[txid]
        if r[1] != raw and threshold_only_diff(raw, r[1]):
            bad.append((KNOWN_THRESHOLD + ':scriptsig', 'transaction %s, stored and reloaded by a second Wallet object, '
                        'serialises with a scriptSig that commits to the 1-of-n script instead of the m-of-n witness '
                        'script of its bytes' % txid[:12]))
        elif r[1] != raw:
            bad.append(('stored_reserialises_differently', 'transaction %s (version %d, locktime %d), stored and reloaded '
                        'by a second Wallet object, serialises to %s... instead of %s...'
                        % (txid[:12], p['version'], p['locktime'], r[1][:16], raw[:16])))
        if len(r) >= 7:
            for name, got, want in (('version', r[3], str(p['version'])), ('locktime', r[4], str(p['locktime'])),
                                    ('sequences', r[5], '/'.join(str(i[2]) for i in p['ins'])),
                                    ('amounts', r[6], '/'.join(str(v[0]) for v in p['outs']))):
                if got != want:
                    bad.append(('reload_field_differs:' + name, 'transaction %s reloads with %s %s, its bytes say %s'
                                % (txid[:12], name, got[:40], want[:40])))
    return bad


def durable(self, o):
    """The first reading after the operation, made through a second Wallet object (or another process) before any
    call on the live object, against what the live object reports afterwards: the operation's effect is in the file.
    A transaction the wallet deleted is not returned by either."""
    bad = []
    if 'utxos_pre' not in o:
        return bad
    if o['utxos_pre'] != o['utxos']:
        bad.append(('not_durable:utxos', 'directly after the operation a second Wallet object on the database lists '
                    'other unspent outputs (%d) than the wallet object itself (%d)'
                    % (len(parse_utxos(o['utxos_pre'])), len(parse_utxos(o['utxos'])))))
    pre = {g: u for g, u in (x.split('~') for x in o.get('pa_pre', '').split('+') if x)}
    for g, b, gl in parse_pa(o.get('pa', '')):
        if g in pre and sorted(parse_utxos(pre[g])) != sorted(gl):
            bad.append(('not_durable:utxos', 'directly after the operation a second Wallet object lists other unspent '
                        'outputs for account %s than the wallet object itself' % g))
    ids = set(x for x in o.get('pre_txids', '').split(',') if x)
    live = {t[0]: tx_key(t) for t in split_txs(o['txs']) if t[0] in ids}
    second = {t[0]: tx_key(t) for t in split_txs(o['txs_pre'])}
    for txid in sorted(set(live) | set(second)):
        if live.get(txid) != second.get(txid):
            how = ('is not stored for' if txid not in second else 'is still stored for' if txid not in live
                   else 'has other inputs / outputs / spent flags for')
            bad.append(('not_durable:txs', 'directly after the operation transaction %s %s a second Wallet object on '
                        'the database, unlike for the wallet object itself' % (txid[:12], how)))
    present = set(t[0] for t in split_txs(o['txs'])) | set(second)
    for txid in sorted(self.deleted & present):
        bad.append(('deleted_tx_present', 'transaction %s was deleted with transaction_delete and is returned by '
                    'transaction() again' % txid[:12]))
    return bad


def untouched(self, o):
    """Between two observations of this wallet only OTHER wallets of the file were used: its unspent outputs and
    stored transactions are what they were, except that an outpoint consumed by a transaction another wallet
    broadcast in between may have become spent (it is spent on the network)."""
    bad = []
    ut = set(parse_utxos(o['utxos']))
    for g, b, gl in parse_pa(o.get('pa', '')):
        ut |= set(gl)
    txs = {t[0]: t for t in split_txs(o['txs'])}
    if self.prev is not None and not self.own_dirty:
        put, ptxs = self.prev
        if ut - put:
            u = sorted(ut - put)[0]
            bad.append(('other_wallet_changed', 'an operation on another wallet of the file made %s:%d an unspent '
                        'output of this wallet' % (u[0][:12], u[1])))
        gone = [u for u in put - ut if (u[0], u[1]) not in self.foreign]
        if gone:
            bad.append(('other_wallet_changed', 'an operation on another wallet of the file removed %s:%d from the '
                        'unspent outputs of this wallet' % (gone[0][0][:12], gone[0][1])))
        for txid in sorted(set(txs) | set(ptxs)):
            a, b = ptxs.get(txid), txs.get(txid)
            same = a is not None and b is not None and a[1] == b[1] and a[2] == b[2] and len(a[3]) == len(b[3]) and \
                all(x[:3] == y[:3] and (x[3] == y[3] or (x[3] == '0' and y[3] == '1' and (txid, x[0]) in self.foreign))
                    for x, y in zip(a[3], b[3]))
            if not same:
                bad.append(('other_wallet_changed', 'an operation on another wallet of the file changed the stored '
                            'transaction %s of this wallet' % txid[:12]))
                break
    self.prev = (ut, txs)
    self.own_dirty = False
    self.foreign = set()
    return bad


def per_account(self, o, ut, spent_now):
    """The balance clauses for EVERY account of the wallet, on the implementation's own answers:
    balance(account_id=a) == sum utxos(account_id=a) == sum of the balances of the keys of account a; every key
    balance == that key's unspent outputs over all accounts; the default account's named readings are the
    default readings; nothing listed for any account is consumed by a sent transaction the wallet holds."""
    bad = []
    ka = parse_ka(o['ka'])
    for k in sorted(ka):
        if self.key_acct.setdefault(k, ka[k]) != ka[k]:
            bad.append(('acct_key_moved', 'key %d was created in account %s and is now listed in account %s'
                        % (k, self.key_acct[k].split('.')[1], ka[k].split('.')[1])))
            break
    allut = []
    for g, b, gl in parse_pa(o['pa']):
        acct = g.split('.')[1] if g.startswith('0.') else g.split('.')[1] + ', network #' + g.split('.')[0]
        gsum = sum(u[2] for u in gl)
        if b != gsum:
            bad.append(('acct_balance_ne_unspent', 'balance(account_id=%s) = %d but utxos(account_id=%s) sum to %d'
                        % (acct, b, acct, gsum)))
        for name, when in (('kb', 'after balance()'), ('kbA', 'after balance(account_id=..)')):
            ks = sum(v for k, v in parse_kb(o[name]).items() if ka.get(k) == g)
            if ks != gsum:
                bad.append(('acct_keysum_ne_unspent:' + name, 'the balances of the keys of account %s (read %s) sum '
                            'to %d, utxos(account_id=%s) sum to %d' % (acct, when, ks, acct, gsum)))
        for u in gl:
            if (u[0], u[1]) in spent_now:
                bad.append(('consumed_listed_unspent', 'output %s:%d was consumed by a sent transaction the wallet '
                            'holds and is listed by utxos(account_id=%s)' % (u[0][:12], u[1], acct)))
        if g == self.dflt and (b != int(o['bal']) or sorted(gl) != sorted(ut)):
            bad.append(('default_ne_named_account', 'balance()/utxos() = %s/%d outputs, balance/utxos(account_id=%s)'
                        ' = %d/%d outputs' % (o['bal'], len(ut), acct, b, len(gl))))
        allut += gl
    per_key = {}
    for u in allut:
        per_key[u[3]] = per_key.get(u[3], 0) + u[2]
    for name in ('kb', 'kbA'):
        kb = parse_kb(o[name])
        d = [k for k in set(kb) | set(per_key) if kb.get(k, 0) != per_key.get(k, 0)]
        if d:
            bad.append(('acct_keybal_ne_unspent:' + name, 'key %d has balance %d, its unspent outputs over all '
                        'accounts sum to %d' % (d[0], kb.get(d[0], 0), per_key.get(d[0], 0))))
    return bad


Oracle.per_account = per_account
Oracle.key_listing = key_listing
Oracle.inputs_fidelity = inputs_fidelity
Oracle.fidelity = fidelity
Oracle.durable = durable
Oracle.untouched = untouched


def split_txs(s):
    """Parse the transaction view text: txid~conf~ins~outs[~raw] joined by ',' (ins/outs use ',' too)."""
    res = []
    for m in re.finditer(r'([0-9a-f]{64})~(\d+)~([^~]*)~([^~]*?)(?:~([0-9a-f-]+))?(?=,[0-9a-f]{64}~|$)', s):
        ins = sorted((int(a[0]), a[1], int(a[2]), int(a[3])) for a in (x.split('/') for x in m.group(3).split(',') if x))
        outs = sorted((int(a[0]), int(a[1]), a[2], a[3]) for a in (x.split('/') for x in m.group(4).split(',') if x))
        res.append((m.group(1), int(m.group(2)), ins, outs, m.group(5)))
    return res


CMP_FIELDS = ('kbpre', 'utxos_pre', 'txs_pre', 'pa_pre', 'bal', 'utxos', 'kb', 'txs', 'pa', 'kbA', 'ka')
# failure classes that a cross-account output explains (the per-account sums and what follows from them); the
# clauses about spent outputs, reload and the second wallet object stay as they are
CROSS_EXPLAINS = ('acct_', 'keysum_ne_unspent', 'keybal_ne_unspent', 'balance_ne_unspent', 'default_ne_named_account',
                  'model_differs:', 'select_inadmissible', 'keyutxos_')


def judge(r, mout):
    """Compare one executed history with the model.  Returns (failures, stats): the first failure of every class,
    failure = dict(step=i, opi=k, cls=.., what=.., kind='property'|'correspondence'|'crash'); opi = number of
    operations of the history executed up to and including step i.  The property oracle (one per wallet of the file)
    keeps running after a failure; the model comparison stops at the first divergence (the states differ from there)."""
    stats = {'steps': 0, 'nontrivial': 0, 'guard_false': 0, 'errs': 0, 'touches': 0, 'refused': 0, 'quiet': 0}
    if 'crash' in r:
        return [{'step': -1, 'opi': 0, 'cls': 'adapter_crash', 'what': r['crash'], 'kind': 'crash'}], stats
    msteps = parse_model(r, mout) if mout is not None else None
    orcs = {}
    prevs = {}
    fails, seen = [], set()
    opi = 0

    def add(f):
        if f['cls'] not in seen:
            seen.add(f['cls'])
            f['opi'] = opi
            fails.append(f)

    model_alive = msteps is not None
    respent = False        # model class predicate store_respends held at some earlier step of this history
    crossed = False        # model class predicate has_cross held after this or an earlier step
    for i, s in enumerate(r['steps']):
        wid = s.get('wid', 0)
        if s['op'] not in ('create', '@obs'):
            opi += 1
        if s['obs'] is None:
            add({'step': i, 'cls': 'impl_crash', 'what': 'operation %s raised: %s' % (s['op'], s['err']),
                 'kind': 'property'})
            break
        if wid not in orcs:
            orcs[wid] = Oracle('0.%d' % r.get('acct', 0))
        for w2, oc in orcs.items():
            if w2 != wid:
                oc.foreign_op(s)
        obs = observed(s)
        if obs:
            stats['steps'] += 1
        else:
            stats['quiet'] += 1
        if s['err']:
            stats['errs'] += 1
        if msteps is not None and msteps[i][3]:
            respent = True
        if msteps is not None and msteps[i][2] is not None and msteps[i][2].get('x') == '1':
            crossed = True
        for cls, what in orcs[wid].step(s):
            if respent and cls in ('consumed_listed_unspent', 'reselected'):
                cls = 'restore_resets_spent'
            elif crossed and cls.startswith(CROSS_EXPLAINS):
                cls = KNOWN_CROSS + ':' + cls
            add({'step': i, 'cls': cls, 'what': what, 'kind': 'property'})
        if msteps is not None:
            guards, sels, mo, _, refused, touches = msteps[i]
            if not all(guards):
                stats['guard_false'] += 1
            if touches:
                stats['touches'] += 1
            if refused:
                stats['refused'] += 1
        if model_alive:
            pre = KNOWN_CROSS + ':' if crossed else ''
            if not all(sels):
                add({'step': i, 'cls': pre + 'select_inadmissible', 'kind': 'correspondence',
                     'what': 'the implementation selected an input the model does not list as spendable in the '
                             'account the call named'})
            if refused != (s['err'] or '').startswith('ERR refused'):
                add({'step': i, 'cls': 'model_differs:refused', 'kind': 'correspondence',
                     'what': 'after %s: the model %s the deletion, the implementation %s' %
                             (s['op'], 'refuses' if refused else 'performs', 'raised' if not refused else 'did not')})
                model_alive = False
        if model_alive and obs:
            for f in CMP_FIELDS:
                if f not in s['obs']:
                    continue
                if mo.get(f) != s['obs'][f]:
                    add({'step': i, 'cls': pre + 'model_differs:' + f, 'kind': 'correspondence',
                         'what': 'after %s the implementation and the model differ on %s (wallet %d of the file)'
                                 % (s['op'], f, wid),
                         'impl': s['obs'][f][:1500], 'model': (mo.get(f) or '')[:1500]})
                    model_alive = False
                    break
        if obs:
            cur = tuple(s['obs'].get(f) for f in ('bal', 'utxos', 'kb', 'txs', 'pa'))
            if wid in prevs and cur != prevs[wid]:
                stats['nontrivial'] += 1
            prevs[wid] = cur
    # a divergence from the model in a history where the property oracle also fails is reported through the oracle
    if any(f['kind'] == 'property' for f in fails):
        fails = [f for f in fails if f['kind'] != 'correspondence']
    return fails, stats


def execute(hs, rundir, exe):
    rs, errs = run_impl_parallel(hs, rundir)
    if errs:
        return None, None, errs
    lines = [model_line(r) if 'crash' not in r else 'noop' for r in rs]
    mouts = [None] * len(rs)
    if exe:
        rc, outs, err = run_driver(exe, lines)
        if len(outs) != len(lines):
            return None, None, ['driver produced %d answers for %d requests: %s' % (len(outs), len(lines), err[-300:])]
        mouts = outs
        for i, o in enumerate(outs):
            if o.startswith('CRASH') or o == 'BADREQ':
                mouts[i] = None if 'crash' in rs[i] else o
    return rs, mouts, []


def safe_judge(r, mo):
    if isinstance(mo, str) and (mo.startswith('CRASH') or mo == 'BADREQ'):
        return [{'step': -1, 'opi': 0, 'cls': 'driver_crash', 'what': 'model driver: ' + mo[:200], 'kind': 'correspondence'}], \
               {'steps': 0, 'nontrivial': 0, 'guard_false': 0, 'errs': 0, 'touches': 0, 'refused': 0, 'quiet': 0}
    return judge(r, mo)


def shrink(h, fail, rundir, exe, budget=14):
    """Delta debugging on the operation list: keep the smallest list that still fails in the same class."""
    kind, hid, ops = h
    ops = ops[:max(1, fail['opi'])] if fail.get('opi', 0) > 0 else ops      # drop what follows the failing operation
    cls = fail['cls']
    n = 2
    rounds = 0
    while len(ops) >= 2 and rounds < budget:
        rounds += 1
        size = max(1, len(ops) // n)
        cands = []
        for st in range(0, len(ops), size):
            c = ops[:st] + ops[st + size:]
            if c and c not in cands:
                cands.append(c)
        rs, mouts, errs = execute([(kind, hid, c) for c in cands], os.path.join(rundir, 'shrink'), exe)
        if errs:
            break
        hit = None
        for c, r, mo in zip(cands, rs, mouts):
            fs, _ = safe_judge(r, mo)
            f = next((x for x in fs if x['cls'] == cls), None)
            if f is not None:
                k = f['opi'] if f.get('opi', 0) > 0 else len(c)
                hit = (c[:k], f)
                break
        if hit:
            ops, fail = hit
            n = max(n - 1, 2)
        elif size == 1:
            break
        else:
            n = min(len(ops), n * 2)
    return (kind, hid, ops), fail


# ---------------------------------------------------------------- known findings
def classify_known(fail, known):
    for e in known:
        if e.get('status') == 'known' and e.get('class') and fail['cls'].startswith(e['class']):
            return e
    return None


def reproduce_known(entry, rundir, exe):
    w = entry['witness']
    t = w['request'].split(' ')
    h = (t[1], t[2], t[3].split(','))
    rs, mouts, errs = execute([h], os.path.join(rundir, 'known'), exe)
    if errs:
        return False
    fs, _ = safe_judge(rs[0], mouts[0])
    return any(f['cls'].startswith(entry['class']) for f in fs)


# ---------------------------------------------------------------- main
def main(tier, seed, replay=None):
    res = Result(PROP, tier, seed)
    rundir = run_dir(PROP)
    rng = random.Random(seed)
    proof_ok, broken = True, []

    bad = [b for b in scan_forbidden()]
    if bad:
        proof_ok = False
        broken.append('forbidden tokens in development: ' + '; '.join(bad[:5]))
    ok, out = coq_make(COQ_FILES, timeout=2400)
    if not ok:
        proof_ok = False
        m = re.search(r'File "\./([^"]+)", line (\d+)[^\n]*\n(Error:[^\n]*(?:\n[^\n]*){0,6})', out)
        broken.append('coq build failed: ' + (('%s line %s: %s' % (m.group(1), m.group(2), m.group(3))) if m else out[-600:]))
    else:
        pok, thms, pout = check_properties_file(COQ_FILES[-1], ALLOWED_AXIOMS, res)
        if not pok:
            proof_ok = False
            broken.append('Properties file: ' + pout[-400:])
    res.trusted.insert(0, 'Coq 8.16.1 kernel + VM (vm_compute); native_compute not used')
    res.trusted.append(core.EXTRACTION_TB)
    res.trusted.append('harness/props/c08.py, harness/impl/c08_impl.py (public Wallet API, PYTHONPATH=%s, fresh '
                       'BCL_DATA_DIR and sqlite file per history, bitcoinlib_test provider wrapped by a recording '
                       'subclass of Service which answers for the second network from a deterministic stub), '
                       'ocaml/c08_driver.ml' % core.REPO)
    exe, dout = build_driver(DRIVER)
    if exe is None:
        proof_ok = False
        broken.append('driver build failed: ' + dout[-400:])

    if replay:
        rp = json.load(open(replay))
        hs = [(rp['kind'], rp['hid'], rp['ops'])] if 'ops' in rp else []
    else:
        # operations of a recorded finding class are generated once its entry is present (they are then counted as
        # known); without the entry they would be reported as violations on every run
        cross = any(e.get('status') == 'known' and e.get('class') == KNOWN_CROSS for e in load_known(PROP))
        hs = gen_histories(rng, tier if proof_ok else 'thorough', cross=cross,
                           shared_delete=known_status(KNOWN_SHARED_DELETE) in ('known', 'fixed'),
                           stale=known_status(KNOWN_STALE_TXID) == 'known', thr=threshold_gate())

    known = load_known(PROP)
    failing_input_found = False
    if hs:
        rs, mouts, errs = execute(hs, rundir, exe)
        if errs:
            res.notes += errs
            print('note: adapter/driver failure; machinery error', file=sys.stderr)
            finish(res, ASSUMPTIONS, RULE)
            sys.exit(2)
        nviol = 0
        seen_cls = set()
        for h, r, mo in zip(hs, rs, mouts):
            fs, st = safe_judge(r, mo)
            res.evaluations += st['steps']
            res.count('kind:' + h[0].partition('+')[0])
            lastobs = next((x['obs'] for x in reversed(r.get('steps', [])) if observed(x)), None) if 'steps' in r else None
            if lastobs:
                res.count('accounts:%d' % len(obs_groups(lastobs).split(',')))
            res.count('ops', len(h[2]))
            res.count('steps_with_error_answer', st['errs'])
            res.count('steps_guard_false', st['guard_false'])
            res.count('steps_without_observation', st['quiet'])
            res.count('sends_marking_rows_of_another_wallet', st['touches'])
            res.count('deletes_refused_shared_txid', st['refused'])
            if 'steps' in r:
                res.count('wallets_in_file:%d' % len(set(x.get('wid', 0) for x in r['steps'])))
                for fl in h[0].partition('+')[2]:
                    res.count('flag:' + fl)
                prevs = {}
                for n, s in enumerate(r['steps']):
                    res.count('op:' + s['op'].rstrip('!').split(':')[0])
                    if s['obs'] is None:
                        break
                    if not observed(s):
                        continue
                    cur = (s['obs']['bal'], s['obs']['utxos'], s['obs']['kb'], s['obs']['txs'], s['obs'].get('pa'))
                    wid = s.get('wid', 0)
                    if wid in prevs and cur != prevs[wid]:
                        res.distinct.add((h[0], h[1], n))
                    prevs[wid] = cur
            if len(res.samples) < 6 and 'steps' in r and len(h[2]) >= 3:
                last = lastobs or {}
                res.samples.append({'kind': h[0], 'ops': ' '.join(h[2])[:400], 'final_balance': last.get('bal'),
                                    'final_unspent': (last.get('utxos') or '')[:200],
                                    'model_ops': ' '.join(r['steps'][1]['mops'])[:200] if len(r['steps']) > 1 else ''})
            for f in fs:
                if f['kind'] == 'crash':
                    res.notes.append('adapter crash on %s: %s' % (req_line(h), f['what']))
                    print('note: adapter crash; machinery error', file=sys.stderr)
                    finish(res, ASSUMPTIONS, RULE)
                    sys.exit(2)
                ke = classify_known(f, known)
                if ke is not None:
                    res.count('known:' + ke['class'])
                    continue
                nviol += 1
                if f['cls'] in seen_cls and not replay:
                    res.count('further:' + f['cls'])
                    continue
                seen_cls.add(f['cls'])
                if len(seen_cls) > 8:
                    continue
                hm, fm = (h, f) if replay else shrink(h, f, rundir, exe)
                payload = {'kind': hm[0], 'hid': hm[1], 'ops': hm[2], 'class': fm['cls'], 'step': fm['step'],
                           'request': req_line(hm), 'detail': {k: v for k, v in fm.items() if k in ('impl', 'model')},
                           'original_length': len(h[2]), 'replay_cmd': './check C08 --replay <this file>'}
                if fm['kind'] == 'property':
                    failing_input_found = True
                    violation(res, 'property fails on the implementation: ' + fm['what'], payload)
                else:
                    violation(res, 'correspondence broken (model and implementation differ; the property-level '
                                   'oracle finds no violation in this history): ' + fm['what'], payload,
                              has_input=False)
        if nviol:
            res.notes.append('%d failures in %d classes' % (nviol, len(seen_cls)))

    for e in known:
        if e.get('status') != 'known':
            continue
        try:
            rep = reproduce_known(e, rundir, exe)
        except Exception as ex:
            rep = False
            res.notes.append('known finding %s: reproduction crashed: %r' % (e['id'], ex))
        if rep:
            res.known_hits.append(e['id'])
            print('KNOWN-FINDING: property=%s %s' % (PROP, e['what_fails']))
        else:
            res.stale_known.append(e['id'])

    if not proof_ok and not failing_input_found:
        violation(res, 'proof obligation no longer checks: ' + ' | '.join(broken),
                  {'obligation': broken, 'note': 'history differential + property-level oracle found no failing input'},
                  has_input=False)
    elif not proof_ok:
        res.notes.append('proof side broken: ' + ' | '.join(broken))
    res.distinct = set(res.distinct)
    return finish(res, ASSUMPTIONS, RULE)
