"""C08 — wallet ledger stays consistent over any history and survives reopening.

History differential: random operation sequences are executed against a real Wallet (harness/impl/c08_impl.py) and
against the extracted Gallina state machine (coq/Model/Ledger.v via ocaml/c08_driver.ml).  After EVERY operation
balance(), utxos(), the per-key balances, the stored transactions and balance / utxos of EVERY (network, account)
group of the wallet are compared, and the property statement is evaluated on the implementation's own answers by an
oracle that does not use the model (Oracle.step / per_account), for every group.
Failing histories are shrunk to a minimal operation list before the replay is written."""
import json, os, random, re, sys, threading, time
import core
from core import Result, coq_make, check_properties_file, build_driver, run_driver, run_impl, violation, finish, \
    load_known, scan_forbidden, run_dir

PROP = 'C08'
COQ_FILES = ['Extract/C08.v', 'Properties/C08.v']
DRIVER = 'c08'
IMPL = 'harness/impl/c08_impl.py'
ALLOWED_AXIOMS = []
MODEL_VARIANT = '1 1'      # the model mirrors the repository with fixes/C08-1 (cache reset + loaded-key sync) and C08-2
WORKERS = 8
ASSUMPTIONS = [
    'theorems are about coq/Model/Ledger.v: a state machine over (keys with persisted balance, transactions with '
    'input/output rows and spent flags, Wallet._balances) mirroring Wallet._balance_update, balance, utxos, '
    'utxos_update/utxo_add, WalletTransaction.store/send/delete and the reload in Wallet.__init__',
    'tie to /repo: history differential on every run; the operations fed to the model carry what the environment '
    'supplied (provider answers, selected inputs, signed transaction data); every ledger effect is recomputed by '
    'the model and compared after every operation',
    'the step theorems carry the precondition op_ok (fresh key ids, keys of outputs exist in the transaction\'s '
    '(network, account), no sent transaction already consumes an output of the transaction being stored, input '
    'rows after store() are the object\'s inputs); the driver evaluates op_ok on every step of every real history '
    'and the harness reports a step where it is false',
    'partial: SQLAlchemy session/identity-map behaviour, sqlite isolation and Python object lifetime are not in '
    'the Gallina model; they are reached only through the differential (readings through the same Wallet object, '
    'through WalletKey objects and through a second Wallet object on the same file are all compared)',
    'coin selection itself (which unspent outputs are picked) is taken from the implementation and checked for '
    'admissibility (Select); sweep completeness and amounts are C07',
    'several accounts and networks: the HD histories open up to 3 accounts on the wallet\'s network (bitcoinlib_test, '
    'built-in offline provider) and up to 2 on a second network (litecoin; its provider is a deterministic stub in '
    'the adapter: one confirmed output per address, fixed fee rate, broadcast = txid), create keys of the groups in '
    'interleaved key-id order, and name the (network, account) group in new_key / get_key / utxos_update / send_to / '
    'sweep; after every operation balance(account_id, network), utxos(account_id, network) and the key balances '
    'are read for EVERY group (and compared with the model\'s BalanceOf / UtxosOf steps), and the independent '
    'oracle checks balance(group) == sum utxos(group) == sum of the balances of the keys of the group for every '
    'group, every key balance == that key\'s unspent outputs, and that no key changes its account',
    'not exercised by default (recorded-finding class cross_account_output, proposed in fixes/C08-known-multiacct.json; '
    'generated as soon as that entry is in known_findings.json / VERIF_EXTRA_KNOWN): operations that put an output of '
    'a key of one account into a transaction row filed under another account (utxo_add on a key of a non-default '
    'account, sweep of a non-default account to an own address, payments between accounts of the wallet, '
    'transaction_import of another account\'s transaction).  There the Gallina model is NOT faithful (it keeps the '
    'key\'s group and sums a key\'s rows over all groups; the library overwrites DbKey.account_id and keeps the last '
    '(key, account) row); the theorems exclude the class through op_ok, has_cross decides it on the model state',
    'accounts on the second network are always named with their account id (balance(network=n) without account_id '
    'resolves the account from the key table; not modelled); transactions_update / scan need a provider with '
    'gettransactions and are not exercised; mixed witness types in one wallet are not exercised',
]
RULE = ('random histories over {new_key, get_key, new_account (own and second network), utxos_update (rescan / no '
        'rescan / one key / naming an account or network), utxo_add and utxos_update(utxos=..) (colliding outpoints), '
        'send_to / sweep (own or external destination, broadcast or not, min_confirms 0/1, from any (network, account) '
        'group), later broadcast / store / import / reload of a created transaction, transaction_delete, reopen} for HD '
        '(segwit, legacy, p2sh-segwit; half of them with several accounts, a quarter with a second network), single-key '
        'and 2-of-2 multisig wallets; corpus histories with interleaved key ids of two accounts / two networks; one '
        'evaluation = one operation followed by a full observation (default readings, then balance / utxos of every '
        'group, key balances and key groups) compared with the model; a step is non-trivial when it changed balance, '
        'unspent set, per-key balances, stored transactions or a per-group reading; distinct by (kind, operation prefix)')

KINDS_QUICK = ['hd'] * 5 + ['hdl', 'hdp', 'single', 'single', 'ms']
KNOWN_CROSS = 'cross_account_output'


# ---------------------------------------------------------------- generator
def gen_history(rng, lo, hi, multi=False, cross=False, nets=False):
    """multi: the history opens further accounts and most calls name one (suffix :A, an index into the wallet's list
    of (network, account) groups at that moment).  nets: also accounts on a second network.  cross: also operations
    that put an output of a key of one account into a transaction filed under another account (recorded finding
    class cross_account_output)."""
    n = rng.randrange(lo, hi + 1)
    ops = []

    def acc(p=0.75):
        """account suffix: '' = the call passes no account_id"""
        return ':%d' % rng.randrange(5 if nets else 3) if multi and rng.random() < p else ''

    def own():
        return rng.choice(['o', 'o', 'x'] if cross else ['o']) + str(rng.randrange(6))

    for i in range(n):
        r = rng.random()
        if multi and i < 6 and rng.random() < 0.6:
            # the prologue interleaves key ids of different accounts: new_account / new_key(account_id=..) in turn
            ops.append(rng.choice(['na', 'nk:0', 'nk:1', 'nk:2', 'nk'] + (['nn', 'nn', 'nk:3', 'nk:4'] if nets else [])))
        elif i == 0 and rng.random() < 0.7:
            ops.append('uu')
        elif multi and r < 0.03:
            ops.append('nn' if nets and rng.random() < 0.5 else 'na')
        elif r < 0.06:
            ops.append('nk' + acc())
        elif r < 0.10:
            ops.append('gk' + acc())
        elif r < 0.20:
            ops.append('uu' + acc())
        elif r < 0.25:
            ops.append('un' + acc())
        elif r < 0.30:
            ops.append('uk:%d' % rng.randrange(16 if nets else 12 if multi else 6))
        elif r < 0.42:
            ops.append('%s:%d:%d:%d:%d:%d' % ('uA' if cross and rng.random() < 0.4 else 'ua',
                                               rng.randrange(16 if nets else 12 if multi else 6),
                                               rng.choice([600, 1000, 5000, 70000, 2500000, 100000000]),
                                               rng.randrange(4), rng.randrange(2), rng.choice([0, 1, 3, 10])))
        elif r < 0.60:
            a = acc()
            ops.append('st:%s:%d:%d:%d%s' % (rng.choice(['e', 'e', own()]),
                                             rng.choice([1, 100, 300, 500, 900, 990, 1000, 1200]),
                                             1 if rng.random() < 0.7 else 0, rng.choice([0, 1, 1]), a))
        elif r < 0.68:
            a = acc()
            # sweep(account_id=a) hands the transaction to send() without the account: with an own destination the
            # output would sit in a transaction of the default account (class cross_account_output)
            dest = rng.choice(['e', 'e', own()]) if (a == '' or cross) else 'e'
            ops.append('sw:%s:%d:%d%s' % (dest, 1 if rng.random() < 0.7 else 0, rng.choice([0, 1, 1]), a))
        elif r < 0.74:
            ops.append('bc:%d' % rng.randrange(8))
        elif r < 0.77:
            ops.append('ps:%d' % rng.randrange(8))
        elif r < 0.80:
            ops.append('%s:%d' % ('iM' if cross and rng.random() < 0.5 else 'im', rng.randrange(8)))
        elif r < 0.83:
            ops.append('ld:%d' % rng.randrange(12))
        elif r < 0.91:
            ops.append('de:%d' % rng.randrange(12))
        else:
            ops.append('ro')
    return ops


def gen_histories(rng, tier, cross=False):
    if tier == 'thorough':
        n, lo, hi = 1000, 5, 100
    else:
        n, lo, hi = 120, 5, 40
    hs = []
    # corpus first: the recorded witnesses
    hs.append(('hd', 'corpus0', ['uu', 'sw:e:1:1']))
    hs.append(('hd', 'corpus1', ['uu', 'st:e:300:1:1', 'de:2']))
    hs.append(('hd', 'corpus2', ['uu', 'st:e:300:0:1', 'st:e:300:0:1', 'bc:0', 'bc:1', 'de:2', 'de:3']))
    hs.append(('hd', 'corpus3', ['uu', 'st:o0:300:0:1', 'ps:0', 'st:e:990:1:0', 'bc:0', 'ro']))
    # several accounts with interleaved key ids: account 0 owns keys below and above the keys of account 1
    hs.append(('hd', 'corpus4', ['nk', 'na', 'nk:1', 'nk:0', 'uu:0', 'uu:1', 'ro']))
    hs.append(('hdl', 'corpus5', ['nk', 'na', 'nk:1', 'nk:0', 'ua:1:100000:0:0:5', 'ua:3:20000:1:0:5',
                                  'ua:5:400000:2:1:5', 'ro', 'st:e:900:1:1:0']))
    hs.append(('hd', 'corpus6', ['na', 'na', 'nk:2', 'nk:1', 'nk:0', 'uu:2', 'uu:0', 'st:o1:500:1:1:2', 'sw:e:1:1:1',
                                 'uu:1', 'sw:e:1:0:1', 'ro', 'de:3']))
    # a second network: groups (bitcoinlib_test, 0), (bitcoinlib_test, 1), (litecoin, 0) with interleaved key ids
    hs.append(('hd', 'corpus7', ['nn', 'nk', 'na', 'nk:2', 'nk:0', 'uu', 'uu:1', 'st:e:500:1:1:2', 'ro', 'sw:e:1:0:2',
                                 'ua:3:70000:1:0:3', 'de:1']))
    for i in range(n):
        kind = KINDS_QUICK[i % len(KINDS_QUICK)]
        # accounts exist for the HD kinds only (new_account needs a BIP32 master key with an account level)
        multi = kind in ('hd', 'hdl', 'hdp') and i % 2 == 0
        hs.append((kind, 'h%d_%d' % (rng.getrandbits(32), i),
                   gen_history(rng, lo, hi, multi=multi, cross=cross and multi and i % 4 == 0,
                               nets=multi and i % 4 == 2)))
    return hs


# ---------------------------------------------------------------- running
def req_line(h):
    return 'hist %s %s %s' % (h[0], h[1], ','.join(h[2]) or '-')


def run_impl_parallel(hs, rundir, workers=WORKERS):
    """Run the adapter over the histories in parallel worker processes (each with its own data directory)."""
    workers = max(1, min(workers, len(hs)))
    chunks = [[] for _ in range(workers)]
    for i, h in enumerate(hs):
        chunks[i % workers].append((i, h))
    results = [None] * len(hs)
    errs = []

    def work(wi):
        wd = os.path.join(rundir, 'w%d' % wi)
        os.makedirs(os.path.join(wd, 'data'), exist_ok=True)
        try:
            rc, outs, err = run_impl(IMPL, [req_line(h) for _, h in chunks[wi]], wd, timeout=7200)
        except Exception as e:
            errs.append('worker %d: %r' % (wi, e))
            return
        if len(outs) != len(chunks[wi]):
            errs.append('worker %d: %d answers for %d requests; stderr: %s' % (wi, len(outs), len(chunks[wi]), err[-400:]))
            return
        for (i, _), o in zip(chunks[wi], outs):
            try:
                results[i] = json.loads(o)
            except Exception:
                results[i] = {'crash': 'unparsable adapter answer: ' + o[:200]}

    ths = [threading.Thread(target=work, args=(wi,)) for wi in range(workers)]
    for t in ths:
        t.start()
    for t in ths:
        t.join()
    return results, errs


def obs_groups(o):
    """The (network, account) groups the adapter read one by one, in its order: "nw.acct,..."."""
    return ','.join(x.split('~', 1)[0] for x in o.get('pa', '').split('+') if x)


def model_line(r):
    toks = []
    for s in r['steps']:
        toks += s['mops']
        if s['obs'] is None:
            break
        toks.append(('OF' if 'txs2' in s['obs'] else 'O') + ':' + (obs_groups(s['obs']) or '-'))
    return 'hist %s 0 %d %d %s' % (MODEL_VARIANT, r['acct'], 1 if r['bip32'] else 0, ' '.join(toks))


def parse_model(r, out):
    """Split the driver's answer back into per-step (guards, selects, observation)."""
    items = out.split('|')
    j = 0
    steps = []
    for s in r['steps']:
        guards, sels, respend = [], [], False
        for m in s['mops']:
            it = dict(x.split('=', 1) for x in items[j].split(';') if '=' in x)
            j += 1
            guards.append(it.get('g') == '1')
            respend = respend or it.get('k') == '1'
            if 'sel' in it:
                sels.append(it['sel'] == '1')
        if s['obs'] is None:
            steps.append((guards, sels, None, respend))
            break
        ob = dict(x.split('=', 1) for x in items[j].split(';'))
        j += 1
        steps.append((guards, sels, ob, respend))
    return steps


# ---------------------------------------------------------------- the property, on the implementation's own answers
def parse_utxos(s):
    return [(a[0], int(a[1]), int(a[2]), int(a[3]), int(a[4])) for a in (x.split('/') for x in s.split(',') if x)]


def parse_kb(s):
    return {int(a): int(b) for a, b in (x.split(':') for x in s.split(',') if x)}


def parse_ka(s):
    """key id -> "nw.acct" as the wallet's key table says"""
    return {int(a): b for a, b in (x.split(':') for x in s.split(',') if x)}


def parse_pa(s):
    """the per-account readings: [("nw.acct", balance(account), utxos(account))]"""
    res = []
    for x in s.split('+'):
        if x:
            g, b, u = x.split('~')
            res.append((g, int(b), parse_utxos(u)))
    return res


class Oracle:
    """Independent bookkeeping from the property text: which outpoints were consumed by a transaction the wallet
    has sent (and still holds), and what each sent transaction looked like when it was sent."""

    def __init__(self, default_group='0.0'):
        self.consumed = {}       # txid -> set((prev, n))
        self.sent_view = {}      # txid -> (ins, outs, raw)
        self.dflt = default_group
        self.key_acct = {}       # key id -> "nw.acct" when the key was first listed

    def step(self, s):
        """s: one adapter step.  Returns a list of (class, message)."""
        bad = []
        spent_now = set()
        for c in self.consumed.values():
            spent_now |= c
        for m in s['mops']:
            a = m.split(':')
            if a[0] == 'C':
                for p in (a[4].split(',') if a[4] != '-' else []):
                    tx, n = p.split('/')
                    if (tx, int(n)) in spent_now:
                        bad.append(('reselected', 'a created transaction selected %s:%s which a sent transaction '
                                                  'already consumed' % (tx[:12], n)))
            elif a[0] == 'T' and a[1] == '1':
                ins = [x.split('/') for x in a[6].split(',')] if a[6] != '-' else []
                outs = [x.split('/') for x in a[7].split(',')] if a[7] != '-' else []
                self.consumed[a[2]] = set((i[1], int(i[2])) for i in ins)
                if a[2] not in self.sent_view:
                    self.sent_view[a[2]] = (sorted((int(i[0]), i[1], int(i[2]), int(i[3])) for i in ins),
                                            sorted((int(o[0]), int(o[1])) for o in outs), a[8])
            elif a[0] == 'D':
                self.consumed.pop(a[1], None)
                self.sent_view.pop(a[1], None)
        o = s['obs']
        if o is None:
            return bad
        ut = parse_utxos(o['utxos'])
        usum = sum(u[2] for u in ut)
        if not o.get('bal_exact', True) or int(o['bal']) != usum:
            bad.append(('balance_ne_unspent', 'balance() = %s but the unspent outputs listed by utxos() sum to %d'
                        % (o['bal'], usum)))
        per_key = {}
        for u in ut:
            per_key[u[3]] = per_key.get(u[3], 0) + u[2]
        ka = parse_ka(o['ka']) if 'ka' in o else None
        for name, what in (('kb', 'a second Wallet object'), ('kb_orm', 'Wallet.keys()[*].balance'),
                           ('kb_obj', 'WalletKey.balance()')):
            kb = parse_kb(o[name])
            if ka is not None:
                # balance() / utxos() without arguments speak about the default account: its keys
                kb = {k: v for k, v in kb.items() if ka.get(k) == self.dflt}
            if sum(kb.values()) != usum:
                bad.append(('keysum_ne_unspent:' + name, 'per-key balances read through %s sum to %d, unspent outputs '
                            'sum to %d' % (what, sum(kb.values()), usum)))
            elif any(kb.get(k, 0) != per_key.get(k, 0) for k in set(kb) | set(per_key)):
                bad.append(('keybal_ne_unspent:' + name, 'a per-key balance read through %s differs from that key\'s '
                            'unspent outputs' % what))
        spent_now = set()
        for c in self.consumed.values():
            spent_now |= c
        for u in ut:
            if (u[0], u[1]) in spent_now:
                bad.append(('consumed_listed_unspent', 'output %s:%d was consumed by a sent transaction the wallet '
                            'holds and is listed by utxos()' % (u[0][:12], u[1])))
        if 'pa' in o:
            bad += self.per_account(o, ut, spent_now)
        if 'txs2' in o:
            for a, b, what in (('bal', 'bal2', 'balance()'), ('utxos', 'utxos2', 'utxos()'), ('kb', 'kb2', 'key balances'),
                               ('txs', 'txs2', 'stored transactions')):
                if o[a] != o[b]:
                    bad.append(('second_wallet_differs', '%s differs between the wallet object and a second Wallet '
                                'opened on the same database' % what))
            views = {}
            for t in split_txs(o['txs']):
                views[t[0]] = t
            for txid, (ins, outs, raw) in self.sent_view.items():
                v = views.get(txid)
                if v is None:
                    bad.append(('sent_tx_missing', 'sent transaction %s is not returned by transaction()' % txid[:12]))
                    continue
                if v[2] != ins or [(n, val) for (n, val, _, _) in v[3]] != outs or v[4] != raw:
                    bad.append(('reload_differs', 'transaction %s reloads with different inputs/outputs/amounts/raw '
                                'bytes than when it was sent' % txid[:12]))
            # the reloaded OBJECT must serialise to the bytes that were sent (not only carry the stored blob)
            reser = {}
            for tok in (o.get('reser') or '').split(','):
                if tok:
                    p3 = tok.split('~')
                    reser[p3[0]] = p3[1]
            pushed = dict(tok.split('~') for tok in (o.get('pushed') or '').split(',') if tok)
            for txid in self.sent_view:
                pr = pushed.get(txid)
                if pr is None:
                    continue
                if txid in reser and reser[txid] != pr:
                    bad.append(('reload_reserialises_differently', 'sent transaction %s, reloaded from the database by a '
                                'second Wallet object, serialises to different bytes than were pushed (%s...)'
                                % (txid[:12], reser[txid][:24])))
                v = views.get(txid)
                if v is not None and v[4] not in ('-', '', None) and v[4] != pr:
                    bad.append(('stored_raw_not_pushed_bytes', 'the raw bytes stored for sent transaction %s (rawtx of the '
                                'reloaded object) are not the bytes that were pushed' % txid[:12]))
        return bad


def per_account(self, o, ut, spent_now):
    """The balance clauses for EVERY account of the wallet, on the implementation's own answers:
    balance(account_id=a) == sum utxos(account_id=a) == sum of the balances of the keys of account a; every key
    balance == that key's unspent outputs over all accounts; the default account's named readings are the
    default readings; nothing listed for any account is consumed by a sent transaction the wallet holds."""
    bad = []
    ka = parse_ka(o['ka'])
    for k in sorted(ka):
        if self.key_acct.setdefault(k, ka[k]) != ka[k]:
            bad.append(('acct_key_moved', 'key %d was created in account %s and is now listed in account %s'
                        % (k, self.key_acct[k].split('.')[1], ka[k].split('.')[1])))
            break
    allut = []
    for g, b, gl in parse_pa(o['pa']):
        acct = g.split('.')[1] if g.startswith('0.') else g.split('.')[1] + ', network #' + g.split('.')[0]
        gsum = sum(u[2] for u in gl)
        if b != gsum:
            bad.append(('acct_balance_ne_unspent', 'balance(account_id=%s) = %d but utxos(account_id=%s) sum to %d'
                        % (acct, b, acct, gsum)))
        for name, when in (('kb', 'after balance()'), ('kbA', 'after balance(account_id=..)')):
            ks = sum(v for k, v in parse_kb(o[name]).items() if ka.get(k) == g)
            if ks != gsum:
                bad.append(('acct_keysum_ne_unspent:' + name, 'the balances of the keys of account %s (read %s) sum '
                            'to %d, utxos(account_id=%s) sum to %d' % (acct, when, ks, acct, gsum)))
        for u in gl:
            if (u[0], u[1]) in spent_now:
                bad.append(('consumed_listed_unspent', 'output %s:%d was consumed by a sent transaction the wallet '
                            'holds and is listed by utxos(account_id=%s)' % (u[0][:12], u[1], acct)))
        if g == self.dflt and (b != int(o['bal']) or sorted(gl) != sorted(ut)):
            bad.append(('default_ne_named_account', 'balance()/utxos() = %s/%d outputs, balance/utxos(account_id=%s)'
                        ' = %d/%d outputs' % (o['bal'], len(ut), acct, b, len(gl))))
        allut += gl
    per_key = {}
    for u in allut:
        per_key[u[3]] = per_key.get(u[3], 0) + u[2]
    for name in ('kb', 'kbA'):
        kb = parse_kb(o[name])
        d = [k for k in set(kb) | set(per_key) if kb.get(k, 0) != per_key.get(k, 0)]
        if d:
            bad.append(('acct_keybal_ne_unspent:' + name, 'key %d has balance %d, its unspent outputs over all '
                        'accounts sum to %d' % (d[0], kb.get(d[0], 0), per_key.get(d[0], 0))))
    return bad


Oracle.per_account = per_account


def split_txs(s):
    """Parse the transaction view text: txid~conf~ins~outs[~raw] joined by ',' (ins/outs use ',' too)."""
    res = []
    for m in re.finditer(r'([0-9a-f]{64})~(\d+)~([^~]*)~([^~]*?)(?:~([0-9a-f-]+))?(?=,[0-9a-f]{64}~|$)', s):
        ins = sorted((int(a[0]), a[1], int(a[2]), int(a[3])) for a in (x.split('/') for x in m.group(3).split(',') if x))
        outs = sorted((int(a[0]), int(a[1]), a[2], a[3]) for a in (x.split('/') for x in m.group(4).split(',') if x))
        res.append((m.group(1), int(m.group(2)), ins, outs, m.group(5)))
    return res


CMP_FIELDS = ('kbpre', 'bal', 'utxos', 'kb', 'txs', 'pa', 'kbA', 'ka')
# failure classes that a cross-account output explains (the per-account sums and what follows from them); the
# clauses about spent outputs, reload and the second wallet object stay as they are
CROSS_EXPLAINS = ('acct_', 'keysum_ne_unspent', 'keybal_ne_unspent', 'balance_ne_unspent', 'default_ne_named_account',
                  'model_differs:', 'select_inadmissible')


def judge(r, mout):
    """Compare one executed history with the model.  Returns (failures, stats): the first failure of every class,
    failure = dict(step=i, cls=.., what=.., kind='property'|'correspondence'|'crash').  The property oracle keeps
    running after a failure; the model comparison stops at the first divergence (the states differ from there)."""
    stats = {'steps': 0, 'nontrivial': 0, 'guard_false': 0, 'errs': 0}
    if 'crash' in r:
        return [{'step': -1, 'cls': 'adapter_crash', 'what': r['crash'], 'kind': 'crash'}], stats
    msteps = parse_model(r, mout) if mout is not None else None
    orc = Oracle('0.%d' % r.get('acct', 0))
    prev = None
    fails, seen = [], set()

    def add(f):
        if f['cls'] not in seen:
            seen.add(f['cls'])
            fails.append(f)

    model_alive = msteps is not None
    respent = False        # model class predicate store_respends held at some earlier step of this history
    crossed = False        # model class predicate has_cross held after this or an earlier step
    for i, s in enumerate(r['steps']):
        if s['obs'] is None:
            add({'step': i, 'cls': 'impl_crash', 'what': 'operation %s raised: %s' % (s['op'], s['err']),
                 'kind': 'property'})
            break
        stats['steps'] += 1
        if s['err']:
            stats['errs'] += 1
        if msteps is not None and msteps[i][3]:
            respent = True
        if msteps is not None and msteps[i][2] is not None and msteps[i][2].get('x') == '1':
            crossed = True
        for cls, what in orc.step(s):
            if respent and cls in ('consumed_listed_unspent', 'reselected'):
                cls = 'restore_resets_spent'
            elif crossed and cls.startswith(CROSS_EXPLAINS):
                cls = KNOWN_CROSS + ':' + cls
            add({'step': i, 'cls': cls, 'what': what, 'kind': 'property'})
        if msteps is not None:
            guards, sels, mo, _ = msteps[i]
            if not all(guards):
                stats['guard_false'] += 1
        if model_alive:
            pre = KNOWN_CROSS + ':' if crossed else ''
            if not all(sels):
                add({'step': i, 'cls': pre + 'select_inadmissible', 'kind': 'correspondence',
                     'what': 'the implementation selected an input the model does not list as spendable in the '
                             'account the call named'})
            for f in CMP_FIELDS:
                if f not in s['obs']:
                    continue
                if mo.get(f) != s['obs'][f]:
                    add({'step': i, 'cls': pre + 'model_differs:' + f, 'kind': 'correspondence',
                         'what': 'after %s the implementation and the model differ on %s' % (s['op'], f),
                         'impl': s['obs'][f][:1500], 'model': (mo.get(f) or '')[:1500]})
                    model_alive = False
                    break
        cur = tuple(s['obs'].get(f) for f in ('bal', 'utxos', 'kb', 'txs', 'pa'))
        if prev is not None and cur != prev:
            stats['nontrivial'] += 1
        prev = cur
    # a divergence from the model in a history where the property oracle also fails is reported through the oracle
    if any(f['kind'] == 'property' for f in fails):
        fails = [f for f in fails if f['kind'] != 'correspondence']
    return fails, stats


def execute(hs, rundir, exe):
    rs, errs = run_impl_parallel(hs, rundir)
    if errs:
        return None, None, errs
    lines = [model_line(r) if 'crash' not in r else 'noop' for r in rs]
    mouts = [None] * len(rs)
    if exe:
        rc, outs, err = run_driver(exe, lines)
        if len(outs) != len(lines):
            return None, None, ['driver produced %d answers for %d requests: %s' % (len(outs), len(lines), err[-300:])]
        mouts = outs
        for i, o in enumerate(outs):
            if o.startswith('CRASH') or o == 'BADREQ':
                mouts[i] = None if 'crash' in rs[i] else o
    return rs, mouts, []


def safe_judge(r, mo):
    if isinstance(mo, str) and (mo.startswith('CRASH') or mo == 'BADREQ'):
        return [{'step': -1, 'cls': 'driver_crash', 'what': 'model driver: ' + mo[:200], 'kind': 'correspondence'}], \
               {'steps': 0, 'nontrivial': 0, 'guard_false': 0, 'errs': 0}
    return judge(r, mo)


def shrink(h, fail, rundir, exe, budget=14):
    """Delta debugging on the operation list: keep the smallest list that still fails in the same class."""
    kind, hid, ops = h
    ops = ops[:max(1, fail['step'])] if fail['step'] > 0 else ops      # step i is ops[i-1]; drop what follows
    cls = fail['cls']
    n = 2
    rounds = 0
    while len(ops) >= 2 and rounds < budget:
        rounds += 1
        size = max(1, len(ops) // n)
        cands = []
        for st in range(0, len(ops), size):
            c = ops[:st] + ops[st + size:]
            if c and c not in cands:
                cands.append(c)
        rs, mouts, errs = execute([(kind, hid, c) for c in cands], os.path.join(rundir, 'shrink'), exe)
        if errs:
            break
        hit = None
        for c, r, mo in zip(cands, rs, mouts):
            fs, _ = safe_judge(r, mo)
            f = next((x for x in fs if x['cls'] == cls), None)
            if f is not None:
                k = f['step'] if f['step'] > 0 else len(c)
                hit = (c[:k], f)
                break
        if hit:
            ops, fail = hit
            n = max(n - 1, 2)
        elif size == 1:
            break
        else:
            n = min(len(ops), n * 2)
    return (kind, hid, ops), fail


# ---------------------------------------------------------------- known findings
def classify_known(fail, known):
    for e in known:
        if e.get('status') == 'known' and e.get('class') and fail['cls'].startswith(e['class']):
            return e
    return None


def reproduce_known(entry, rundir, exe):
    w = entry['witness']
    t = w['request'].split(' ')
    h = (t[1], t[2], t[3].split(','))
    rs, mouts, errs = execute([h], os.path.join(rundir, 'known'), exe)
    if errs:
        return False
    fs, _ = safe_judge(rs[0], mouts[0])
    return any(f['cls'].startswith(entry['class']) for f in fs)


# ---------------------------------------------------------------- main
def main(tier, seed, replay=None):
    res = Result(PROP, tier, seed)
    rundir = run_dir(PROP)
    rng = random.Random(seed)
    proof_ok, broken = True, []

    bad = [b for b in scan_forbidden()]
    if bad:
        proof_ok = False
        broken.append('forbidden tokens in development: ' + '; '.join(bad[:5]))
    ok, out = coq_make(COQ_FILES, timeout=2400)
    if not ok:
        proof_ok = False
        m = re.search(r'File "\./([^"]+)", line (\d+)[^\n]*\n(Error:[^\n]*(?:\n[^\n]*){0,6})', out)
        broken.append('coq build failed: ' + (('%s line %s: %s' % (m.group(1), m.group(2), m.group(3))) if m else out[-600:]))
    else:
        pok, thms, pout = check_properties_file(COQ_FILES[-1], ALLOWED_AXIOMS, res)
        if not pok:
            proof_ok = False
            broken.append('Properties file: ' + pout[-400:])
    res.trusted.insert(0, 'Coq 8.16.1 kernel + VM (vm_compute); native_compute not used')
    res.trusted.append(core.EXTRACTION_TB)
    res.trusted.append('harness/props/c08.py, harness/impl/c08_impl.py (public Wallet API, PYTHONPATH=%s, fresh '
                       'BCL_DATA_DIR and sqlite file per history, bitcoinlib_test provider wrapped by a recording '
                       'subclass of Service which answers for the second network from a deterministic stub), '
                       'ocaml/c08_driver.ml' % core.REPO)
    exe, dout = build_driver(DRIVER)
    if exe is None:
        proof_ok = False
        broken.append('driver build failed: ' + dout[-400:])

    if replay:
        rp = json.load(open(replay))
        hs = [(rp['kind'], rp['hid'], rp['ops'])] if 'ops' in rp else []
    else:
        # operations of a recorded finding class are generated once its entry is present (they are then counted as
        # known); without the entry they would be reported as violations on every run
        cross = any(e.get('status') == 'known' and e.get('class') == KNOWN_CROSS for e in load_known(PROP))
        hs = gen_histories(rng, tier if proof_ok else 'thorough', cross=cross)

    known = load_known(PROP)
    failing_input_found = False
    if hs:
        rs, mouts, errs = execute(hs, rundir, exe)
        if errs:
            res.notes += errs
            print('note: adapter/driver failure; machinery error', file=sys.stderr)
            finish(res, ASSUMPTIONS, RULE)
            sys.exit(2)
        nviol = 0
        seen_cls = set()
        for h, r, mo in zip(hs, rs, mouts):
            fs, st = safe_judge(r, mo)
            res.evaluations += st['steps']
            res.count('kind:' + h[0])
            if 'steps' in r and r['steps'] and r['steps'][-1]['obs']:
                res.count('accounts:%d' % len(obs_groups(r['steps'][-1]['obs']).split(',')))
            res.count('ops', len(h[2]))
            res.count('steps_with_error_answer', st['errs'])
            res.count('steps_guard_false', st['guard_false'])
            if 'steps' in r:
                pre = []
                prev = None
                for op, s in zip(['create'] + h[2], r['steps']):
                    pre.append(op)
                    res.count('op:' + op.split(':')[0])
                    if s['obs'] is None:
                        break
                    cur = (s['obs']['bal'], s['obs']['utxos'], s['obs']['kb'], s['obs']['txs'], s['obs'].get('pa'))
                    if prev is not None and cur != prev:
                        res.distinct.add((h[0], h[1], len(pre)))
                    prev = cur
            if len(res.samples) < 6 and 'steps' in r and len(h[2]) >= 3:
                last = r['steps'][-1]['obs'] or {}
                res.samples.append({'kind': h[0], 'ops': ' '.join(h[2])[:400], 'final_balance': last.get('bal'),
                                    'final_unspent': (last.get('utxos') or '')[:200],
                                    'model_ops': ' '.join(r['steps'][1]['mops'])[:200] if len(r['steps']) > 1 else ''})
            for f in fs:
                if f['kind'] == 'crash':
                    res.notes.append('adapter crash on %s: %s' % (req_line(h), f['what']))
                    print('note: adapter crash; machinery error', file=sys.stderr)
                    finish(res, ASSUMPTIONS, RULE)
                    sys.exit(2)
                ke = classify_known(f, known)
                if ke is not None:
                    res.count('known:' + ke['class'])
                    continue
                nviol += 1
                if f['cls'] in seen_cls and not replay:
                    res.count('further:' + f['cls'])
                    continue
                seen_cls.add(f['cls'])
                if len(seen_cls) > 8:
                    continue
                hm, fm = (h, f) if replay else shrink(h, f, rundir, exe)
                payload = {'kind': hm[0], 'hid': hm[1], 'ops': hm[2], 'class': fm['cls'], 'step': fm['step'],
                           'request': req_line(hm), 'detail': {k: v for k, v in fm.items() if k in ('impl', 'model')},
                           'original_length': len(h[2]), 'replay_cmd': './check C08 --replay <this file>'}
                if fm['kind'] == 'property':
                    failing_input_found = True
                    violation(res, 'property fails on the implementation: ' + fm['what'], payload)
                else:
                    violation(res, 'correspondence broken (model and implementation differ; the property-level '
                                   'oracle finds no violation in this history): ' + fm['what'], payload,
                              has_input=False)
        if nviol:
            res.notes.append('%d failures in %d classes' % (nviol, len(seen_cls)))

    for e in known:
        if e.get('status') != 'known':
            continue
        try:
            rep = reproduce_known(e, rundir, exe)
        except Exception as ex:
            rep = False
            res.notes.append('known finding %s: reproduction crashed: %r' % (e['id'], ex))
        if rep:
            res.known_hits.append(e['id'])
            print('KNOWN-FINDING: property=%s %s' % (PROP, e['what_fails']))
        else:
            res.stale_known.append(e['id'])

    if not proof_ok and not failing_input_found:
        violation(res, 'proof obligation no longer checks: ' + ' | '.join(broken),
                  {'obligation': broken, 'note': 'history differential + property-level oracle found no failing input'},
                  has_input=False)
    elif not proof_ok:
        res.notes.append('proof side broken: ' + ' | '.join(broken))
    res.distinct = set(res.distinct)
    return finish(res, ASSUMPTIONS, RULE)
