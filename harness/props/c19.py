"""C19 — script evaluation agrees with Bitcoin consensus for the implemented opcodes.

Correspondence: coq/Model/EvalLib.v (extracted, ocaml/c19_driver.ml) against the real
Script(cmds).evaluate(message, env_data) + Script.stack (harness/impl/c19_impl.py): verdict AND stack.
Property level: an independent Python transcription of Bitcoin Core's EvalScript (below, written from
interpreter.cpp, not from the Coq model) says whether the library's answer differs from consensus; it is
also cross-checked against the extracted Coq Core model on every case.  A difference is attributed to a
known class only when the corresponding trigger fired while CORE executed the script (decided from the
case alone)."""
import hashlib, json, os
from core import Case, load_known, VERIF

PROP = 'C19'
COQ_FILES = ['Extract/C19.v', 'Properties/C19.v']
DRIVER = 'c19'
IMPL = 'harness/impl/c19_impl.py'
ALLOWED_AXIOMS = []
COQ_TIMEOUT = 3000
ASSUMPTIONS = [
    'theorems are about coq/Model/EvalLib.v (mirror of Script.evaluate / class Stack, bugs included) and '
    'coq/Model/EvalCore.v (Bitcoin Core EvalScript + final truth test, transcribed from the reference)',
    'tie to /repo: Gen/GenConsts.v (opcode names, Stack method names, regenerated every run) drives the dispatch of '
    'the library model; every run compares the extracted model with Script.evaluate + Script.stack (verdict and stack)',
    'hash functions and signature verification are oracles shared by both interpreters (Section variables); '
    'the library-side oracle is Signature.parse_bytes+verify (valid / invalid / raises), the Core-side oracle maps '
    '"raises" to a signature/pubkey encoding error; agreement theorems additionally assume hash outputs are longer '
    'than 4 bytes and not zero-like',
    'Core model: flags MINIMALDATA off, NULLDUMMY/DERSIG/CLTV/CSV on; resource limits (201 opcodes, 520-byte push) are '
    'a separate static predicate; the 1000-element stack limit, P2SH/witness evaluation and CODESEPARATOR are not modelled',
    'conditionals (agree_if_or_crash, agree_if, never_valid_when_core_rejects_structured, standard_spends_agree) are proved '
    'for the class `structured` of Proofs/EvalIf.v: well-nested OP_IF/OP_NOTIF .. [OP_ELSE ..] OP_ENDIF blocks, at most one '
    'OP_ELSE per OP_IF, any nesting depth, every leaf (in executed and non-executed branches alike) a command of the '
    'straight-line fragment; agree_if carries the guard "the library does not raise IndexError", i.e. every executed '
    'OP_IF/OP_NOTIF finds a condition item (otherwise Core fails the script: if_crash_only_where_core_fails); programs '
    'with a second OP_ELSE, stray OP_ELSE/OP_ENDIF, or disabled/OP_VERIF opcodes in a non-executed branch are outside '
    'the class (refutation witnesses in Properties/C19.v) and are covered by the correspondence only; programs whose '
    'OP_IF is never closed (`open_program` of Proofs/EvalIfOpen.v: structured prefix, then a conditional without its '
    'OP_ENDIF) are Invalid on both sides (agree_if_missing_endif, missing_endif_never_valid)',
]
ASSUMPTIONS += [
    'environment (section 8 of Properties/C19.v): csv_agrees_all_env / cltv_agrees_all_env hold for every stack and every '
    'value of nSequence / nLockTime / version (present or absent) under consensus flags (MINIMALDATA off); env_data values '
    'are the unsigned 32-bit readings of the transaction fields (what Transaction.version_int etc. hand over): Core casts '
    'the version to uint32_t, the identity there (version_cast_is_identity_on_uint32); a SIGNED version is outside the '
    'domain (csv_signed_version_refuted, proposed known class csv_signed_version; such cases are generated only once '
    'the class is recorded)',
    'sessions (section 9): Model/EvalSession.v carries, per Script object, commands / message / env_data / stack, and no '
    'process-wide state; evaluation_session_is_map is about that model.  Its tie to the source is (a) the session '
    'requests of every run (objects re-evaluated, the same signature / key under other messages, the same script under '
    'other env_data, interleaved work, each session in a fresh fork of the just-imported library) and (b) Gen/GenC19.v, '
    'the state footprint read from the AST of scripts.py / keys.py (interpreter_touches_no_module_state, '
    'interpreter_attribute_writes_are_frozen, interpreter_self_reads_are_frozen): state hidden elsewhere (C extension, '
    'other modules) is covered by (a) only',
    'the property-level oracle verifies ECDSA itself (secp256k1 written from SEC 1/2 in harness/props/c19.py) over the '
    'message in force for each evaluation; evaluate(message=None) / evaluate(env_data=None) mean "the value given last '
    'to this object, else the constructor\'s" as the docstrings of Script.__init__ / Script.evaluate say; an evaluation '
    'in which a recorded deviation class fires is compared with the model and with equal evaluations of the same session '
    'only; the class checkmultisig_conventions no longer covers the bare form <> sig.. m key.. n OP_CHECKMULTISIG as last '
    'command (ms_plain): there the verdict is judged against consensus',
    'scripts that reach evaluate() through PARSING (p2sh requests): Script.parse is not part of the C19 model; the expected '
    'library answer is the model evaluation of the flattened command list (signature pushes, commands of the pushed redeem '
    'script, output script) with env_data redeemscript = the bytes AS PUSHED, both computed by the harness with its own '
    'parser; the property-level oracle is BIP16 on the raw bytes (own parser, own EvalScript, own HASH160; no minimal-push '
    'rule, which is policy); the commitment step is proved for the model (p2sh_commitment_is_hash_of_pushed_bytes); '
    'generated inside the domain on which the recorded CHECKMULTISIG conventions agree with consensus, so no recorded '
    'class excuses a p2sh case; OP_PUSHDATA4, witness scripts and Transaction inputs are not generated',
]
ESCALATE_CAP = 30000
RULE = ('exhaustive: every opcode 0x00..0xff x every stack of <=2 (quick) / <=3 (thorough) items over the 14-item set '
        'of DESIGN.md C19; env sweeps for CLTV/CSV over threshold boundaries; CHECKSIG/CHECKMULTISIG over validity '
        'patterns with real signatures; seeded random programs (length <=30) with nested conditionals; standard spends; '
        'non-trivial = the library neither refuses the opcode (ScriptError) nor lacks a name for it; distinct by request; '
        'BIP112 / BIP65 bit structure: operand x nSequence over (bit 31) x (bit 22) x (bits 16-21, 23-30 set / clear) x '
        '(low 16 bits 0, v-1, v, v+1, 0xffff) x version {absent, 0, 1, 2, 3, 2^31-1, 2^31, 2^32-1}, operand encodings '
        '(padded, 5 and 6 bytes, negative, negative zero, empty), CLTV operand x nLockTime x nSequence around 500000000, '
        '2^31, 2^32, 2^39; sessions (several constructor / evaluate calls in one process): signature replay under other '
        'messages in both orders, bare multisig, locks under changing env_data, objects evaluated repeatedly, mixtures; '
        'PARSED P2SH spends (p2sh requests): m-of-n multisig redeem scripts (7 shapes, m <= n <= 3) serialised by the harness with a '
        'chosen push opcode per item (direct / OP_PUSHDATA1 / OP_PUSHDATA2) for the keys inside the redeem script, the '
        'signatures and the redeem script push; output committing to the pushed bytes / the canonical re-serialisation / '
        'another script / a non-HASH160 digest; signatures good / last keys / swapped / foreign; parsed with Script.parse_bytes, '
        'parse_hex, parse(stream) or as two parsed halves added, then evaluated')
EXHAUSTIVE = True

# ---------------------------------------------------------------- fixed universe (real signatures, see c19_impl.MESSAGE)
PKA = bytes.fromhex('0279be667ef9dcbbac55a06295ce870b07029bfcdb2dce28d959f2815b16f81798')
PKB = bytes.fromhex('02dd6cd503861afc1d758b48128c4217a6116ebe1698ce46d0c64f594b106188e9')
PKC = bytes.fromhex('023e9d0688b9b67517e25b526a4e46be084e95a171f9d99ae34cca6c1466adaf6e')
SIGA = bytes.fromhex('3045022100cbb4dbb0bd34606b5b450a4b3bab3bfceb0fef60e1d3ecf86c24311310c4c37902204c642b4f9ed8a9f6f837d5e2fe7b0598b2111903c8316954ab6f84316ef21f8901')
SIGB = bytes.fromhex('30450221008c4554078855c875f98d5d04af2df1fdba09266a897eb14379c6222da36a5275022054a920bd613603de1bc8180ac7f79ff2dee689697c50ae4b218e75a26d7d473e01')
SIGC = bytes.fromhex('304402205b6e9c52deddb553009936a13d8f53334641a61cd664936401c7efc36aa15b0902200c0607ec65bf9bac6de04b015bea546a0c632c421f37b953a32742bbf8f69a9a01')
H160A = bytes.fromhex('751e76e8199196d454941c45d1b3a323f1433bd6')
KEYS = [PKA, PKB, PKC]
SIGS = [SIGA, SIGB, SIGC]
VALID_PAIRS = {(SIGA, PKA), (SIGB, PKB), (SIGC, PKC)}

ITEMS = [bytes.fromhex(h) for h in ('', '00', '80', '01', '81', '02', '05', '7f', 'ff00', 'ffffff7f', '0000008000',
                                    '0102030405')] + [H160A, PKA]


def hx(b):
    return b.hex() if b else '-'


# ---------------------------------------------------------------- secp256k1 ECDSA, written from SEC 1 / SEC 2 (never /repo)
# The oracle verifies every signature ITSELF over the message of the evaluation it belongs to: a verdict remembered from
# another evaluation (other message, same signature and key) cannot agree with it by construction.
EC_P = 2 ** 256 - 2 ** 32 - 977
EC_N = 0xFFFFFFFFFFFFFFFFFFFFFFFFFFFFFFFEBAAEDCE6AF48A03BBFD25E8CD0364141
EC_G = (0x79BE667EF9DCBBAC55A06295CE870B07029BFCDB2DCE28D959F2815B16F81798,
        0x483ADA7726A3C4655DA4FBFC0E1108A8FD17B448A68554199C47D08FFB10D4B8)


def _jdbl(p):
    x, y, z = p
    if not y or not z:
        return (0, 1, 0)
    a = x * x % EC_P
    b = y * y % EC_P
    c = b * b % EC_P
    d = 2 * ((x + b) * (x + b) - a - c) % EC_P
    e = 3 * a % EC_P
    x3 = (e * e - 2 * d) % EC_P
    return (x3, (e * (d - x3) - 8 * c) % EC_P, 2 * y * z % EC_P)


def _jadd(p, q):
    if not p[2]:
        return q
    if not q[2]:
        return p
    x1, y1, z1 = p
    x2, y2, z2 = q
    z1s, z2s = z1 * z1 % EC_P, z2 * z2 % EC_P
    u1, u2 = x1 * z2s % EC_P, x2 * z1s % EC_P
    s1, s2 = y1 * z2s * z2 % EC_P, y2 * z1s * z1 % EC_P
    if u1 == u2:
        return _jdbl(p) if s1 == s2 else (0, 1, 0)
    h, r = (u2 - u1) % EC_P, (s2 - s1) % EC_P
    h2 = h * h % EC_P
    h3 = h2 * h % EC_P
    x3 = (r * r - h3 - 2 * u1 * h2) % EC_P
    return (x3, (r * (u1 * h2 - x3) - s1 * h3) % EC_P, h * z1 * z2 % EC_P)


def _jmul(k, pt):
    acc, q = (0, 1, 0), (pt[0], pt[1], 1)
    while k:
        if k & 1:
            acc = _jadd(acc, q)
        q = _jdbl(q)
        k >>= 1
    return acc


def _affine(p):
    if not p[2]:
        return None
    zi = pow(p[2], EC_P - 2, EC_P)
    return (p[0] * zi * zi % EC_P, p[1] * zi * zi * zi % EC_P)


def pub_of(d):
    x, y = _affine(_jmul(d, EC_G))
    return bytes([2 + (y & 1)]) + x.to_bytes(32, 'big')


_POINTS = {}


def key_point(pk):
    """SEC 1 octet string -> point; None when it is not a compressed / uncompressed point on the curve"""
    if pk in _POINTS:
        return _POINTS[pk]
    pt = None
    if len(pk) == 33 and pk[0] in (2, 3):
        x = int.from_bytes(pk[1:], 'big')
        if x < EC_P:
            y2 = (x * x * x + 7) % EC_P
            y = pow(y2, (EC_P + 1) // 4, EC_P)
            if y * y % EC_P == y2:
                pt = (x, y if (y & 1) == (pk[0] & 1) else EC_P - y)
    elif len(pk) == 65 and pk[0] == 4:
        x, y = int.from_bytes(pk[1:33], 'big'), int.from_bytes(pk[33:], 'big')
        if x < EC_P and y < EC_P and (y * y - x * x * x - 7) % EC_P == 0:
            pt = (x, y)
    _POINTS[pk] = pt
    return pt


def ecdsa_sign(d, msg):
    """deterministic (nonce from a hash of key and message), low S, DER + SIGHASH_ALL byte"""
    z = int.from_bytes(msg, 'big')
    k = int.from_bytes(hashlib.sha256(b'c19-nonce' + d.to_bytes(32, 'big') + msg).digest(), 'big') % EC_N or 1
    r = _affine(_jmul(k, EC_G))[0] % EC_N
    sv = pow(k, EC_N - 2, EC_N) * (z + r * d) % EC_N
    if sv > EC_N // 2:
        sv = EC_N - sv

    def der_int(v):
        b = v.to_bytes(32, 'big').lstrip(b'\x00')
        return b'\x02' + bytes([len(b) + (b[0] >> 7)]) + (b'\x00' if b[0] & 0x80 else b'') + b
    body = der_int(r) + der_int(sv)
    return b'\x30' + bytes([len(body)]) + body + b'\x01'


_VERIFIED = {}


def sig_ok(msg, sig, pk):
    """ECDSA verification of a BIP66-encoded signature (+ hash type byte) over the 32-byte digest msg"""
    key = (msg, sig, pk)
    if key in _VERIFIED:
        return _VERIFIED[key]
    ok = False
    q = key_point(pk)
    if q is not None and msg is not None and len(msg) == 32 and der_ok(sig):
        lr = sig[3]
        r = int.from_bytes(sig[4:4 + lr], 'big')
        sv = int.from_bytes(sig[6 + lr:-1], 'big')
        if 0 < r < EC_N and 0 < sv < EC_N:
            w = pow(sv, EC_N - 2, EC_N)
            z = int.from_bytes(msg, 'big')
            pt = _affine(_jadd(_jmul(z * w % EC_N, EC_G), _jmul(r * w % EC_N, q)))
            ok = pt is not None and pt[0] % EC_N == r
    _VERIFIED[key] = ok
    return ok


MESSAGE = hashlib.sha256(b'c19').digest()            # the digest of every `ev` request (c19_impl.MESSAGE)

# what Signature.parse_bytes + Signature.verify do on this universe (measured once against the library; any
# drift shows as a correspondence failure): valid / invalid for the three keys and for an EMPTY key, raise otherwise
LIBSIG = ','.join('%s/%s=%s' % (hx(s), hx(k), 'V' if (s, k) in VALID_PAIRS else 'I') for s in SIGS for k in KEYS + [b''])
# Core: DER-encoded signatures verify or not against any key bytes; the empty signature is just false;
# anything else is a signature encoding error (BIP66)
CORESIG = ','.join(['%s/%s=V' % (hx(s), hx(k)) for (s, k) in sorted(VALID_PAIRS)] +
                   ['%s/*=I' % hx(s) for s in SIGS] + ['-/*=I'])

ENV_FULL = dict(redeemscript=b'\x51', sequence=0xfffffffe, locktime=100, version=2)


def env_tok(env):
    def f(k):
        v = env.get(k)
        return 'N' if v is None else (hx(v) if isinstance(v, bytes) else str(v))
    return ':'.join(f(k) for k in ('redeemscript', 'sequence', 'locktime', 'version'))


def cmd_tok(cmds):
    return ','.join(('o%02x' % c) if isinstance(c, int) else 'd' + hx(c) for c in cmds) or '-'


def mk(kind, cmds, env=None):
    env = ENV_FULL if env is None else env
    return Case(kind, 'ev %s %s %s %s' % (env_tok(env), LIBSIG, CORESIG, cmd_tok(cmds)),
                meta={'cmds': list(cmds), 'env': env})


# ---------------------------------------------------------------- independent reference: Bitcoin Core EvalScript
class Fail(Exception):
    pass


class Out(Exception):
    pass


def cast_to_bool(v):
    for i, b in enumerate(v):
        if b != 0:
            return not (i == len(v) - 1 and b == 0x80)
    return False


def num(v, maxlen=4):
    if len(v) > maxlen:
        raise Fail()
    if not v:
        return 0
    r = int.from_bytes(v, 'little')
    if v[-1] & 0x80:
        return -(r & ~(0x80 << (8 * (len(v) - 1))))
    return r


def ser(n):
    if n == 0:
        return b''
    a, neg, r = abs(n), n < 0, bytearray()
    while a:
        r.append(a & 0xff)
        a >>= 8
    if r[-1] & 0x80:
        r.append(0x80 if neg else 0)
    elif neg:
        r[-1] |= 0x80
    return bytes(r)


def minimal(v):
    if not v:
        return True
    if v[-1] & 0x7f == 0:
        return len(v) > 1 and bool(v[-2] & 0x80)
    return True


def der_ok(sig):
    """IsValidSignatureEncoding (BIP66)."""
    if len(sig) < 9 or len(sig) > 73 or sig[0] != 0x30 or sig[1] != len(sig) - 3:
        return False
    lr = sig[3]
    if 5 + lr >= len(sig):
        return False
    ls = sig[5 + lr]
    if lr + ls + 7 != len(sig):
        return False
    if sig[2] != 2 or lr == 0 or sig[4] & 0x80 or (lr > 1 and sig[4] == 0 and not sig[5] & 0x80):
        return False
    if sig[lr + 4] != 2 or ls == 0 or sig[lr + 6] & 0x80 or (ls > 1 and sig[lr + 6] == 0 and not sig[lr + 7] & 0x80):
        return False
    return True


def ripemd160(b):
    return hashlib.new('ripemd160', b).digest()


DISABLED = {126, 127, 128, 129, 131, 132, 133, 134, 141, 142, 149, 150, 151, 152, 153}
BAD = {80, 98, 137, 138} | set(range(186, 256))
NOPS = {97, 176, 179, 180, 181, 182, 183, 184, 185}
T = 500000000


def core_checksig(sig, pk, trig, msg):
    if sig == b'':
        trig.add('checksig_raises')           # library: Signature.parse_bytes(b'') raises -> script invalid
        return False
    if not der_ok(sig):
        raise Fail()
    if key_point(pk) is None and pk != b'':
        trig.add('checksig_raises')           # library: key bytes that do not parse raise -> script invalid
    if msg is None:
        trig.add('no_message')                # no digest to check against: not an evaluation consensus knows
        raise Fail()
    return sig_ok(msg, sig, pk)


def ms_plain(n, idx, cmds, st, vf, env):
    """the one use of OP_CHECKMULTISIG on which the library's conventions (class checkmultisig_conventions: VERIFY +
    push of env_data['redeemscript'], no dummy required, raises on 0-of-n / undecodable keys / empty signatures, no
    bounds) cannot show: the bare form  <> sig.. m key.. n OP_CHECKMULTISIG  as the LAST command, outside any
    conditional, minimal 1 <= m <= n <= 20, decodable keys, BIP66 signatures, an empty dummy, a non-empty
    redeemscript in env_data (it takes the place of the result and is popped by the final truth test).  There the
    verdict and the remaining stack are consensus's, and the class does not excuse anything."""
    if n != 174 or idx != len(cmds) - 1 or vf:
        return False
    rs = env.get('redeemscript')
    if not isinstance(rs, bytes) or rs == b'':
        return False
    if len(st[-1]) > 4 or not minimal(st[-1]):
        return False
    nk = num(st[-1])
    if not (1 <= nk <= 20) or len(st) < nk + 2:
        return False
    mb = st[-nk - 2]
    if len(mb) > 4 or not minimal(mb):
        return False
    ns = num(mb)
    if not (1 <= ns <= nk) or len(st) < nk + ns + 3:
        return False
    keys = st[-nk - 1:-1]
    sigs = st[-nk - ns - 2:-nk - 2]
    return st[-nk - ns - 3] == b'' and all(key_point(k) is not None for k in keys) and all(der_ok(x) for x in sigs)


def core_eval(cmds, env, limits=True, msg=MESSAGE):
    """-> (verdict, stack bottom..top, set of deviation triggers that fired while Core executed the script);
    msg is the digest the signatures of THIS evaluation are checked against (real ECDSA, sig_ok)"""
    st, vf, elses, trig = [], [], [], set()
    alt = []
    nops = 0
    try:
        for idx, c in enumerate(cmds):
            fexec = all(vf)
            if isinstance(c, bytes):
                if len(c) > 520:
                    trig.add('no_resource_limits')
                    if limits:
                        raise Fail()
                if fexec:
                    st.append(c)
                continue
            n = c
            if n > 96:
                nops += 1
                if nops > 201:
                    trig.add('no_resource_limits')
                    if limits:
                        raise Fail()
            if n in DISABLED:
                trig.add('unexecuted_or_disabled_opcode')
                raise Fail()
            if 99 <= n <= 104:
                if n in (99, 100):
                    v = False
                    if fexec:
                        if not st:
                            raise Fail()
                        v = cast_to_bool(st.pop())
                        if n == 100:
                            v = not v
                    vf.append(v)
                    elses.append(0)
                elif n == 103:
                    if not vf:
                        raise Fail()
                    vf[-1] = not vf[-1]
                    elses[-1] += 1
                    if elses[-1] >= 2:
                        trig.add('second_else_ignored')
                elif n == 104:
                    if not vf:
                        raise Fail()
                    vf.pop()
                    elses.pop()
                else:
                    trig.add('unexecuted_or_disabled_opcode')
                    raise Fail()
                continue
            if not fexec:
                continue
            if n == 0:
                st.append(b'')
            elif n == 79:
                st.append(ser(-1))
            elif 81 <= n <= 96:
                st.append(ser(n - 80))
            elif n in NOPS or n == 171:                      # NOPs; CODESEPARATOR only affects the signed hash
                pass
            elif n == 107:
                if not st:
                    raise Fail()
                alt.append(st.pop())
            elif n == 108:
                if not alt:
                    raise Fail()
                st.append(alt.pop())
            elif n in BAD:
                raise Fail()
            elif n == 105:                                   # VERIFY
                if not st:
                    raise Fail()
                if not cast_to_bool(st[-1]):
                    if st[-1] != b'':
                        trig.add('truthiness_nonempty')
                    raise Fail()
                st.pop()
            elif n == 106:
                raise Fail()
            elif n == 109:
                if len(st) < 2:
                    raise Fail()
                st.pop(); st.pop()
            elif n == 110:
                if len(st) < 2:
                    raise Fail()
                st += st[-2:]
            elif n == 111:
                if len(st) < 3:
                    raise Fail()
                st += st[-3:]
            elif n == 112:
                if len(st) < 4:
                    raise Fail()
                st += st[-4:-2]
            elif n == 113:
                if len(st) < 6:
                    raise Fail()
                a, b = st[-6], st[-5]
                del st[-6:-4]
                st += [a, b]
            elif n == 114:                                   # 2SWAP
                if len(st) >= 2:
                    trig.add('2swap_order')
                if len(st) < 4:
                    raise Fail()
                st[-4:] = st[-2:] + st[-4:-2]
            elif n == 115:                                   # IFDUP
                if not st:
                    raise Fail()
                if cast_to_bool(st[-1]):
                    st.append(st[-1])
                elif st[-1] != b'':
                    trig.add('truthiness_nonempty')
            elif n == 116:
                st.append(ser(len(st)))
            elif n == 117:
                if not st:
                    raise Fail()
                st.pop()
            elif n == 118:
                if not st:
                    raise Fail()
                st.append(st[-1])
            elif n == 119:
                if len(st) < 2:
                    raise Fail()
                del st[-2]
            elif n == 120:
                if len(st) < 2:
                    raise Fail()
                st.append(st[-2])
            elif n in (121, 122):                            # PICK ROLL
                if st:
                    trig.add('pick_index_off_by_one' if n == 121 else 'roll_index_off_by_one')
                if len(st) < 2:
                    raise Fail()
                k = num(st[-1])
                st.pop()
                if k < 0 or k >= len(st):
                    raise Fail()
                v = st[-k - 1]
                if n == 122:
                    del st[-k - 1]
                st.append(v)
            elif n == 123:
                if len(st) < 3:
                    raise Fail()
                st.append(st.pop(-3))
            elif n == 124:
                if len(st) < 2:
                    raise Fail()
                st.append(st.pop(-2))
            elif n == 125:                                   # TUCK
                if len(st) < 2:
                    raise Fail()
                trig.add('tuck_is_over')
                st.insert(len(st) - 2, st[-1])
            elif n == 130:
                if not st:
                    raise Fail()
                st.append(ser(len(st[-1])))
            elif n in (135, 136):
                if len(st) < 2:
                    raise Fail()
                b = st.pop(); a = st.pop()
                if n == 135:
                    st.append(b'\x01' if a == b else b'')
                elif a != b:
                    raise Fail()
            elif n in (139, 140, 143, 144, 145, 146):
                if not st:
                    raise Fail()
                x = st[-1]
                a = num(x)
                if n in (145, 146) and x != b'' and a == 0:
                    trig.add('truthiness_nonempty')
                st.pop()
                if n == 139: r = ser(a + 1)
                elif n == 140: r = ser(a - 1)
                elif n == 143: r = ser(-a)
                elif n == 144: r = ser(abs(a))
                elif n == 145: r = ser(1 if a == 0 else 0)
                else: r = ser(1 if a != 0 else 0)
                st.append(r)
            elif n in (147, 148, 154, 155, 156, 157, 158, 159, 160, 161, 162, 163, 164):
                if len(st) < 2:
                    raise Fail()
                x1, x2 = st[-2], st[-1]
                if n == 157 and (len(x1) > 4 or len(x2) > 4):
                    trig.add('numequalverify_long_operand_continues')
                a = num(x1); b = num(x2)
                if n == 148 and a != b:
                    trig.add('sub_operand_order')
                if n in (154, 155) and ((x1 != b'' and a == 0) or (x2 != b'' and b == 0)):
                    trig.add('truthiness_nonempty')
                if n in (156, 157, 158) and not (minimal(x1) and minimal(x2)):
                    trig.add('numequal_compares_bytes')
                st.pop(); st.pop()
                if n == 147: r = ser(a + b)
                elif n == 148: r = ser(a - b)
                elif n == 154: r = ser(1 if (a != 0 and b != 0) else 0)
                elif n == 155: r = ser(1 if (a != 0 or b != 0) else 0)
                elif n in (156, 157): r = ser(1 if a == b else 0)
                elif n == 158: r = ser(1 if a != b else 0)
                elif n == 159: r = ser(1 if a < b else 0)
                elif n == 160: r = ser(1 if a > b else 0)
                elif n == 161: r = ser(1 if a <= b else 0)
                elif n == 162: r = ser(1 if a >= b else 0)
                elif n == 163: r = ser(min(a, b))
                else: r = ser(max(a, b))
                st.append(r)
                if n == 157:
                    if not cast_to_bool(st[-1]):
                        raise Fail()
                    st.pop()
            elif n == 165:                                   # WITHIN
                if len(st) < 3:
                    raise Fail()
                x = num(st[-3]); lo = num(st[-2]); hi = num(st[-1])
                trig.add('within_operand_order')
                del st[-3:]
                st.append(ser(1 if lo <= x < hi else 0))
            elif n in (166, 167, 168, 169, 170):
                if not st:
                    raise Fail()
                x = st.pop()
                if n == 166: r = ripemd160(x)
                elif n == 167: r = hashlib.sha1(x).digest()
                elif n == 168: r = hashlib.sha256(x).digest()
                elif n == 169: r = ripemd160(hashlib.sha256(x).digest())
                else: r = hashlib.sha256(hashlib.sha256(x).digest()).digest()
                st.append(r)
            elif n in (172, 173):
                if len(st) < 2:
                    raise Fail()
                ok = core_checksig(st[-2], st[-1], trig, msg)
                st.pop(); st.pop()
                st.append(b'\x01' if ok else b'')
                if n == 173:
                    if not ok:
                        raise Fail()
                    st.pop()
            elif n in (174, 175):
                if st and not ms_plain(n, idx, cmds, st, vf, env):
                    trig.add('checkmultisig_conventions')
                i = 1
                if len(st) < i:
                    raise Fail()
                nk = num(st[-i])
                if nk < 0 or nk > 20:
                    raise Fail()
                nops += nk
                if nops > 201:
                    trig.add('no_resource_limits')
                    if limits:
                        raise Fail()
                i += 1
                ikey = i
                i += nk
                if len(st) < i:
                    raise Fail()
                ns = num(st[-i])
                if ns < 0 or ns > nk:
                    raise Fail()
                i += 1
                isig = i
                i += ns
                if len(st) < i:
                    raise Fail()
                ok = True
                while ok and ns > 0:
                    sig, pk = st[-isig], st[-ikey]
                    if sig != b'' and not der_ok(sig):
                        raise Fail()
                    good = sig != b'' and sig_ok(msg, sig, pk)
                    if good:
                        isig += 1
                        ns -= 1
                    ikey += 1
                    nk -= 1
                    if ns > nk:
                        ok = False
                for _ in range(i - 1):
                    st.pop()
                if len(st) < 1:
                    raise Fail()
                if st[-1] != b'':
                    raise Fail()                               # NULLDUMMY (BIP147)
                st.pop()
                st.append(b'\x01' if ok else b'')
                if n == 175:
                    if not ok:
                        raise Fail()
                    st.pop()
            elif n == 177:                                   # CLTV (BIP65)
                if not st:
                    raise Fail()
                lt = num(st[-1], 5)
                if lt < 0:
                    raise Fail()
                txl, sq = env.get('locktime'), env.get('sequence')
                if txl is None or sq is None:
                    raise Fail()                             # no transaction context
                if not ((txl < T and lt < T) or (txl >= T and lt >= T)):
                    raise Fail()
                if lt > txl:
                    raise Fail()
                if sq == 0xffffffff:
                    raise Fail()
            elif n == 178:                                   # CSV (BIP112)
                if not st:
                    raise Fail()
                sv = num(st[-1], 5)
                if sv < 0:
                    raise Fail()
                sq, ver = env.get('sequence'), env.get('version')
                if sq is None or ver is None:
                    raise Fail()                             # no transaction context
                if not sv & (1 << 31):
                    if ver < 0:
                        trig.add('csv_signed_version')       # outside 0 .. 2^32-1: Core reads the field as uint32_t
                    if (ver & 0xffffffff) < 2 or sq & (1 << 31):
                        raise Fail()
                    mask = (1 << 22) | 0xffff
                    a, b = sv & mask, sq & mask
                    if not ((b < 1 << 22 and a < 1 << 22) or (b >= 1 << 22 and a >= 1 << 22)):
                        raise Fail()
                    if a > b:
                        raise Fail()
            else:
                raise Out()
        if vf:
            raise Fail()
        if not st:
            raise Fail()
        if not cast_to_bool(st[-1]):
            if st[-1] != b'':
                trig.add('truthiness_nonempty')
            raise Fail()
        return 'VALID', st, trig
    except Fail:
        return 'INVALID', st, trig
    except Out:
        return 'OUT', st, trig


def stack_tok(st):
    return ','.join(hx(x) for x in st) if st else '.'


# ---------------------------------------------------------------- requests -> what they denote (also used by --replay)
def unhx(t):
    return b'' if t == '-' else bytes.fromhex(t)


def cmds_of_tok(t):
    if t == '-':
        return []
    return [int(x[1:], 16) if x[0] == 'o' else unhx(x[1:]) for x in t.split(',')]


def env_of_tok(t):
    """R:S:L:V -> dict (None = key absent); 'N' alone = no env_data argument at all"""
    if t == 'N':
        return None
    r, sq, lt, v = t.split(':')
    return dict(redeemscript=None if r == 'N' else unhx(r), sequence=None if sq == 'N' else int(sq),
                locktime=None if lt == 'N' else int(lt), version=None if v == 'N' else int(v))


def parse_steps(toks):
    steps = []
    for t in toks:
        f = t.split('/')
        if f[0] == 'N':
            steps.append(('N', int(f[1]), cmds_of_tok(f[2]), None if f[3] == 'N' else unhx(f[3]), env_of_tok(f[4])))
        else:
            steps.append(('E', int(f[1]), None if f[2] == 'N' else unhx(f[2]), env_of_tok(f[3])))
    return steps


def meta_of(c):
    """the case's meaning; rebuilt from the request line when the case comes from a replay file"""
    if c.meta is None:
        c.meta = {}
    m = c.meta
    if 'steps' not in m and 'cmds' not in m:
        t = c.req.split(' ')
        if t[0] == 'ses':
            m['steps'] = parse_steps(t[3:])
        elif t[0] == 'p2sh':
            c.meta = mk_p2sh(c.kind, t[1], bytes.fromhex(t[2]), bytes.fromhex(t[3])).meta
            m = c.meta
        else:
            m['cmds'], m['env'] = cmds_of_tok(t[4]), env_of_tok(t[1])
    return m


def is_session(c):
    return c.req.startswith('ses ')


def resolve(steps):
    """the documented meaning of a session, written from the docstrings of Script.__init__ / Script.evaluate: an
    evaluation uses the commands its object was constructed with, the message given to this call (else the last one
    given to the object, else the constructor's) and the env_data given to this call (else the last one, else the
    constructor's, else {}).  Nothing else takes part.  -> per step None (constructor) or (cmds, msg, env)"""
    objs, out = {}, []
    for st in steps:
        if st[0] == 'N':
            objs[st[1]] = [st[2], st[3], st[4] if st[4] else {}]
            out.append(None)
        else:
            o = objs.get(st[1])
            if o is None:
                out.append('missing')
                continue
            if st[2] is not None:
                o[1] = st[2]
            if st[3] is not None:
                o[2] = st[3]
            out.append((o[0], o[1], o[2]))
    return out


def ref(c):
    m = meta_of(c)
    if 'ref' not in m:
        m['ref'] = core_eval(m['cmds'], m['env'])
    return m['ref']


def sref(c):
    """per step of a session: None | (consensus verdict, stack, triggers, (cmds, msg, env))"""
    m = meta_of(c)
    if 'sref' not in m:
        out = []
        for r in resolve(m['steps']):
            if r is None or r == 'missing':
                out.append(None)
            else:
                out.append(core_eval(r[0], r[2], msg=r[1]) + (r,))
        m['sref'] = out
    return m['sref']


def cmds_in_domain(cmds):
    # integers 1..78 in a command list are push opcodes, not commands of a parsed script
    return not any(isinstance(x, int) and 1 <= x <= 78 for x in cmds)


def in_domain(c):
    m = meta_of(c)
    if 'steps' in m:
        return all(cmds_in_domain(st[2]) for st in m['steps'] if st[0] == 'N')
    return cmds_in_domain(m['cmds'])


def judge(v, stk, rv, rst):
    """one evaluation against consensus: library verdict token + stack token vs reference verdict + stack"""
    if v == 'UNIMPL':
        return None                         # outside "the opcodes the library implements"
    if rv == 'OUT':
        return 'library evaluates an opcode the consensus reference of this check does not cover: %s %s' % (v, stk[:80])
    lv = 'INVALID' if v.startswith('CRASH') else v
    if lv != rv:
        return 'library says %s, consensus says %s (final stack %s)' % (v, rv, stack_tok(rst)[:80])
    if lv == 'VALID' and stk != stack_tok(rst[:-1]):
        return 'both valid but final stacks differ: library %s (after its final pop), consensus %s' % (
            stk[:80], stack_tok(rst)[:80])
    return None


def triple_tok(r):
    ct = cmd_tok(r[0])
    if len(ct) > 150:
        ct = ct[:70] + '..' + ct[-70:]
    return '%s msg=%s env=%s' % (ct, 'None' if r[1] is None else r[1].hex()[:16], env_tok(r[2]))


def session_check(c, out):
    """every evaluation of the session on its own against consensus (signatures verified over the message of THAT
    evaluation), plus: equal (commands, message, env_data) evaluated twice in the process give equal answers"""
    refs = sref(c)
    toks = out.split(';')
    if len(toks) != len(refs):
        return 'session answered %d steps of %d: %s' % (len(toks), len(refs), out[:120])
    seen = {}
    for i, (t, r) in enumerate(zip(toks, refs)):
        if r is None:
            if t not in ('-', 'MISSING'):
                return 'step %d: unexpected answer %r' % (i, t[:80])
            continue
        if t.startswith('ODD') or ':' not in t:
            return 'step %d: unexpected answer %r' % (i, t[:100])
        v, stk = t.rsplit(':', 1)
        rv, rst, trig, trip = r
        k = triple_tok(trip)
        fk = (cmd_tok(trip[0]), trip[1], env_tok(trip[2]))
        if fk in seen and seen[fk][1] != t:
            return ('step %d and step %d evaluate the same commands under the same message and env_data in one process '
                    'and answer differently: %s then %s [%s]' % (seen[fk][0], i, seen[fk][1][:60], t[:60], k))
        seen.setdefault(fk, (i, t))
        if trig:
            continue                        # a recorded deviation class fired in this evaluation: not judged here
        bad = judge(v, stk, rv, rst)
        if bad:
            return 'step %d of the session (%s): %s' % (i, k, bad)
    return None


def prop_check(c, out):
    if out.startswith('ODD') or out == 'BADREQ' or out.startswith('CRASH '):
        return 'unexpected answer %r' % out[:100]
    if not in_domain(c):
        return None
    if is_session(c):
        return session_check(c, out)
    v, stk = out.split(' ', 1)
    if c.req.startswith('p2sh '):
        sig_b, spk_b = meta_of(c)['p2sh']
        rv = bip16_verdict(sig_b, spk_b)
        lv = 'INVALID' if v.startswith('CRASH') else v
        if rv == 'OUT' or lv == 'UNIMPL':
            return None
        if lv != rv:
            return ('parsed spend: library says %s, consensus (BIP16 on the bytes as pushed; hash160 of the pushed redeem '
                    'script %s) says %s' % (v, hash160(raw_parse(sig_b)[-1]).hex(), rv))
        return None
    rv, rst, _ = ref(c)
    return judge(v, stk, rv, rst)


CLASS_IDS = ['sub_operand_order', 'pick_index_off_by_one', 'roll_index_off_by_one', 'tuck_is_over', '2swap_order',
             'truthiness_nonempty', 'numequal_compares_bytes', 'numequalverify_long_operand_continues',
             'within_operand_order', 'checkmultisig_conventions',
             'second_else_ignored', 'checksig_raises', 'unexecuted_or_disabled_opcode', 'no_resource_limits',
             'csv_signed_version']


def _cls(cid):
    # sessions: evaluations in which a class fired are not judged against consensus at all (session_check), so a
    # failing session is never excused
    # parsed P2SH spends are generated inside the domain where the library's conventions agree with consensus and are
    # judged by the BIP16 oracle on the raw bytes: never excused
    return lambda c, io, mo: (not is_session(c)) and not c.req.startswith('p2sh ') and cid in ref(c)[2]


KNOWN_CLASSES = {cid: _cls(cid) for cid in CLASS_IDS}


def _is_p2sh_output(spk_b):
    return len(spk_b) == 23 and spk_b[:2] == b'\xa9\x14' and spk_b[22] == 0x87


def _other_typed(d):
    """scripts.get_data_type(d) == 'other': not signature- / key-shaped, not 20 / 32 / 64 / 1..4 bytes long"""
    if d[:1] == b'\x30' and 69 <= len(d) <= 74:
        return False
    if (d[:1] in (b'\x02', b'\x03') and len(d) == 33) or (d[:1] == b'\x04' and len(d) == 65):
        return False
    return not (len(d) in (20, 32, 64) or 1 <= len(d) <= 4) and len(d) > 0


def _pushed_data_executed(c, io, mo):
    """class pushed_data_executed: Script.parse treats EVERY pushed item it cannot type (get_data_type 'other') as a
    serialized script and hands evaluate() its commands instead of the item - also when the output is not P2SH, where
    consensus only pushes the bytes.  Decided from the request: a parsed spend of a NON-P2SH output whose scriptSig
    ends in such a push."""
    if not c.req.startswith('p2sh '):
        return False
    sig_b, spk_b = meta_of(c)['p2sh']
    sc = raw_parse(sig_b)
    return bool(sc) and not _is_p2sh_output(spk_b) and isinstance(sc[-1], bytes) and _other_typed(sc[-1]) \
        and raw_parse(sc[-1]) is not None


KNOWN_CLASSES['pushed_data_executed'] = _pushed_data_executed
_STATUS = None


def recorded(cls):
    """inputs of a class that fails on the unchanged library are generated once the finding is recorded
    (known_findings.json or VERIF_EXTRA_KNOWN)"""
    global _STATUS
    if _STATUS is None:
        from core import load_known
        _STATUS = {(e.get('class') or e.get('id')): e.get('status') for e in load_known(PROP)}
    return cls in _STATUS

XCHECK_FAIL = []


def xcheck(core_tok, cmds, env, msg, rv_limits):
    """the two Core transcriptions (Coq model, extracted; the Python reference above) on one evaluation"""
    cv, cst, lim = core_tok
    if cv == 'UNIMPL':
        return True
    rv, rst, _ = core_eval(cmds, env, limits=False, msg=msg)
    if rv == 'OUT':
        return True
    ok = (cv == rv) and (cv != 'VALID' or cst == stack_tok(rst))
    if ok and lim == 'L0' and rv_limits != 'INVALID':
        ok = False
    return ok


def same(c, io, mo):
    """model answer = '<lib answer> | <core answer>'; ev: '<verdict> <stack>' | '<verdict> <stack> <L0|L1>';
    ses: per step, joined by ';': '-' or '<verdict>:<stack>' | '-' or '<verdict>:<stack>:<L0|L1>'"""
    try:
        lib, core = mo.split(' | ')
    except ValueError:
        return False
    if lib != io:
        return False
    if not in_domain(c):
        return True
    # cross-check of the two Core transcriptions (Coq model vs the Python reference above)
    if is_session(c):
        ok = True
        for t, r in zip(core.split(';'), sref(c)):
            if r is None:
                ok = ok and t in ('-', 'MISSING')
                continue
            if 'no_message' in r[2]:
                continue
            ok = ok and xcheck(t.split(':'), r[3][0], r[3][2], r[3][1], r[0])
    else:
        m = meta_of(c)
        ok = xcheck(core.split(' '), m['cmds'], m['env'], MESSAGE, ref(c)[0])
    if not ok:
        XCHECK_FAIL.append((c.req[:300], core[:300]))
    return ok


def is_trivial(c, out):
    return out.startswith('UNIMPL') or out.startswith('CRASH:KeyError') or out == 'BADREQ'


# ---------------------------------------------------------------- generators
IMPL_OPS = [97, 105, 106, 109, 110, 111, 112, 113, 114, 115, 116, 117, 118, 119, 120, 121, 122, 123, 124, 125, 130, 135,
            136, 139, 140, 143, 144, 145, 146, 147, 148, 154, 155, 156, 157, 158, 163, 164, 165, 166, 167, 168, 169, 170,
            172, 173, 174, 175, 176, 177, 178, 179, 185]
# (items needed, net change) as Core defines them: used only to keep random programs alive
ARITY = {97: (0, 0), 105: (1, -1), 106: (0, 0), 109: (2, -2), 110: (2, 2), 111: (3, 3), 112: (4, 2), 113: (6, 0),
         114: (4, 0), 115: (1, 1), 116: (0, 1), 117: (1, -1), 118: (1, 1), 119: (2, -1), 120: (2, 1), 121: (2, 0),
         122: (2, -1), 123: (3, 0), 124: (2, 0), 125: (2, 1), 130: (1, 1), 135: (2, -1), 136: (2, -2), 139: (1, 0),
         140: (1, 0), 143: (1, 0), 144: (1, 0), 145: (1, 0), 146: (1, 0), 147: (2, -1), 148: (2, -1), 154: (2, -1),
         155: (2, -1), 156: (2, -1), 157: (2, -2), 158: (2, -1), 163: (2, -1), 164: (2, -1), 165: (3, -2), 166: (1, 0),
         167: (1, 0), 168: (1, 0), 169: (1, 0), 170: (1, 0), 172: (2, -1), 173: (2, -2), 174: (3, -2), 175: (3, -3),
         176: (0, 0), 177: (1, 0), 178: (1, 0), 179: (0, 0), 185: (0, 0)}
SMALL = [0x00, 0x4f] + list(range(0x51, 0x61))


def rand_push(rng):
    r = rng.random()
    if r < 0.55:
        return rng.choice(SMALL[:8])
    if r < 0.85:
        return rng.choice(ITEMS)
    if r < 0.93:
        return ser(rng.choice([-1, 1]) * rng.getrandbits(rng.randrange(1, 40)))
    return rng.choice(SMALL)


def rand_block(rng, depth, budget, est):
    out = []
    while budget > 0:
        budget -= 1
        r = rng.random()
        if r < 0.10 and depth < 3:
            out.append(rng.choice([0x00, 0x51, 0x51, 0x52, b'\x00', b'\x80', b'\x00\x00', 0x4f]) if rng.random() < 0.8
                       else rand_push(rng))
            out.append(rng.choice([99, 99, 100]))
            a, est_a = rand_block(rng, depth + 1, rng.randrange(0, 6), est)
            out += a
            est2 = est_a
            if rng.random() < 0.6:
                out.append(103)
                b, est_b = rand_block(rng, depth + 1, rng.randrange(0, 6), est)
                out += b
                est2 = min(est_a, est_b)
                if rng.random() < 0.06:
                    out.append(103)
                    b2, _ = rand_block(rng, depth + 1, rng.randrange(0, 3), est)
                    out += b2
            if rng.random() < 0.96:
                out.append(104)
            est = est2
        elif r < 0.45 or est == 0:
            out.append(rand_push(rng))
            est += 1
        elif r < 0.47:
            out.append(rng.choice([80, 98, 101, 107, 108, 126, 159, 160, 171, 186, 255, 103, 104]))
        else:
            ops = [o for o in IMPL_OPS if ARITY[o][0] <= est] if rng.random() < 0.9 else IMPL_OPS
            o = rng.choice(ops)
            out.append(o)
            est = max(0, est + ARITY[o][1])
    return out, est


def rand_env(rng):
    if rng.random() < 0.7:
        return ENV_FULL
    return dict(redeemscript=rng.choice([None, b'\x51', b'', H160A]),
                sequence=rng.choice([None, 0, 5, 0xffffffff, 0xfffffffe, 1 << 31, (1 << 22) | 5]),
                locktime=rng.choice([None, 0, 1, 100, 49999999, 50000000, 50000001, 499999999, 500000000, 500000001]),
                version=rng.choice([None, 1, 2]))


def ms_script(sigs, m, keys, dummy=True, verify=False, tail=()):
    return ([0x00] if dummy else []) + list(sigs) + [0x50 + m] + list(keys) + [0x50 + len(keys)] + \
        [175 if verify else 174] + list(tail)


WITNESSES = [
    [0x52, 0x55, 148],                                  # 2 5 SUB
    [0x51, 0x52, 0x53, 0x00, 121],                      # 1 2 3 0 PICK
    [0x51, 0x52, 0x53, 0x00, 122],                      # 1 2 3 0 ROLL
    [0x51, 0x52, 125],                                  # 1 2 TUCK
    [0x51, 0x52, 0x53, 0x54, 114],                      # 1 2 3 4 2SWAP
    [b'\x00', 105, 0x51],                               # 00 VERIFY 1
    [b'\x80'],                                          # final 80
    [b'\x00', 0x00, 156],                               # 00 0 NUMEQUAL
    [0x51, b'\x01\x02\x03\x04\x05', 0x51, 157],          # 1 <5 bytes> 1 NUMEQUALVERIFY
    [0x53, 0x52, 0x55, 165],                            # 3 2 5 WITHIN
    [0x51, 178],                                        # 1 CSV
    [0x00, 99, 0x00, 103, 0x51, 103, 0x00, 104],        # 0 IF 0 ELSE 1 ELSE 0 ENDIF
    [0x00, 99, 126, 104, 0x51],                         # 0 IF CAT ENDIF 1
    [0x51] + [97] * 202,                                # 202 NOPs
]


# ---------------------------------------------------------------- environment sweeps: BIP68 / BIP112 / BIP65 bit structure
DIS, TYP = 1 << 31, 1 << 22
ALLSTRAY = 0x7fbf0000                                   # bits 16-21 and 23-30: no meaning in BIP68
NOSIG = '_'


def mkenv(kind, cmds, env):
    """like mk, without the signature tables (no signature operation in these scripts)"""
    return Case(kind, 'ev %s %s %s %s' % (env_tok(env), NOSIG, NOSIG, cmd_tok(cmds)), meta={'cmds': list(cmds), 'env': env})


def pad_to(b, n):
    """a non-minimal encoding of the same number, n bytes long (b minimal, shorter than n)"""
    if not b:
        return b'\x00' * n
    neg = b[-1] & 0x80
    return b[:-1] + bytes([b[-1] & 0x7f]) + b'\x00' * (n - len(b) - 1) + bytes([0x80 if neg else 0])


def seq_fields(dis, typ, strays, lows):
    return [d | t | st | lo for d in dis for t in typ for st in strays for lo in lows]


def signed_versions_on():
    """negative versions (a caller handing over int32 values) are generated once the class csv_signed_version is
    recorded (known or fixed) in known_findings.json / VERIF_EXTRA_KNOWN"""
    for p in (os.path.join(VERIF, 'known_findings.json'), os.environ.get('VERIF_EXTRA_KNOWN')):
        try:
            if p and any(e.get('property') == PROP and e.get('id') == 'csv_signed_version'
                         for e in json.load(open(p))['findings']):
                return True
        except Exception:
            pass
    return False


def gen_lock_sweeps(big):
    cs = []
    tail = [117, 0x51]                                  # DROP 1: the verdict is the lock's, whatever the operand's truth value
    lows = [0, 9, 10, 11, 0xffff]
    strays_s = [0, 1 << 16, 1 << 21, 1 << 23, 1 << 30, ALLSTRAY]
    strays_o = strays_s if big else [0, 1 << 16, ALLSTRAY]
    operands = seq_fields((0, DIS), (0, TYP), strays_o, lows)
    seqs = seq_fields((0, DIS), (0, TYP), strays_s, lows) + [None, 0xffffffff, 0xfffffffe]
    versions = [None, 0, 1, 2, 3, 0x7fffffff, 0x80000000, 0xffffffff]
    if signed_versions_on():
        versions += [-1, -2, -0x80000000, -0x7fffffff]
    # OP_CHECKSEQUENCEVERIFY: operand x nSequence, every combination of the three fields and the bits without meaning
    for n in operands:
        for sq in seqs:
            cs.append(mkenv('csvbits', [ser(n), 178] + tail, dict(ENV_FULL, sequence=sq, version=2)))
    ops_small = operands if big else seq_fields((0,), (0, TYP), (0, ALLSTRAY), (9, 10, 11)) + [DIS | 10, DIS | TYP | ALLSTRAY | 9]
    seqs_small = seqs if big else seq_fields((0, DIS), (0, TYP), (0, 1 << 16), (9, 10, 11)) + [None]
    for ver in versions:
        if ver == 2:
            continue
        for n in ops_small:
            for sq in seqs_small:
                cs.append(mkenv('csvbits', [ser(n), 178] + tail, dict(ENV_FULL, sequence=sq, version=ver)))
    # operand encodings: minimal, padded (same number), exactly 5 bytes, 6 bytes (number too long), negative, -0, empty
    for v in (10, TYP | 10, DIS | 10, (1 << 16) | 10, 0xffff, DIS | TYP | 0xffff):
        m = ser(v)
        encs = [m, ser(-v), b'\x80', b'', b'\x00', pad_to(m, 6), b'\x0a\x00\x00\x00\x00\x80']
        encs += [pad_to(m, k) for k in range(len(m) + 1, 6)]
        for enc in encs:
            for sq in (5, 10, 11, (1 << 16) | 5, TYP | 10, TYP | ALLSTRAY | 5, DIS | 10, 0xffffffff):
                for ver in (1, 2):
                    cs.append(mkenv('csvbits', [enc, 178] + tail, dict(ENV_FULL, sequence=sq, version=ver)))
                    cs.append(mkenv('csvbits', [enc, 178], dict(ENV_FULL, sequence=sq, version=ver)))
    cs.append(mkenv('csvbits', [178], ENV_FULL))
    cs.append(mkenv('csvbits', [0x51, 178, 178, 117, 0x5a, 178], dict(ENV_FULL, sequence=(1 << 16) | 5)))
    # OP_CHECKLOCKTIMEVERIFY: operand x nLockTime x nSequence around 500000000, 2^31, 2^32, 2^39
    vals = [0, 1, 100, T - 1, T, T + 1, (1 << 31) - 1, 1 << 31, (1 << 31) + 1, (1 << 32) - 1, 1 << 32, (1 << 32) + 1,
            (1 << 39) - 1, -1, -T]
    lts = [None] + [v for v in vals if 0 <= v < (1 << 32)]
    sqs = [None, 0, 1, 0x7fffffff, 0x80000000, 0xfffffffe, 0xffffffff, TYP | 5, 0xffff]
    for n in vals:
        for lt in lts:
            for sq in (sqs if big else sqs[:7]):
                cs.append(mkenv('cltvenv', [ser(n), 177] + tail, dict(ENV_FULL, locktime=lt, sequence=sq)))
        if n > 0:
            for lt in (n - 1, n, n + 1):
                if 0 <= lt < (1 << 32):
                    for sq in (0xfffffffe, 0xffffffff, 0):
                        cs.append(mkenv('cltvenv', [ser(n), 177], dict(ENV_FULL, locktime=lt, sequence=sq)))
    for v in (100, T, T + 1, 1 << 31, (1 << 32) - 1):
        m = ser(v)
        encs = [pad_to(m, k) for k in range(len(m) + 1, 7)] + [ser(-v), b'\x80', b'', b'\x00']
        for enc in encs:
            for lt in (v - 1, v, v + 1, 0, (1 << 32) - 1):
                if 0 <= lt < (1 << 32):
                    for sq in (0, 0xffffffff):
                        cs.append(mkenv('cltvenv', [enc, 177] + tail, dict(ENV_FULL, locktime=lt, sequence=sq)))
    return cs


# ---------------------------------------------------------------- sessions: several evaluations in ONE process
MB = hashlib.sha256(b'c19-b').digest()
MC = hashlib.sha256(b'c19-c').digest()
MSGS = [MESSAGE, MB, MC]
PK1, PK2, PK3 = pub_of(1), pub_of(2), pub_of(3)
SKEYS = {1: PK1, 2: PK2, 3: PK3}
SG = {(d, m): ecdsa_sign(d, m) for d in SKEYS for m in MSGS}          # SG[d, m] is valid for key d under message m only
assert PK1 == PKA
# the frozen table of the `ev` universe is what real ECDSA says about it, and the harness's own signatures verify
assert all(sig_ok(MESSAGE, sg, k) == ((sg, k) in VALID_PAIRS) for sg in SIGS for k in KEYS)
assert all(sig_ok(m2, SG[d, m], SKEYS[d2]) == (m == m2 and d == d2) for (d, m) in SG for m2 in MSGS for d2 in SKEYS)


def hash160(b):
    return ripemd160(hashlib.sha256(b).digest())


def menv_tok(env):
    return 'N' if env is None else env_tok(env)


def session_tables(steps):
    """the signature oracle of the models for this session, (message, signature, key) -> V | I, computed with sig_ok:
    library: parsable signature and parsable (or empty) key verify or not, anything else raises, no message raises;
    Core: a BIP66 signature verifies or not against any key bytes"""
    sigs, keys, msgs = [], [], []
    for st in steps:
        if st[0] == 'N':
            for x in st[2]:
                if isinstance(x, bytes):
                    if der_ok(x) and x not in sigs:
                        sigs.append(x)
                    if key_point(x) is not None and x not in keys:
                        keys.append(x)
    for r in resolve(steps):
        if r is not None and r != 'missing' and r[1] is not None and r[1] not in msgs:
            msgs.append(r[1])
    lib, core = [], []
    for m in msgs:
        for sg in sigs:
            for k in keys:
                v = 'V' if sig_ok(m, sg, k) else 'I'
                lib.append('%s/%s/%s=%s' % (m.hex(), sg.hex(), k.hex(), v))
                if v == 'V':
                    core.append('%s/%s/%s=V' % (m.hex(), sg.hex(), k.hex()))
            lib.append('%s/%s/-=I' % (m.hex(), sg.hex()))
            core.append('%s/%s/*=I' % (m.hex(), sg.hex()))
    return ','.join(lib) or '_', ','.join(core) or '_'


def mkses(kind, steps):
    toks = []
    for st in steps:
        if st[0] == 'N':
            toks.append('N/%d/%s/%s/%s' % (st[1], cmd_tok(st[2]), 'N' if st[3] is None else st[3].hex(), menv_tok(st[4])))
        else:
            toks.append('E/%d/%s/%s' % (st[1], 'N' if st[2] is None else st[2].hex(), menv_tok(st[3])))
    lib, core = session_tables(steps)
    return Case(kind, 'ses %s %s %s' % (lib, core, ' '.join(toks)), meta={'steps': steps})


class Ses:
    def __init__(self):
        self.steps, self.n = [], 0

    def new(self, cmds, msg=None, env=None):
        self.n += 1
        self.steps.append(('N', self.n, list(cmds), msg, env))
        return self.n

    def ev(self, i, msg=None, env=None):
        self.steps.append(('E', i, msg, env))

    def fresh(self, cmds, msg=None, env=None):
        """the adapter's usual way: a new object for every evaluation"""
        self.ev(self.new(cmds), msg, env)


def spend_templates(sg, pk):
    return [
        [sg, pk, 172],                                                  # P2PK
        [sg, pk, 118, 169, hash160(pk), 136, 172],                       # P2PKH
        [sg, pk, 173, 0x51],                                            # CHECKSIGVERIFY 1
        [sg, pk, 0x51, 99, 172, 103, 109, 0x00, 104],                    # 1 IF CHECKSIG ELSE 2DROP 0 ENDIF
        [sg, pk, 172, 145],                                             # CHECKSIG NOT (valid iff the signature is not)
        [sg, pk, 118, 169, hash160(pk), 136, 173, 0x52, 0x53, 147],      # P2PKH-VERIFY then 2 3 ADD
    ]


CLEAN_PROGRAMS = [
    [0x52, 0x53, 147, 0x55, 135],                                       # 2 3 ADD 5 EQUAL
    [0x51, 99, 0x52, 103, 0x53, 104, 0x57, 0x58],                        # 1 IF 2 ELSE 3 ENDIF 7 8   (leaves 2 7)
    [0x00, 100, 0x51, 99, 0x55, 103, 0x56, 104, 103, 0x57, 104, 118],    # 0 NOTIF 1 IF 5 ELSE 6 ENDIF ELSE 7 ENDIF DUP
    [0x00, 99, 0x52, 103, 0x53, 0x54, 104, 116],                         # 0 IF 2 ELSE 3 4 ENDIF DEPTH
    [b'abc', 168, 130, 0x01 + 0x50, 117, 117, 0x51],                      # SHA256 SIZE ... DROP DROP 1
    [0x55, 0x56, 0x57, 123, 124, 110, 111],                              # ROT SWAP 2DUP 3DUP
    [0x51, 0x00, 99, 103, 0x51, 99, 0x5a, 104, 104],                      # nested IF inside ELSE
    [0x53, 118, 147, 139, 140, 143, 144],                                # arithmetic chain
]


def clean_program(rng):
    """a random program (nested conditionals) in whose consensus evaluation no recorded deviation class fires"""
    for _ in range(40):
        n0 = rng.randrange(0, 4)
        pre = [rand_push(rng) for _ in range(n0)]
        body, _ = rand_block(rng, 0, rng.randrange(2, 14), n0)
        if rng.random() < 0.6:
            body.append(rng.choice([0x51, 0x52, 0x00]))
        cmds = (pre + body)[:24]
        if not cmds_in_domain(cmds):
            continue
        rv, _, trig = core_eval(cmds, ENV_FULL)
        if rv != 'OUT' and not trig:
            return cmds
    return rng.choice(CLEAN_PROGRAMS)


def lock_script(kind, n):
    return [ser(n), 178 if kind == 'csv' else 177, 117, 0x51]


def gen_sessions(rng, big):
    cs = []
    mult = 10 if big else 1

    def noise(s, k=1):
        for _ in range(k):
            prog = rng.choice(CLEAN_PROGRAMS) if rng.random() < 0.5 else clean_program(rng)
            s.fresh(prog, rng.choice(MSGS + [None]), rng.choice([None, ENV_FULL, {}]))

    # --- A: one signature / key pair under different messages (valid then invalid, invalid then valid, again)
    for d in SKEYS:
        for ti in range(6):
            for pat in range(6):
                for rep in range(mult):
                    m1, m2 = rng.sample(MSGS, 2)
                    sg = SIGA if (d == 1 and m1 == MESSAGE and rng.random() < 0.5) else SG[d, m1]
                    t = spend_templates(sg, SKEYS[d])[ti]
                    s = Ses()
                    if rng.random() < 0.3:
                        noise(s)
                    if pat == 0:                                    # fresh objects: valid, replayed, valid again
                        s.fresh(t, m1); s.fresh(t, m2); s.fresh(t, m1)
                    elif pat == 1:                                  # fresh objects: wrong digest first, then the right one
                        s.fresh(t, m2); s.fresh(t, m1); s.fresh(t, m2)
                    elif pat == 2:                                  # ONE object evaluated again and again
                        o = s.new(t)
                        s.ev(o, m1); s.ev(o, m2); s.ev(o, m1); s.ev(o, m1)
                    elif pat == 3:                                  # message given to the constructor
                        a = s.new(t, m1); b = s.new(t, m2)
                        s.ev(a); s.ev(b); s.ev(a); s.ev(b, m1)
                    elif pat == 4:                                  # interleaved with unrelated work and another key
                        d2 = rng.choice([x for x in SKEYS if x != d])
                        t2 = rng.choice(spend_templates(SG[d2, m2], SKEYS[d2]))
                        s.fresh(t, m1); noise(s); s.fresh(t2, m2); s.fresh(t, m2); s.fresh(t2, m1); noise(s); s.fresh(t, m1)
                    else:                                           # the same signature in two different scripts
                        t3 = spend_templates(sg, SKEYS[d])[(ti + 1 + rng.randrange(5)) % 6]
                        s.fresh(t, m2); s.fresh(t3, m1); s.fresh(t3, m2); s.fresh(t, m1)
                    cs.append(mkses('ses_replay', s.steps))
    # two signatures in one script, each for its own message: never both valid
    for rep in range(4 * mult):
        d1, d2 = rng.sample(list(SKEYS), 2)
        m1, m2 = rng.sample(MSGS, 2)
        t = [SG[d1, m1], SKEYS[d1], 173, SG[d2, m2], SKEYS[d2], 172]
        t_ok = [SG[d1, m1], SKEYS[d1], 173, SG[d2, m1], SKEYS[d2], 172]
        s = Ses()
        s.fresh(t_ok, m1); s.fresh(t, m1); s.fresh(t, m2); s.fresh(t_ok, m2); s.fresh(t_ok, m1)
        cs.append(mkses('ses_replay', s.steps))
    # bare multisig (the form in which the library's conventions cannot show, see ms_plain): all signatures for one message
    for rep in range(16 * mult):
        nk = rng.choice([1, 2, 2, 3, 3])
        ks = rng.sample(list(SKEYS), nk)
        ns = rng.randrange(1, nk + 1)
        signers = sorted(rng.sample(range(nk), ns))
        m1, m2 = rng.sample(MSGS, 2)
        t = ms_script([SG[ks[i], m1] for i in signers], ns, [SKEYS[k] for k in ks])
        s = Ses()
        pat = rep % 4
        if pat == 0:
            s.fresh(t, m1, ENV_FULL); s.fresh(t, m2, ENV_FULL); s.fresh(t, m1, ENV_FULL)
        elif pat == 1:
            s.fresh(t, m2, ENV_FULL); s.fresh(t, m1, ENV_FULL); s.fresh(t, m2, ENV_FULL)
        elif pat == 2:
            o = s.new(t, None, ENV_FULL)
            s.ev(o, m1); s.ev(o, m2); noise(s); s.ev(o, m1)
        else:
            # one signature of the set replaced by the same key's signature for the other message
            j = rng.choice(signers)
            t2 = ms_script([SG[ks[i], m2 if i == j else m1] for i in signers], ns, [SKEYS[k] for k in ks])
            s.fresh(t, m1, ENV_FULL); s.fresh(t2, m1, ENV_FULL); s.fresh(t2, m2, ENV_FULL); s.fresh(t, m2, ENV_FULL)
        cs.append(mkses('ses_replay', s.steps))
    # --- B: the same script under different env_data (relative / absolute locks), same object and fresh objects
    csv_envs = [dict(ENV_FULL, sequence=sq, version=v) for sq in (5, 10, 11, (1 << 16) | 5, TYP | 10, DIS | 11, 0xffffffff)
                for v in (1, 2)]
    cltv_envs = [dict(ENV_FULL, locktime=lt, sequence=sq) for lt in (99, 100, 101, T, T + 100) for sq in (0, 0xffffffff)]
    for rep in range(24 * mult):
        kind = rng.choice(['csv', 'cltv'])
        n = rng.choice([10, TYP | 10, (1 << 16) | 10]) if kind == 'csv' else rng.choice([100, T + 50])
        t = lock_script(kind, n)
        envs = csv_envs if kind == 'csv' else cltv_envs
        s = Ses()
        o = s.new(t, None, rng.choice(envs)) if rng.random() < 0.5 else s.new(t)
        for _ in range(rng.randrange(3, 7)):
            e = rng.choice(envs)
            r = rng.random()
            if r < 0.4:
                s.ev(o, None, e)
            elif r < 0.8:
                s.fresh(t, None, e)
            else:
                s.ev(o)                                             # keeps the env_data of the call before
        if rng.random() < 0.4:
            noise(s)
        s.ev(o, None, rng.choice(envs))
        cs.append(mkses('ses_env', s.steps))
    # a contract with both: <sig> <sel> IF <pkA> ELSE <lock> CLTV DROP <pkB> ENDIF CHECKSIG, message and env vary together
    for rep in range(12 * mult):
        da, db = rng.sample(list(SKEYS), 2)
        m1, m2 = rng.sample(MSGS, 2)
        body = [99, SKEYS[da], 103, ser(100), 177, 117, SKEYS[db], 104, 172]
        claim = [SG[da, m1], 0x51] + body
        refund = [SG[db, m1], 0x00] + body
        s = Ses()
        oc, orf = s.new(claim), s.new(refund)
        for _ in range(rng.randrange(4, 8)):
            s.ev(rng.choice([oc, orf]), rng.choice([m1, m2]), rng.choice(cltv_envs))
        cs.append(mkses('ses_env', s.steps))
    # --- C: the same Script object evaluated twice (conditionals consume the command list, runs leave a stack behind)
    for rep in range(30 * mult):
        prog = CLEAN_PROGRAMS[rep % len(CLEAN_PROGRAMS)] if rep < 2 * len(CLEAN_PROGRAMS) else clean_program(rng)
        s = Ses()
        o = s.new(prog, rng.choice([None, MESSAGE]), rng.choice([None, ENV_FULL]))
        s.ev(o); s.ev(o)
        if rng.random() < 0.5:
            noise(s)
        s.ev(o, rng.choice([None, MB]), rng.choice([None, ENV_FULL, {}]))
        o2 = s.new(prog)
        s.ev(o2); s.ev(o)
        cs.append(mkses('ses_object', s.steps))
    # --- D: free mixture over a pool of objects
    for rep in range(40 * mult):
        s = Ses()
        pool = []
        for _ in range(rng.randrange(2, 5)):
            r = rng.random()
            if r < 0.5:
                d, m = rng.choice(list(SKEYS)), rng.choice(MSGS)
                pool.append(s.new(rng.choice(spend_templates(SG[d, m], SKEYS[d])), rng.choice([None, m, MB]),
                                  rng.choice([None, ENV_FULL])))
            elif r < 0.75:
                pool.append(s.new(lock_script('csv', rng.choice([10, TYP | 10])), None, rng.choice([None] + csv_envs)))
            else:
                pool.append(s.new(clean_program(rng), rng.choice([None, MC])))
        for _ in range(rng.randrange(5, 12)):
            s.ev(rng.choice(pool), rng.choice([None, None] + MSGS), rng.choice([None, None, ENV_FULL] + csv_envs[:6]))
        cs.append(mkses('ses_mix', s.steps))
    return cs


# ---------------------------------------------------------------- scripts that reach evaluate() through PARSING raw bytes
# `p2sh <form> <scriptSig hex> <scriptPubKey hex>`: the harness serialises a P2SH spend itself (own serializer, push
# opcode chosen per item: direct / OP_PUSHDATA1 / OP_PUSHDATA2 - consensus does not demand minimal pushes), the library
# PARSES the bytes (Script.parse_bytes / parse_hex / parse on a stream / two parsed halves added) and evaluates what it
# parsed.  Expected library answer (model): evaluation of the flattened command list (signature pushes, the commands of
# the pushed redeem script, the output script) with env_data['redeemscript'] = THE BYTES ACTUALLY PUSHED.  Independent
# oracle: BIP16 on the raw bytes, with this file's EvalScript, parser and HASH160.
P2SH_FORMS = ['pb', 'ph', 'pio', 'add']


def push_enc(data, enc):
    n = len(data)
    if enc == 'd' and n <= 75:
        return bytes([n]) + data
    if enc in ('d', '1') and n <= 255:
        return b'\x4c' + bytes([n]) + data
    if enc in ('d', '1', '2'):
        return b'\x4d' + n.to_bytes(2, 'little') + data
    return b'\x4e' + n.to_bytes(4, 'little') + data


def raw_parse(b):
    """raw script bytes -> command list (opcodes as int, pushes as bytes); None when a push runs over the end"""
    out, i = [], 0
    while i < len(b):
        ch = b[i]
        i += 1
        if 1 <= ch <= 78:
            if ch <= 75:
                n = ch
            else:
                w = {76: 1, 77: 2, 78: 4}[ch]
                if i + w > len(b):
                    return None
                n = int.from_bytes(b[i:i + w], 'little')
                i += w
            if i + n > len(b):
                return None
            out.append(b[i:i + n])
            i += n
        else:
            out.append(ch)
    return out


def push_only(cmds):
    return all(isinstance(c, bytes) or c <= 96 for c in cmds)


def bip16_verdict(sig_b, spk_b):
    """consensus verdict of spending an output with script spk_b by scriptSig sig_b (BIP16 active, no witness)"""
    sc, pc = raw_parse(sig_b), raw_parse(spk_b)
    if sc is None or pc is None:
        return 'INVALID'
    is_p2sh = len(spk_b) == 23 and spk_b[:2] == b'\xa9\x14' and spk_b[22] == 0x87
    if is_p2sh and not push_only(sc):
        return 'INVALID'
    if not push_only(sc):
        return 'OUT'                              # (stack hand-over between the two scripts: not built here)
    rv, rst, _ = core_eval(sc + pc, {}, msg=MESSAGE)
    if rv != 'VALID' or not is_p2sh:
        return rv
    # the serialized script is the last item the scriptSig pushed; it runs on the stack below it
    rv0, st0, _ = core_eval(sc + [0x51], {}, msg=MESSAGE)
    if rv0 != 'VALID' or len(st0) < 2:
        return 'INVALID' if rv0 != 'OUT' else 'OUT'
    redeem = st0[-2]
    rc = raw_parse(redeem)
    if rc is None:
        return 'INVALID'
    rv2, _, _ = core_eval(sc[:-1] + rc, dict(redeemscript=redeem), msg=MESSAGE)
    return rv2


def mk_p2sh(kind, form, sig_b, spk_b):
    sc, pc = raw_parse(sig_b), raw_parse(spk_b)
    redeem = sc[-1]
    cmds = sc[:-1] + raw_parse(redeem) + pc
    env = dict(redeemscript=redeem, sequence=None, locktime=None, version=None)
    return Case(kind, 'p2sh %s %s %s' % (form, hx(sig_b), hx(spk_b)), meta={'cmds': cmds, 'env': env, 'p2sh': (sig_b, spk_b)})


def model_req(c):
    if c.req.startswith('p2sh '):
        m = meta_of(c)
        return 'ev %s %s %s %s' % (env_tok(m['env']), LIBSIG, CORESIG, cmd_tok(m['cmds']))
    return c.req


def gen_p2sh(rng, big):
    """m-of-n multisig P2SH spends inside the domain on which the library's CHECKMULTISIG conventions agree with
    consensus (empty dummy, BIP66 signatures, decodable keys, 1 <= m <= n <= 3): every choice of push opcode for the
    keys inside the redeem script, for the signatures and for the redeem script push; the output commits to the pushed
    bytes / to the canonical re-serialisation / to another script / to the hash of the flattened commands."""
    cs = []
    shapes = [(1, [0]), (1, [0, 1]), (2, [0, 1]), (2, [0, 1, 2]), (1, [2, 0]), (3, [0, 1, 2]), (2, [1, 2])]
    encs = ['d', '1', '2']

    def redeem_of(m, ks, kenc):
        return bytes([0x50 + m]) + b''.join(push_enc(KEYS[k], e) for k, e in zip(ks, kenc)) + bytes([0x50 + len(ks), 174])

    def one(m, ks, kenc, senc, renc, sigsel, commit, form):
        red = redeem_of(m, ks, kenc)
        canon = redeem_of(m, ks, ['d'] * len(ks))
        sigs = {'good': [SIGS[k] for k in ks[:m]], 'last': [SIGS[k] for k in ks[-m:]],
                'swap': [SIGS[k] for k in reversed(ks[:m])], 'foreign': [SIGS[[x for x in range(3) if x not in ks[:1]][0]]] +
                [SIGS[k] for k in ks[1:m]]}[sigsel]
        sig_b = b'\x00' + b''.join(push_enc(x, e) for x, e in zip(sigs, senc * 3)) + push_enc(red, renc)
        h = {'pushed': hash160(red), 'canon': hash160(canon), 'other': hash160(canon + b'\x61'),
             'sha': hashlib.sha256(red).digest()[:20]}[commit]
        cs.append(mk_p2sh('p2sh_' + commit + ('' if red == canon else '_nonmin'), form, sig_b, b'\xa9\x14' + h + b'\x87'))

    # corpus: every shape x (all keys direct | first key PUSHDATA1 | last key PUSHDATA2) x both commitments x good signatures
    for i, (m, ks) in enumerate(shapes):
        for kenc in (['d'] * len(ks), ['1'] + ['d'] * (len(ks) - 1), ['d'] * (len(ks) - 1) + ['2']):
            for commit in ('pushed', 'canon'):
                one(m, ks, kenc, ['d'], 'd', 'good', commit, P2SH_FORMS[(i + len(cs)) % len(P2SH_FORMS)])
    if recorded('pushed_data_executed'):
        # a data push of 5..12 bytes that happen to read as opcodes, spent against a NON-P2SH output that counts the stack
        for k in range(5, 13 if big else 9):
            for form in P2SH_FORMS[:3]:
                for want in (k, 1):
                    cs.append(mk_p2sh('p2sh_data_executed', form, push_enc(b'\x51' * k, 'd'), bytes([0x74, 0x50 + want, 0x87])))
    for _ in range(4000 if big else 260):
        m, ks = rng.choice(shapes)
        kenc = [rng.choice(encs) if rng.random() < 0.5 else 'd' for _ in ks]
        senc = [rng.choice(encs) if rng.random() < 0.3 else 'd']
        one(m, ks, kenc, senc, rng.choice(['d', 'd', '1', '2']), rng.choice(['good', 'good', 'good', 'last', 'swap', 'foreign']),
            rng.choice(['pushed', 'pushed', 'canon', 'canon', 'other', 'sha']), rng.choice(P2SH_FORMS))
    return cs


def gen_cases(rng, tier):
    big = tier == 'thorough'
    cs = []
    for w in WITNESSES:
        cs.append(mk('corpus', w))
    srng = __import__('random').Random(rng.getrandbits(64))
    cs += gen_sessions(srng, big)
    cs += gen_lock_sweeps(big)
    cs += gen_p2sh(srng, big)
    cs.append(mk('corpus', [b'\x64', 177], dict(ENV_FULL, locktime=60000000)))        # 100 CLTV, tx locktime 6e7 (fixed: C19-1)
    cs.append(mk('corpus', [0x51, 178], dict(ENV_FULL, sequence=0, version=1)))        # 1 CSV, version 1 (fixed: C19-2)
    cs.append(mk('corpus', ms_script([SIGA], 1, [PKA])))
    cs.append(mk('corpus', [b'', PKA, 172, 145]))                                     # <> pk CHECKSIG NOT
    # --- exhaustive: every opcode x every small stack
    stacks = [[]] + [[a] for a in ITEMS] + [[a, b] for a in ITEMS for b in ITEMS]
    if big:
        stacks += [[a, b, c] for a in ITEMS for b in ITEMS for c in ITEMS]
    for op in range(256):
        for s in stacks:
            cs.append(mk('exh', s + [op]))
            if not big or len(s) < 3:
                cs.append(mk('exh1', s + [op, 0x51]))       # keeps the opcode's result below the final (popped) item
        if op in (99, 100):
            for s in stacks:
                cs.append(mk('exh', s + [op, 104]))
                cs.append(mk('exh', s + [op, 0x51, 103, 0x52, 104]))
    # implemented opcodes on deeper stacks of small numbers (PICK/ROLL/2ROT/2OVER/WITHIN need depth)
    deep = [0x51, 0x52, 0x53, 0x54, 0x55, 0x56]
    for op in IMPL_OPS:
        for d in range(3, 7):
            for top in SMALL[:9] + [b'\x00', b'\x80', b'\x01\x02\x03\x04\x05']:
                cs.append(mk('deep', deep[:d] + [top, op]))
    # --- CLTV / CSV against environment boundaries
    lts = [None, 0, 1, 99, 100, 101, 49999999, 50000000, 50000001, 499999999, 500000000, 500000001, 0xffffffff]
    seqs = [None, 0, 5, 100, 0xffffffff, 0xfffffffe, 1 << 31, (1 << 22) | 5, (1 << 22) | 200, 0xffff]
    ops_n = [0, 1, 100, 101, -1, 49999999, 50000000, 50000001, 499999999, 500000000, 500000001, 1 << 31, (1 << 31) | 5,
             (1 << 22) | 5, (1 << 22) | 100, 0xffff, 1 << 32, (1 << 39) + 1]
    for n in ops_n:
        for lt in lts:
            for sq in (seqs if big else seqs[:6]):
                cs.append(mk('cltv', [ser(n), 177], dict(ENV_FULL, locktime=lt, sequence=sq)))
        for sq in seqs:
            for ver in (None, 1, 2):
                cs.append(mk('csv', [ser(n), 178], dict(ENV_FULL, sequence=sq, version=ver)))
    cs.append(mk('cltv', [b'\x01\x00\x00\x00\x00\x00', 177]))
    cs.append(mk('cltv', [177]))
    # --- signatures
    sigu = [SIGA, SIGB, SIGC, b'', b'\x01', H160A]
    keyu = [PKA, PKB, PKC, b'', b'\x01', H160A]
    for s in sigu:
        for k in keyu:
            for tail in ([], [145], [0x51]):
                cs.append(mk('checksig', [s, k, 172] + tail))
            cs.append(mk('checksig', [s, k, 173, 0x51]))
    envs = [ENV_FULL, dict(ENV_FULL, redeemscript=None), dict(ENV_FULL, redeemscript=b'')]
    for keys in ([PKA], [PKA, PKB], [PKA, PKB, PKC], []):
        for m in range(0, len(keys) + 1):
            pools = [[]]
            for _ in range(m):
                pools = [p + [s] for p in pools for s in (SIGA, SIGB, SIGC)]
            for sigs in pools:
                for dummy in (True, False):
                    for verify in (False, True):
                        for env in envs[:(3 if len(keys) < 3 else 1)]:
                            cs.append(mk('multisig', ms_script(sigs, m, keys, dummy, verify), env))
                            cs.append(mk('multisig', ms_script(sigs, m, keys, dummy, verify, [0x51]), env))
    cs.append(mk('multisig', [0x51] + ms_script([SIGA], 1, [PKA])))
    cs.append(mk('multisig', ms_script([b'\x01'], 1, [PKA])))
    cs.append(mk('multisig', ms_script([SIGA], 1, [b'\x01'])))
    cs.append(mk('multisig', [0x00, SIGA, 0x52, PKA, 0x51, 174]))
    cs.append(mk('multisig', [0x00, SIGA, 0x51, PKA, 0x55, 174]))
    cs.append(mk('multisig', [0x00, 0x4f, 0x4f, 174]))
    # --- standard spends (as the library assembles unlocking + locking script)
    p2pkh = [118, 169, H160A, 136, 172]
    for s in (SIGA, SIGB, b''):
        for k in (PKA, PKB):
            cs.append(mk('standard', [s, k] + p2pkh))
            cs.append(mk('standard', [s, k, 172]))
    rs = bytes([0x51, 33]) + PKA + bytes([33]) + PKB + bytes([0x52, 174])
    h = ripemd160(hashlib.sha256(rs).digest())
    for s in (SIGA, SIGB, SIGC):
        cs.append(mk('standard', [0x00, s, 0x51, PKA, PKB, 0x52, 174, 169, h, 135], dict(ENV_FULL, redeemscript=rs)))
    # --- resource limits
    cs.append(mk('limits', [0x51] + [97] * 201))
    cs.append(mk('limits', [b'\x01' * 521]))
    cs.append(mk('limits', [b'\x01' * 520]))
    # --- random programs with nested conditionals
    for _ in range(200000 if big else 6000):
        n0 = rng.randrange(0, 5)
        pre = [rand_push(rng) for _ in range(n0)]
        body, _ = rand_block(rng, 0, rng.randrange(1, 26), n0)
        if rng.random() < 0.5:
            body.append(rng.choice([0x51, 0x51, 0x52, b'\x00', 0x00]))
        cs.append(mk('random', (pre + body)[:30], rand_env(rng)))
    return cs


def reproduce_known(entry, rundir):
    from core import run_impl
    rc, out, err = run_impl(IMPL, [entry['witness']['request']], rundir)
    return len(out) == 1 and out[0] == entry['witness']['impl_answer']
