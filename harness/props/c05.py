"""C05 — address <-> locking script mapping is standard and mutually inverse; foreign-network addresses refused."""
import hashlib, json, os
from core import Case, REPO, load_known

PROP = 'C05'
COQ_FILES = ['Extract/C05.v', 'Properties/C05.v']
DRIVER = 'c05'
IMPL = 'harness/impl/c05_impl.py'
ALLOWED_AXIOMS = []
ASSUMPTIONS = [
    'theorems are about coq/Model/AddrScript.v: spec_* from BIP13/16/141/173/350, lib_* mirrors Output.__init__/.address, '
    'Script.__init__ template instantiation, _get_script_types, deserialize_address (after the string codec), Address.__init__/parse',
    'tie to /repo: SCRIPT_TYPES and the network prefix tables are regenerated from config.py / networks.json on every run '
    '(Gen/GenConsts.v, Gen/GenNetworks.v) and the proofs re-check against them; every lib_* creation path is compared with the '
    'public API (Output, Transaction.add_output, Output(lock_script=).address/.script_type) on each run',
    'the address STRING codec (Base58Check, Bech32/Bech32m characters and checksums) is property C11; here an address is its decoded '
    'content (version byte + hash / hrp + witness version + program); the harness encodes/decodes with its own reference codecs',
    'hash160/sha256 of keys and redeem scripts are supplied to the model as oracle values computed by hashlib; scripts containing '
    'key- or signature-shaped pushes are not modelled (Key()/Signature parsing belongs to C04/C13)',
]
RULE = ('exhaustive: networks x {p2pkh,p2sh,witness v0..16} x payload lengths {20,32} (+2..40 for v1+) x {zero, ff, random} payloads, '
        'every creation path (address string, Address.parse object, Address(...) object, HDKey, public key, public hash, raw script) '
        'through Output and Transaction.add_output; every ordered pair of networks for foreign addresses; malformed script stream; '
        'non-trivial = the implementation returns an output (not an error); distinct by request')

# ---------------------------------------------------------------- independent reference codecs (BIP13 / BIP173 / BIP350)
B58 = '123456789ABCDEFGHJKLMNPQRSTUVWXYZabcdefghijkmnopqrstuvwxyz'
CHARSET = 'qpzry9x8gf2tvdw0s3jn54khce6mua7l'


def dsha(b):
    return hashlib.sha256(hashlib.sha256(b).digest()).digest()


def h160(b):
    return hashlib.new('ripemd160', hashlib.sha256(b).digest()).digest()


def b58check(payload):
    raw = payload + dsha(payload)[:4]
    n = int.from_bytes(raw, 'big')
    s = ''
    while n:
        n, r = divmod(n, 58)
        s = B58[r] + s
    pad = len(raw) - len(raw.lstrip(b'\0'))
    return '1' * pad + s


def _polymod(values):
    gen = [0x3b6a57b2, 0x26508e6d, 0x1ea119fa, 0x3d4233dd, 0x2a1462b3]
    chk = 1
    for v in values:
        b = chk >> 25
        chk = (chk & 0x1ffffff) << 5 ^ v
        for i in range(5):
            chk ^= gen[i] if ((b >> i) & 1) else 0
    return chk


def segwit_addr(hrp, witver, prog):
    acc, bits, data = 0, 0, [witver]
    for b in prog:
        acc = (acc << 8) | b
        bits += 8
        while bits >= 5:
            bits -= 5
            data.append((acc >> bits) & 31)
    if bits:
        data.append((acc << (5 - bits)) & 31)
    const = 1 if witver == 0 else 0x2bc830a3
    exp = [ord(x) >> 5 for x in hrp] + [0] + [ord(x) & 31 for x in hrp]
    pm = _polymod(exp + data + [0] * 6) ^ const
    chk = [(pm >> 5 * (5 - i)) & 31 for i in range(6)]
    return hrp + '1' + ''.join(CHARSET[d] for d in data + chk)


def hx(b):
    return b.hex() if b else '-'


def unhx(s):
    return b'' if s == '-' else bytes.fromhex(s)


# ---------------------------------------------------------------- network table (frozen specification copy)
_NETS = None


def nets():
    global _NETS
    if _NETS is None:
        # frozen specification table (harness/spec_networks.py), never the tree under test: an edited row of
        # networks.json is then a concrete failing address/script, not a table compared with itself.  FROZEN = the
        # reference clients' parameters with the documented deviations of the library (regtest: C04 known finding).
        import spec_networks as SN
        d = SN.FROZEN
        _NETS = {k: (bytes.fromhex(v['prefix_address']), bytes.fromhex(v['prefix_address_p2sh']), v['prefix_bech32'],
                     v['priority']) for k, v in d.items()}
    return _NETS


# an address as a tuple: ('b58', ver, hash) | ('bech', hrp, witver, prog)
def tok(a):
    if a[0] == 'b58':
        return 'b58:%s:%s' % (hx(a[1]), hx(a[2]))
    return 'bech:%s:%d:%s' % (hx(a[1].encode()), a[2], hx(a[3]))


def untok(t):
    p = t.split(':')
    if p[0] == 'b58':
        return ('b58', unhx(p[1]), unhx(p[2]))
    return ('bech', unhx(p[1]).decode(), int(p[2]), unhx(p[3]))


def addr_str(a):
    return b58check(a[1] + a[2]) if a[0] == 'b58' else segwit_addr(a[1], a[2], a[3])


# a destination: (kind, witver, payload), kind in p2pkh p2sh wit
def dest_addr(net, d):
    pa, ps, hrp = nets()[net][:3]
    if d[0] == 'p2pkh':
        return ('b58', pa, d[2])
    if d[0] == 'p2sh':
        return ('b58', ps, d[2])
    return ('bech', hrp, d[1], d[2])


def dest_script(d):
    p = bytes([len(d[2])]) + d[2]
    if d[0] == 'p2pkh':
        return b'\x76\xa9' + p + b'\x88\xac'
    if d[0] == 'p2sh':
        return b'\xa9' + p + b'\x87'
    return bytes([0 if d[1] == 0 else 0x50 + d[1]]) + p


def dest_type(d):
    if d[0] != 'wit':
        return d[0]
    if d[1] == 0:
        return 'p2wpkh' if len(d[2]) == 20 else 'p2wsh'
    return 'p2tr'


def addr_dest(net, a):
    """the destination an address denotes on network net, or None when it does not belong to that network"""
    pa, ps, hrp = nets()[net][:3]
    if a[0] == 'b58':
        if a[1] == pa:
            return ('p2pkh', 0, a[2])
        if a[1] == ps:
            return ('p2sh', 0, a[2])
        return None
    return ('wit', a[2], a[3]) if a[1] == hrp else None


def classify(s):
    """BIP16 / BIP141 templates"""
    if len(s) == 25 and s[:3] == b'\x76\xa9\x14' and s[23:] == b'\x88\xac':
        return ('p2pkh', 0, s[3:23])
    if len(s) == 23 and s[:2] == b'\xa9\x14' and s[22:] == b'\x87':
        return ('p2sh', 0, s[2:22])
    if 4 <= len(s) <= 42 and (s[0] == 0 or 0x51 <= s[0] <= 0x60) and s[1] == len(s) - 2:
        v = 0 if s[0] == 0 else s[0] - 0x50
        if v == 0 and len(s) - 2 not in (20, 32):
            return None
        return ('wit', v, s[2:])
    return None


def in_property(d):
    """20/32-byte payloads as the property quantifies (P2PKH/P2SH/P2WPKH 20, P2WSH 32, v1..16 20 or 32)"""
    n = len(d[2])
    if d[0] in ('p2pkh', 'p2sh'):
        return n == 20
    return n in (20, 32)


# ---------------------------------------------------------------- expectations (property level, from the request alone)
G1 = bytes.fromhex('0279be667ef9dcbbac55a06295ce870b07029bfcdb2dce28d959f2815b16f81798')
G2 = bytes.fromhex('02c6047f9441ed7d6d3045406e95c07cd85c778e4b8cef3ca7abac09b95c709ee5')
G3 = bytes.fromhex('02f9308a019258c31049344f85f89d5229b531c845836f99b08601f113bce036f9')
G1U = bytes.fromhex('0479be667ef9dcbbac55a06295ce870b07029bfcdb2dce28d959f2815b16f81798'
                    '483ada7726a3c4655da4fbfc0e1108a8fd17b448a68554199c47d08ffb10d4b8')


def ok_exp(net, d, address=None):
    a = address if address is not None else addr_str(dest_addr(net, d))
    return (hx(dest_script(d)), dest_type(d), net, a)


def expect_for_address(N, a, s):
    """output for address a (string s) on transaction network N"""
    d = addr_dest(N, a)
    if d is None:
        return 'ERR'
    if a[0] == 'b58' and len(a[2]) != 20:
        return None                      # over/under-long Base58 body: the string layer's business (C11, row 7)
    if a[0] == 'bech' and (not 0 <= a[2] <= 16 or not 2 <= len(a[3]) <= 40 or (a[2] == 0 and len(a[3]) not in (20, 32))):
        return None
    return ok_exp(N, d, s)


def obj_dest(st, enc, wv, h):
    """destination denoted by Address(hashed_data=h, script_type=st, encoding=enc, witver=wv) when the arguments are coherent"""
    n = len(h)
    if st in ('p2pkh', 'p2sh') and enc in ('-', 'base58') and n == 20 and wv == 0:
        return (st, 0, h)
    if st == 'p2wpkh' and enc in ('-', 'bech32') and n == 20 and wv == 0:
        return ('wit', 0, h)
    if st == 'p2wsh' and enc in ('-', 'bech32') and n == 32 and wv == 0:
        return ('wit', 0, h)
    if st == 'p2tr' and enc in ('-', 'bech32') and n in (20, 32) and 0 <= wv <= 16:
        return ('wit', wv or 1, h)
    if st in ('p2sh_p2wpkh', 'p2sh_p2wsh') and enc in ('-', 'base58') and wv == 0 and \
            n == (20 if st == 'p2sh_p2wpkh' else 32):
        return ('p2sh', 0, h160(b'\x00' + bytes([n]) + h))
    if st == '-' and wv == 0 and n == 20:
        return ('p2pkh', 0, h) if enc == 'base58' else ('wit', 0, h)
    return None


def hd_dest(wt, ms, pub):
    if wt == 'legacy':
        return ('p2sh' if ms else 'p2pkh', 0, h160(pub))
    if wt == 'segwit':
        return ('wit', 0, hashlib.sha256(pub).digest() if ms else h160(pub))
    if ms:
        return ('p2sh', 0, h160(b'\x00\x20' + hashlib.sha256(pub).digest()))
    return ('p2sh', 0, h160(b'\x00\x14' + h160(pub)))


def expectation(t):
    """None = the property says nothing about this request; 'ERR' = must be refused; tuple = exact answer"""
    k, N = t[0], t[1]
    if k == 'str':
        return expect_for_address(N, untok(t[4]), t[3])
    if k == 'parse':
        a = untok(t[4])
        if t[5] != '-' and addr_dest(t[5], a) is None:
            return 'ERR'
        return expect_for_address(N, a, t[3])
    if k == 'aobj':
        d = obj_dest(t[4], t[5], int(t[6]), unhx(t[7]))
        if d is None:
            return None
        return expect_for_address(N, dest_addr(t[3], d), addr_str(dest_addr(t[3], d)))
    if k == 'hd':
        d = hd_dest(t[4], t[5] == '1', unhx(t[6]))
        return expect_for_address(N, dest_addr(t[3], d), addr_str(dest_addr(t[3], d)))
    if k == 'pk':
        pub = unhx(t[5])
        if len(pub) != 33 or t[3] in ('p2wsh', 'p2pk'):
            return None
        d = obj_dest(t[3], t[4], 0, h160(pub))
        return None if d is None else ok_exp(N, d)
    if k == 'hash':
        d = obj_dest(t[3], t[5], int(t[4]) if t[2] == 'out' else 0, unhx(t[6]))
        if d is None or t[3] in ('p2sh_p2wpkh', 'p2sh_p2wsh'):
            return None
        return ok_exp(N, d)
    if k == 'script':
        d = classify(unhx(t[3]))
        if d is None or not in_property(d):
            return None
        return ok_exp(N, d)
    return None


def prop_check(c, out):
    if out.startswith('CRASH') or out == 'BADREQ':
        return 'unexpected answer %r' % out[:120]
    t = c.req.split(' ')
    e = expectation(t)
    if e is None:
        return None
    if e == 'ERR':
        if out == 'ERR':
            return None
        return ('an address that does not belong to network %s is not refused: %s gives %s' % (t[1], ' '.join(t[:4])[:90], out[:120]))
    if out == 'ERR':
        return 'a valid destination of network %s is refused: %s' % (t[1], c.req[:140])
    f = out.split(' ')
    if len(f) != 4:
        return 'unexpected answer %r' % out[:120]
    names = ('locking script', 'script type', 'network', 'address')
    for i in range(4):
        if f[i] != e[i]:
            return '%s: %s is %s, the standard value is %s' % (' '.join(t[:4])[:100], names[i], f[i][:90], e[i][:90])
    return None


# ---------------------------------------------------------------- which repairs does the tree have (decided by the known list)
KNOWN_IDS = ('witver_ge2_script', 'foreign_network_address_object', 'p2sh_segwit_address_object')


def _active():
    return set(e['class'] for e in load_known(PROP) if e.get('status') == 'known')


def flags():
    a = _active()
    return ''.join('0' if k in a else '1' for k in KNOWN_IDS)


def model_req(c):
    return 'F %s %s' % (flags(), c.req)


def _addr_of_req(t):
    """(address tuple, object network or None) the request is about, for the class predicates"""
    k = t[0]
    if k in ('str', 'parse'):
        return untok(t[4])
    return None


def _cls_witver(c, io, mo):
    t = c.req.split(' ')
    if t[0] in ('str', 'parse'):
        a = untok(t[4])
        return a[0] == 'bech' and a[2] >= 1 and (t[0] == 'parse' or not (a[2] == 1 and len(a[3]) == 32))
    if t[0] == 'aobj':
        return t[4] == 'p2tr' and int(t[6]) >= 2
    if t[0] == 'hash':
        return t[3] == 'p2tr' and int(t[4]) >= 2
    return False


def _cls_netobj(c, io, mo):
    t = c.req.split(' ')
    if t[0] == 'parse':
        # the object's network: the one asked for, else the first of the address's networks by priority (table order on ties)
        a = untok(t[4])
        cand = [n for n in nets() if addr_dest(n, a) is not None]
        cand.sort(key=lambda n: -nets()[n][3])
        on = t[5] if t[5] != '-' else (cand[0] if cand else None)
        return on != t[1]
    if t[0] in ('aobj', 'hd'):
        return t[1] != t[3]
    return False


def _cls_p2shobj(c, io, mo):
    t = c.req.split(' ')
    return t[0] == 'aobj' and t[4] in ('p2sh_p2wpkh', 'p2sh_p2wsh')


_PRED = {'witver_ge2_script': _cls_witver, 'foreign_network_address_object': _cls_netobj,
         'p2sh_segwit_address_object': _cls_p2shobj}


class _Known(dict):
    """only the classes currently listed as known suppress anything (a repaired class must stay repaired)"""

    def items(self):
        a = _active()
        return [(k, v) for k, v in _PRED.items() if k in a]


KNOWN_CLASSES = _Known()


def same(c, io, mo):
    if mo == 'UNMODELLED':
        return True
    if io == mo:
        return True
    t = c.req.split(' ')
    if t[0] in ('str', 'parse'):
        a = untok(t[4])
        if a[0] == 'b58' and len(a[2]) != 20 and 'ERR' in (io, mo):
            return True                   # Base58 body of another length: accepted or refused by the string layer (C11 row 7)
    if t[0] == 'aobj' and t[1] != t[3] and len(unhx(t[7])) != 20 and 'ERR' in (io, mo):
        return True                       # foreign object whose Base58 body has another length: same string-layer question
    fi, fm = io.split(' '), mo.split(' ')
    if len(fi) != 4 or len(fm) != 4 or fi[:3] != fm[:3]:
        return False
    m = fm[3]
    if m == 'given':
        return fi[3] == t[3]
    if m in ('ERR', '-'):
        return fi[3] == m
    if m.startswith('bech:') and int(m.split(':')[2]) < 0:
        # pubkeyhash_to_addr_bech32 took the first byte of a non-20/32/40-byte program for a version byte below OP_1:
        # the string it writes is not an address of anything; only its existence is compared
        return fi[3] not in ('ERR', '-')
    try:
        return fi[3] == addr_str(untok(m))
    except Exception:
        return False


def is_trivial(c, out):
    return out.startswith('ERR') or out == 'BADREQ'


# ---------------------------------------------------------------- generators
def payloads(rng, n, k):
    r = [bytes(n), b'\xff' * n]
    while len(r) < k:
        r.append(bytes(rng.randrange(256) for _ in range(n)))
    return r[:k]


def orc(pairs):
    return ','.join('%s:%s' % (hx(i), hx(o)) for i, o in pairs) or '-'


def gen_cases(rng, tier):
    big = tier == 'thorough'
    NT = nets()
    names = list(NT)
    cs = []
    K = 12 if big else 3          # payloads per (kind, length)

    def add(kind, *tk):
        cs.append(Case(kind, ' '.join([kind] + [str(x) for x in tk])))

    def dests(full):
        """destinations: p2pkh/p2sh 20, witness v0 20/32, v1..16 20/32; with full also 2..40 for v1+"""
        out = []
        for h in payloads(rng, 20, K):
            out += [('p2pkh', 0, h), ('p2sh', 0, h), ('wit', 0, h)]
        for h in payloads(rng, 32, K):
            out.append(('wit', 0, h))
        for v in range(1, 17):
            for n in (20, 32):
                for h in payloads(rng, n, K):
                    out.append(('wit', v, h))
        if full:
            for n in range(2, 41):
                for v in ((1, 2, 16) if not big else range(1, 17)):
                    out.append(('wit', v, payloads(rng, n, 3)[2]))
        return out

    # 1. address strings and Address.parse objects on their own network
    for A in names:
        for d in dests(True):
            a = dest_addr(A, d)
            s = addr_str(a)
            for via in ('out', 'add'):
                add('str', A, via, s, tok(a))
            if in_property(d):
                add('parse', A, 'out', s, tok(a), '-')
                add('parse', A, 'add', s, tok(a), A)
        # Base58 bodies of other lengths (row 7) and unknown version bytes
        for n in (19, 21, 32):
            a = ('b58', NT[A][0], payloads(rng, n, 3)[2])
            add('str', A, 'out', addr_str(a), tok(a))
        a = ('b58', b'\x7b', payloads(rng, 20, 3)[2])
        add('str', A, 'out', addr_str(a), tok(a))
        add('parse', A, 'out', addr_str(a), tok(a), '-')
        a = ('bech', 'zz', 0, payloads(rng, 20, 3)[2])
        add('str', A, 'out', addr_str(a), tok(a))
        add('parse', A, 'out', addr_str(a), tok(a), '-')
    # 2. every ordered pair of networks, every kind of address
    kinds = [('p2pkh', 0, 20), ('p2sh', 0, 20), ('wit', 0, 20), ('wit', 0, 32), ('wit', 1, 32), ('wit', 2, 20)]
    for A in names:
        for N in names:
            if A == N:
                continue
            for (k, v, n) in kinds:
                d = (k, v, payloads(rng, n, 3)[2])
                a = dest_addr(A, d)
                s = addr_str(a)
                add('str', N, 'out', s, tok(a))
                add('str', N, 'add', s, tok(a))
                add('parse', N, 'add', s, tok(a), A)
                add('parse', N, 'out', s, tok(a), '-')
    # 3. Address(...) objects
    for A in names:
        others = [x for x in names if x != A]
        for st in ('-', 'p2pkh', 'p2sh', 'p2wpkh', 'p2wsh', 'p2tr', 'p2sh_p2wpkh', 'p2sh_p2wsh'):
            for e in ('-', 'base58', 'bech32'):
                for wv in ((0, 1, 2, 16) if st == 'p2tr' else (0,)):
                    for n in (20, 32):
                        for h in payloads(rng, n, K)[2:]:
                            o = '-'
                            if st.startswith('p2sh_'):
                                rs = b'\x00' + bytes([n]) + h
                                o = orc([(rs, h160(rs))])
                            for N in [A, rng.choice(others)] + (others if big and st != '-' and e == '-' else []):
                                add('aobj', N, rng.choice(('out', 'add')), A, st, e, wv, hx(h), o)
    # 4. HDKey objects: every pair of networks
    for A in names:
        for wt in ('legacy', 'segwit', 'p2sh-segwit'):
            for ms in (0,):         # HDKey(<raw public key>, multisig=True) is overridden to False by the key-format guess
                for pub in ((G1, G2, G3) if big else (G1,)):
                    hh, ss = h160(pub), hashlib.sha256(pub).digest()
                    o = orc([(pub, hh), (b'\x00\x14' + hh, h160(b'\x00\x14' + hh)), (b'\x00\x20' + ss, h160(b'\x00\x20' + ss))])
                    for N in names:
                        add('hd', N, 'add' if N != A else 'out', A, wt, ms, hx(pub), hx(hh), hx(ss), o)
                    add('hd', A, 'add', A, wt, ms, hx(pub), hx(hh), hx(ss), o)
    # 5. public keys and hashes
    for N in names:
        for pub in (G1, G2, G1U):
            o = orc([(pub, h160(pub))])
            for st in ('-', 'p2pkh', 'p2sh', 'p2wpkh', 'p2wsh', 'p2tr', 'p2pk'):
                for e in ('-', 'base58', 'bech32'):
                    add('pk', N, 'out', st, e, hx(pub), o)
                    if st == '-':
                        add('pk', N, 'add', st, e, hx(pub), o)
        for st in ('-', 'p2pkh', 'p2sh', 'p2wpkh', 'p2wsh', 'p2tr', 'p2sh_p2wpkh', 'nulldata', 'multisig', 'p2pk', 'nosuchtype'):
            for e in ('-', 'base58', 'bech32'):
                for wv in ((0, 1, 2, 16, 17) if st == 'p2tr' else (0,)):
                    for n in (20, 32):
                        for h in payloads(rng, n, K)[2:]:
                            rs = b'\x00' + bytes([n]) + h
                            o = orc([(rs, h160(rs))]) if st.startswith('p2sh_') else '-'
                            add('hash', N, 'out', st, wv, e, hx(h), o)
                            if st == '-':
                                add('hash', N, 'add', st, 0, e, hx(h), '-')
    # 6. raw scripts: every standard script, then malformed neighbours
    for N in names:
        for d in dests(N in ('bitcoin', 'litecoin') or big):
            s = dest_script(d)
            add('script', N, 'out', hx(s))
            if in_property(d):
                add('script', N, 'add', hx(s))
        h20, h32 = payloads(rng, 20, 3)[2], payloads(rng, 32, 3)[2]
        bad = [b'\x76\xa9\x14' + h20 + b'\x88', b'\x76\xa9\x14' + h20 + b'\x88\xac\xac', b'\x76\xa9\x14' + h20 + b'\x87\xac',
               b'\x76\xa9\x20' + h32 + b'\x88\xac', b'\x76\xa9\x4c\x14' + h20 + b'\x88\xac', b'\xa9\x14' + h20 + b'\x88',
               b'\xa9\x20' + h32 + b'\x87', b'\xa9\x14' + h20, b'\x00\x14' + h20 + b'\x00', b'\x00\x15' + h20 + b'\x01',
               b'\x00\x14' + h20[:19], b'\x00\x4c\x14' + h20, b'\x4f\x20' + h32, b'\x50\x20' + h32, b'\x61\x20' + h32,
               b'\x51\x20' + h32 + b'\x51', b'\x51\x21' + h32, b'\x51\x4c\x20' + h32, b'\x51\x51', b'\x00', b'\x51',
               b'\x6a', b'\x6a\x14' + h20, b'\x6a\x00', b'\x00\x00', b'\x14' + h20, b'\x20' + h32, b'\x00\x20' + h32 + b'\x87',
               b'\x52\x14' + h20 + b'\x75', b'\xa9\x14' + h20 + b'\x87\x87', b'\x76\x76\xa9\x14' + h20 + b'\x88\xac',
               b'\x20' + h32 + b'\x75\x76\xa9\x14' + h20 + b'\x88\xac']
        # programs of 34 bytes whose first two bytes look like a script header: the address encoder's
        # "size 20, 32, 40 means no header" shortcut (inner program / bogus version / error branches)
        for v in (1, 9):
            for b0 in (0x00, 0x01, 0x30, 0x48, 0x4f, 0x50, 0x51, 0x60, 0x61, 0xff):
                for b1 in (0x20, 0x21):
                    bad.append(bytes([0x50 + v, 34, b0, b1]) + h32)
        for s in bad:
            add('script', N, 'out', hx(s))
        for _ in range(200 if big else 25):
            d = rng.choice([('p2pkh', 0, h20), ('p2sh', 0, h20), ('wit', 0, h20), ('wit', 0, h32), ('wit', 1, h32), ('wit', 5, h20)])
            s = bytearray(dest_script(d))
            m = rng.randrange(4)
            pos = rng.randrange(len(s)) if m else rng.choice([0, 1, len(s) - 1])
            if m == 0:
                s[pos] = rng.choice([0, 0x14, 0x20, 0x4f, 0x51, 0x60, 0x87, 0x88, 0xa9, 0xac])
            elif m == 1:
                del s[pos]
            elif m == 2:
                s.insert(pos, rng.choice([0, 0x51, 0x75, 0x76, 0xac]))
            else:
                s = s[:pos]
            # key-/signature-shaped pushes are outside the model (UNMODELLED); keep the stream away from them
            if len(s) and not (len(s) in (33, 65) and s[0] in (2, 3, 4)):
                add('script', N, 'out', hx(bytes(s)))
    return cs


def reproduce_known(entry, rundir):
    from core import run_impl
    rc, out, err = run_impl(IMPL, [entry['witness']['request']], rundir)
    return len(out) == 1 and out[0] == entry['witness']['impl_answer']
