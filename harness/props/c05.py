"""C05 — address <-> locking script mapping is standard and mutually inverse; foreign-network addresses refused."""
import hashlib, json, os
from core import Case, REPO, load_known

PROP = 'C05'
COQ_FILES = ['Extract/C05.v', 'Properties/C05.v']
DRIVER = 'c05'
IMPL = 'harness/impl/c05_impl.py'
ALLOWED_AXIOMS = []
ASSUMPTIONS = [
    'theorems are about coq/Model/AddrScript.v: spec_* from BIP13/16/141/173/350, lib_* mirrors Output.__init__/.address, '
    'Script.__init__ template instantiation, _get_script_types, deserialize_address (after the string codec), Address.__init__/parse',
    'tie to /repo: SCRIPT_TYPES and the network prefix tables are regenerated from config.py / networks.json on every run '
    '(Gen/GenConsts.v, Gen/GenNetworks.v) and the proofs re-check against them; every lib_* creation path is compared with the '
    'public API (Output, Transaction.add_output, Output(lock_script=).address/.script_type) on each run',
    'the address STRING codec (Base58Check, Bech32/Bech32m characters and checksums) is property C11; here an address is its decoded '
    'content (version byte + hash / hrp + witness version + program); the harness encodes/decodes with its own reference codecs',
    'hash160/sha256 of keys and redeem scripts are supplied to the model as oracle values computed by hashlib; scripts containing '
    'key- or signature-shaped pushes are not modelled (Key()/Signature parsing belongs to C04/C13)',
    'the push classifier of the script parser (scripts.get_data_type: signature / key / data / other by length and leading bytes) is '
    'tied to the model by a grid of 14742 probes regenerated on every run (Gen/GenDataType.v, theorem push_classifier_is_modelled); '
    'encoding.to_bytes on binary arguments is modelled (lib_to_bytes) and compared on payloads that read as hexadecimal text',
    'Transaction.parse(raw).outputs: the wire framing of the transaction is property C01; here the raw transaction is written by the '
    'adapter byte by byte and the output it yields is compared with Output(lock_script=) of the model',
    'the model is a function of what a key object IS (network, witness type, multisig flag, public key): it has no argument for what '
    'was done with the object before (output_of_hd_key_history_free; guard: no look at the uncompressed address); the harness replays '
    'histories on the real object and asks the model and the oracle without them',
]
RULE = ('exhaustive: networks x {p2pkh,p2sh,witness v0..16} x payload lengths {20,32} (+2..40 for v1+) x {zero, ff, random} payloads, '
        'every creation path (address string, Address.parse object, Address(hashed_data=/data=) object, HDKey in six construction forms '
        'x witness type x multisig flag, Key object, public key, public hash, raw script, combinations of these with script_type= / '
        'encoding= / witver= hints) through Output, Transaction.add_output, Transaction.parse of a raw transaction and '
        'Transaction.raw()+parse(); adversarial payloads (about 100 per length: DER-signature, public-key, script-template, opcode, '
        'push-header, number and text shapes) for every standard type in both directions; every ordered pair of networks for foreign '
        'addresses; malformed script stream; histories on ONE object: an HDKey / Key that was looked at before (address() in each of 24 '
        'script type x encoding combinations, prefix, address_obj, WIFs with other witness type, hash, dictionary, public() copy, child '
        'derivation, network_change, an earlier output or script made from it; 1-4 steps), then handed to Output / add_output / raw+parse '
        'or its hash160 written into a script; any object or byte argument already used for an earlier output of the same or another '
        'network; non-trivial = the implementation returns an output (not an error); distinct by request')

# ---------------------------------------------------------------- independent reference codecs (BIP13 / BIP173 / BIP350)
B58 = '123456789ABCDEFGHJKLMNPQRSTUVWXYZabcdefghijkmnopqrstuvwxyz'
CHARSET = 'qpzry9x8gf2tvdw0s3jn54khce6mua7l'


def dsha(b):
    return hashlib.sha256(hashlib.sha256(b).digest()).digest()


def h160(b):
    return hashlib.new('ripemd160', hashlib.sha256(b).digest()).digest()


def b58check(payload):
    raw = payload + dsha(payload)[:4]
    n = int.from_bytes(raw, 'big')
    s = ''
    while n:
        n, r = divmod(n, 58)
        s = B58[r] + s
    pad = len(raw) - len(raw.lstrip(b'\0'))
    return '1' * pad + s


def _polymod(values):
    gen = [0x3b6a57b2, 0x26508e6d, 0x1ea119fa, 0x3d4233dd, 0x2a1462b3]
    chk = 1
    for v in values:
        b = chk >> 25
        chk = (chk & 0x1ffffff) << 5 ^ v
        for i in range(5):
            chk ^= gen[i] if ((b >> i) & 1) else 0
    return chk


def segwit_addr(hrp, witver, prog):
    acc, bits, data = 0, 0, [witver]
    for b in prog:
        acc = (acc << 8) | b
        bits += 8
        while bits >= 5:
            bits -= 5
            data.append((acc >> bits) & 31)
    if bits:
        data.append((acc << (5 - bits)) & 31)
    const = 1 if witver == 0 else 0x2bc830a3
    exp = [ord(x) >> 5 for x in hrp] + [0] + [ord(x) & 31 for x in hrp]
    pm = _polymod(exp + data + [0] * 6) ^ const
    chk = [(pm >> 5 * (5 - i)) & 31 for i in range(6)]
    return hrp + '1' + ''.join(CHARSET[d] for d in data + chk)


def b58check_decode(s):
    """payload (version byte + body) of a Base58Check string, None when malformed"""
    n = 0
    for ch in s:
        i = B58.find(ch)
        if i < 0:
            return None
        n = n * 58 + i
    pad = len(s) - len(s.lstrip('1'))
    raw = b'\0' * pad + (n.to_bytes((n.bit_length() + 7) // 8, 'big') if n else b'')
    if len(raw) < 5 or dsha(raw[:-4])[:4] != raw[-4:]:
        return None
    return raw[:-4]


def segwit_decode(s):
    """(hrp, witness version, program) of a BIP173/BIP350 address, None when malformed"""
    if s.lower() != s and s.upper() != s:
        return None
    s = s.lower()
    pos = s.rfind('1')
    if pos < 1 or pos + 7 > len(s):
        return None
    hrp, data = s[:pos], []
    for ch in s[pos + 1:]:
        i = CHARSET.find(ch)
        if i < 0:
            return None
        data.append(i)
    exp = [ord(x) >> 5 for x in hrp] + [0] + [ord(x) & 31 for x in hrp]
    witver = data[0]
    if _polymod(exp + data) != (1 if witver == 0 else 0x2bc830a3):
        return None
    acc, bits, prog = 0, 0, []
    for v in data[1:-6]:
        acc = (acc << 5) | v
        bits += 5
        while bits >= 8:
            bits -= 8
            prog.append((acc >> bits) & 255)
    if bits >= 5 or (acc & ((1 << bits) - 1)):
        return None
    return hrp, witver, bytes(prog)


def decode_address(net, s):
    """the destination (kind, witver, payload) an address string denotes on network net, from the string alone; None = none"""
    pa, ps, hrp = nets()[net][:3]
    r = segwit_decode(s)
    if r is not None:
        return ('wit', r[1], r[2]) if r[0] == hrp else None
    b = b58check_decode(s)
    if b is None:
        return None
    if b[:1] == pa:
        return ('p2pkh', 0, b[1:])
    if b[:1] == ps:
        return ('p2sh', 0, b[1:])
    return None


def is_hexlike(b):
    """byte strings encoding.to_bytes does not leave alone: they read as hexadecimal text (class ascii_hex_payload)"""
    if not b:
        return False
    try:
        bytes.fromhex(b.decode())
        return True
    except (ValueError, TypeError):
        return False


def hx(b):
    return b.hex() if b else '-'


def unhx(s):
    return b'' if s == '-' else bytes.fromhex(s)


# ---------------------------------------------------------------- network table (frozen specification copy)
_NETS = None


def nets():
    global _NETS
    if _NETS is None:
        # frozen specification table (harness/spec_networks.py), never the tree under test: an edited row of
        # networks.json is then a concrete failing address/script, not a table compared with itself.  FROZEN = the
        # reference clients' parameters with the documented deviations of the library (regtest: C04 known finding).
        import spec_networks as SN
        d = SN.FROZEN
        _NETS = {k: (bytes.fromhex(v['prefix_address']), bytes.fromhex(v['prefix_address_p2sh']), v['prefix_bech32'],
                     v['priority']) for k, v in d.items()}
    return _NETS


# an address as a tuple: ('b58', ver, hash) | ('bech', hrp, witver, prog)
def tok(a):
    if a[0] == 'b58':
        return 'b58:%s:%s' % (hx(a[1]), hx(a[2]))
    return 'bech:%s:%d:%s' % (hx(a[1].encode()), a[2], hx(a[3]))


def untok(t):
    p = t.split(':')
    if p[0] == 'b58':
        return ('b58', unhx(p[1]), unhx(p[2]))
    return ('bech', unhx(p[1]).decode(), int(p[2]), unhx(p[3]))


def addr_str(a):
    return b58check(a[1] + a[2]) if a[0] == 'b58' else segwit_addr(a[1], a[2], a[3])


# a destination: (kind, witver, payload), kind in p2pkh p2sh wit
def dest_addr(net, d):
    pa, ps, hrp = nets()[net][:3]
    if d[0] == 'p2pkh':
        return ('b58', pa, d[2])
    if d[0] == 'p2sh':
        return ('b58', ps, d[2])
    return ('bech', hrp, d[1], d[2])


def dest_script(d):
    p = bytes([len(d[2])]) + d[2]
    if d[0] == 'p2pkh':
        return b'\x76\xa9' + p + b'\x88\xac'
    if d[0] == 'p2sh':
        return b'\xa9' + p + b'\x87'
    return bytes([0 if d[1] == 0 else 0x50 + d[1]]) + p


def dest_type(d):
    if d[0] != 'wit':
        return d[0]
    if d[1] == 0:
        return 'p2wpkh' if len(d[2]) == 20 else 'p2wsh'
    return 'p2tr'


def addr_dest(net, a):
    """the destination an address denotes on network net, or None when it does not belong to that network"""
    pa, ps, hrp = nets()[net][:3]
    if a[0] == 'b58':
        if a[1] == pa:
            return ('p2pkh', 0, a[2])
        if a[1] == ps:
            return ('p2sh', 0, a[2])
        return None
    return ('wit', a[2], a[3]) if a[1] == hrp else None


def classify(s):
    """BIP16 / BIP141 templates"""
    if len(s) == 25 and s[:3] == b'\x76\xa9\x14' and s[23:] == b'\x88\xac':
        return ('p2pkh', 0, s[3:23])
    if len(s) == 23 and s[:2] == b'\xa9\x14' and s[22:] == b'\x87':
        return ('p2sh', 0, s[2:22])
    if 4 <= len(s) <= 42 and (s[0] == 0 or 0x51 <= s[0] <= 0x60) and s[1] == len(s) - 2:
        v = 0 if s[0] == 0 else s[0] - 0x50
        if v == 0 and len(s) - 2 not in (20, 32):
            return None
        return ('wit', v, s[2:])
    return None


def in_property(d):
    """20/32-byte payloads as the property quantifies (P2PKH/P2SH/P2WPKH 20, P2WSH 32, v1..16 20 or 32)"""
    n = len(d[2])
    if d[0] in ('p2pkh', 'p2sh'):
        return n == 20
    return n in (20, 32)


# ---------------------------------------------------------------- expectations (property level, from the request alone)
G1 = bytes.fromhex('0279be667ef9dcbbac55a06295ce870b07029bfcdb2dce28d959f2815b16f81798')
G2 = bytes.fromhex('02c6047f9441ed7d6d3045406e95c07cd85c778e4b8cef3ca7abac09b95c709ee5')
G3 = bytes.fromhex('02f9308a019258c31049344f85f89d5229b531c845836f99b08601f113bce036f9')
G1U = bytes.fromhex('0479be667ef9dcbbac55a06295ce870b07029bfcdb2dce28d959f2815b16f81798'
                    '483ada7726a3c4655da4fbfc0e1108a8fd17b448a68554199c47d08ffb10d4b8')


def ok_exp(net, d, address=None):
    a = address if address is not None else addr_str(dest_addr(net, d))
    return (hx(dest_script(d)), dest_type(d), net, a)


def expect_for_address(N, a, s):
    """output for address a (string s) on transaction network N"""
    d = addr_dest(N, a)
    if d is None:
        return 'ERR'
    if a[0] == 'b58' and len(a[2]) != 20:
        return None                      # over/under-long Base58 body: the string layer's business (C11, row 7)
    if a[0] == 'bech' and (not 0 <= a[2] <= 16 or not 2 <= len(a[3]) <= 40 or (a[2] == 0 and len(a[3]) not in (20, 32))):
        return None
    return ok_exp(N, d, s)


def obj_dest(st, enc, wv, h):
    """destination denoted by Address(hashed_data=h, script_type=st, encoding=enc, witver=wv) when the arguments are coherent"""
    n = len(h)
    if st in ('p2pkh', 'p2sh') and enc in ('-', 'base58') and n == 20 and wv == 0:
        return (st, 0, h)
    if st == 'p2wpkh' and enc in ('-', 'bech32') and n == 20 and wv == 0:
        return ('wit', 0, h)
    if st == 'p2wsh' and enc in ('-', 'bech32') and n == 32 and wv == 0:
        return ('wit', 0, h)
    if st == 'p2tr' and enc in ('-', 'bech32') and n in (20, 32) and 0 <= wv <= 16:
        return ('wit', wv or 1, h)
    if st in ('p2sh_p2wpkh', 'p2sh_p2wsh') and enc in ('-', 'base58') and wv == 0 and \
            n == (20 if st == 'p2sh_p2wpkh' else 32):
        return ('p2sh', 0, h160(b'\x00' + bytes([n]) + h))
    if st == '-' and wv == 0 and n == 20:
        return ('p2pkh', 0, h) if enc == 'base58' else ('wit', 0, h)
    return None


def hd_dest(wt, ms, pub):
    """the destination an HD key stands for: single-signature keys P2PKH / P2WPKH / P2SH-P2WPKH of the key (BIP44/84/49),
    multisig cosigner keys P2SH / P2WSH / P2SH-P2WSH (BIP45/48)"""
    if wt == 'legacy':
        return ('p2sh' if ms else 'p2pkh', 0, h160(pub))
    if wt == 'segwit':
        return ('wit', 0, hashlib.sha256(pub).digest() if ms else h160(pub))
    if ms:
        return ('p2sh', 0, h160(b'\x00\x20' + hashlib.sha256(pub).digest()))
    return ('p2sh', 0, h160(b'\x00\x14' + h160(pub)))


HD_FORMS = ('raw', 'pubkc', 'priv64', 'privkc', 'keyobj', 'public')


def hd_effective_ms(form, ms):
    # HDKey(<raw public key bytes>, multisig=True): the key-format guess overrides the argument (not this property's business)
    return ms and form != 'raw'


def data_dest(st, enc, wv, data):
    """destination of Address(data=<public key or script>, script_type=st, encoding=enc, witver=wv) for coherent arguments"""
    hh, ss = h160(data), hashlib.sha256(data).digest()
    if st in ('p2pkh', 'p2sh') and enc in ('-', 'base58') and wv == 0:
        return (st, 0, hh)
    if st == 'p2wpkh' and enc in ('-', 'bech32') and wv == 0:
        return ('wit', 0, hh)
    if st == 'p2wsh' and enc in ('-', 'bech32') and wv == 0:
        return ('wit', 0, ss)
    if st == 'p2sh_p2wpkh' and enc in ('-', 'base58') and wv == 0:
        return ('p2sh', 0, h160(b'\x00\x14' + hh))
    if st == 'p2sh_p2wsh' and enc in ('-', 'base58') and wv == 0:
        return ('p2sh', 0, h160(b'\x00\x20' + ss))
    if st == '-' and wv == 0:
        return ('p2pkh', 0, hh) if enc == 'base58' else ('wit', 0, hh)
    return None            # p2tr from data (the library hashes the data, no taproot tweak): consistency only


def hints_of(t):
    """gen request -> (address tuple | None, address string | None, hash, pub, lock, st, wv, enc)"""
    a = untok(t[3]) if t[3] != '-' else None
    return a, (t[4] if t[4] != '-' else None), unhx(t[5]), unhx(t[6]), unhx(t[7]), t[8], int(t[9]), t[10]


def hints_contradict(d, h, pub, lock, st, wv, enc, primary):
    """does a hint say something else than the destination d (given by the address, or by the script when primary = 'lock')?"""
    if st != '-' and st != dest_type(d):
        return True
    if enc != '-' and enc != ('base58' if d[0] in ('p2pkh', 'p2sh') else 'bech32'):
        return True
    if h and h != d[2]:
        return True
    if primary != 'lock' and lock and lock != dest_script(d):
        return True
    if pub and not (d[0] == 'p2pkh' or (d[0] == 'wit' and d[1] == 0 and len(d[2]) == 20)) :
        return True
    if pub and h160(pub) != d[2]:
        return True
    if wv and wv != d[1]:
        return True
    return False


def gen_expect(t):
    N = t[1]
    a, s, h, pub, lock, st, wv, enc = hints_of(t)
    if a is not None:
        d = addr_dest(N, a)
        if d is None:
            return 'ERR'
        if not in_property(d) or hints_contradict(d, h, pub, lock, st, wv, enc, 'addr'):
            return None
        return ok_exp(N, d, s)
    if lock:
        d = classify(lock)
        if d is None or not in_property(d) or hints_contradict(d, h, pub, lock, st, wv, enc, 'lock'):
            return None
        return ok_exp(N, d)
    return None


def expectation(t):
    """None = the property says nothing about this request; 'ERR' = must be refused; tuple = exact answer"""
    t = hd_norm(t)
    e = expectation_direct(t)
    if t[2] == 'rt' and isinstance(e, tuple):
        # the output after Transaction.raw() / parse(): only its script travelled; the parsed output must report the standard
        # address of that script (for an address string: the very string the output was made from)
        d = classify(unhx(e[0]))
        if d is None or not in_property(d):
            return None
        return ok_exp(t[1], d)
    return e


def expectation_direct(t):
    k, N = t[0], t[1]
    if k == 'str':
        return expect_for_address(N, untok(t[4]), t[3])
    if k == 'parse':
        a = untok(t[4])
        if t[5] != '-' and addr_dest(t[5], a) is None:
            return 'ERR'
        return expect_for_address(N, a, t[3])
    if k == 'aobj':
        d = obj_dest(t[4], t[5], int(t[6]), unhx(t[7]))
        if d is None:
            return None
        return expect_for_address(N, dest_addr(t[3], d), addr_str(dest_addr(t[3], d)))
    if k == 'hd':
        form = t[10] if len(t) > 10 else 'raw'
        d = hd_dest(t[4], hd_effective_ms(form, t[5] == '1'), unhx(t[6]))
        return expect_for_address(N, dest_addr(t[3], d), addr_str(dest_addr(t[3], d)))
    if k == 'key':
        d = ('p2pkh', 0, h160(unhx(t[5])))
        return expect_for_address(N, dest_addr(t[3], d), addr_str(dest_addr(t[3], d)))
    if k == 'adata':
        d = data_dest(t[4], t[5], int(t[6]), unhx(t[7]))
        if d is None:
            return None
        return expect_for_address(N, dest_addr(t[3], d), addr_str(dest_addr(t[3], d)))
    if k == 'gen':
        return gen_expect(t)
    if k == 'pk':
        pub = unhx(t[5])
        if len(pub) != 33 or t[3] in ('p2wsh', 'p2pk'):
            return None
        d = obj_dest(t[3], t[4], 0, h160(pub))
        return None if d is None else ok_exp(N, d)
    if k == 'hash':
        d = obj_dest(t[3], t[5], int(t[4]) if t[2] != 'add' else 0, unhx(t[6]))
        if d is None or t[3] in ('p2sh_p2wpkh', 'p2sh_p2wsh'):
            return None
        return ok_exp(N, d)
    if k == 'script':
        d = classify(unhx(t[3]))
        if d is None or not in_property(d):
            return None
        return ok_exp(N, d)
    return None


def prop_check(c, out):
    if out.startswith('CRASH') or out == 'BADREQ':
        return 'unexpected answer %r' % out[:120]
    t = toks(c)
    e = expectation(t)
    if e is None:
        return None
    if e == 'ERR':
        if out == 'ERR':
            return None
        return ('an address that does not belong to network %s is not refused: %s gives %s' % (t[1], ' '.join(t[:4])[:90], out[:120]))
    if out == 'ERR':
        return 'a valid destination of network %s is refused: %s' % (t[1], c.req[:140])
    f = out.split(' ')
    if len(f) != 4:
        return 'unexpected answer %r' % out[:120]
    names = ('locking script', 'script type', 'network', 'address')
    for i in range(4):
        if f[i] != e[i]:
            return '%s: %s is %s, the standard value is %s' % (' '.join(t[:4])[:100], names[i], f[i][:90], e[i][:90])
    return consistent(t[1], f)


def consistent(N, f):
    """second, independent look at an answer: the REPORTED address is decoded (own Base58Check / Bech32(m) decoders), the
    standard script of what it denotes on the output's network is recomputed and compared with the reported script and type"""
    if f[3] in ('-', 'ERR'):
        return 'the output reports no address (%s) for script %s' % (f[3], f[0][:90])
    d = decode_address(f[2], f[3])
    if d is None:
        return 'the reported address %s is not an address of network %s' % (f[3][:90], f[2])
    if hx(dest_script(d)) != f[0]:
        return 'locking script %s and reported address %s do not belong together (the address stands for %s)' % (
            f[0][:90], f[3][:90], hx(dest_script(d))[:90])
    if dest_type(d) != f[1]:
        return 'reported script type %s, but address %s / script %s are %s' % (f[1], f[3][:90], f[0][:60], dest_type(d))
    return None


# ---------------------------------------------------------------- which repairs does the tree have (decided by the known list)
KNOWN_IDS = ('witver_ge2_script', 'foreign_network_address_object', 'p2sh_segwit_address_object', 'ascii_hex_payload',
             'address_with_public_key')


_STATUS = None


def _status():
    """class -> status of the findings recorded for this property (known_findings.json + VERIF_EXTRA_KNOWN), read once"""
    global _STATUS
    if _STATUS is None:
        _STATUS = {(e.get('class') or e.get('id')): e.get('status') for e in load_known(PROP)}
    return _STATUS


def _active():
    return set(k for k, v in _status().items() if v == 'known')


def recorded(cls):
    """The two classes found after the first round (ascii_hex_payload, address_with_public_key) fail on the unchanged library;
    their inputs are generated once the finding is recorded — as `known` (excused by its class predicate, the model mirrors
    the defect) or as `fixed` (the model mirrors the repair and the oracle judges at full strength)."""
    return cls in _status()


def flags():
    a, st = _active(), _status()
    return (''.join('0' if k in a else '1' for k in KNOWN_IDS[:3]) +
            ''.join('1' if st.get(k) == 'fixed' else '0' for k in KNOWN_IDS[3:]))


def toks(c):
    """the request's tokens without the reuse marker"""
    t = c.req.split(' ')
    return t[:-1] if t[-1] in EARLIER else t


def hd_history(t):
    """steps of the history an `hd` request replays on the key object before the output is built from it ([] = fresh key)"""
    return t[11].split(',') if t[0] == 'hd' and len(t) > 11 and t[11] not in EARLIER else []


UNCOMP_STEPS = ('au', 'cu')
EARLIER = ('@2', '@f')     # last token: the same argument objects were used for an earlier output (same / another network)


def hd_norm(t):
    """the history-free request that says what the key object IS when the output is built from it: the history token is
    dropped; a network_change step ('n:<network>') makes it a key of that network; via 'ks' (the script written from the key's
    hash160 property, read as an output) is the output as its script reports it, i.e. what via 'rt' delivers"""
    if t[-1] in EARLIER:
        return hd_norm(t[:-1])
    if t[0] == 'key' and len(t) > 9:
        return t[:9]
    h = hd_history(t)
    if not h:
        return t
    u = list(t[:11])
    for s in h:
        if s.startswith('n:'):
            u[3] = s[2:]
    if u[2] == 'ks':
        u[2] = 'rt'
    return u


def model_req(c):
    """The model is a FUNCTION of the key (network, witness type, multisig flag, public key): it has no history argument,
    so the request goes to it without the history token (Properties/C05.v output_of_hd_key_history_free)."""
    t = toks(c)
    if hd_history(t):
        hist = t[11]
        t = hd_norm(t)
        if any(s in UNCOMP_STEPS for s in hist.split(',')) and unhx(t[6]) == G1:
            # finding hd_key_left_uncompressed (generated only when recorded): the key object now stands for the 65-byte
            # encoding of its point; the model is asked about THAT key so that it stays faithful inside the known class
            hh, ss = h160(G1U), hashlib.sha256(G1U).digest()
            t[7], t[8] = hx(hh), hx(ss)
            t[9] = orc([(G1U, hh), (b'\x00\x14' + hh, h160(b'\x00\x14' + hh)), (b'\x00\x20' + ss, h160(b'\x00\x20' + ss))])
    else:
        t = hd_norm(t)
    return 'F %s %s' % (flags(), ' '.join(t))


def _addr_of_req(t):
    """(address tuple, object network or None) the request is about, for the class predicates"""
    k = t[0]
    if k in ('str', 'parse'):
        return untok(t[4])
    return None


def _cls_witver(c, io, mo):
    t = toks(c)
    if t[0] in ('str', 'parse'):
        a = untok(t[4])
        return a[0] == 'bech' and a[2] >= 1 and (t[0] == 'parse' or not (a[2] == 1 and len(a[3]) == 32))
    if t[0] == 'aobj':
        return t[4] == 'p2tr' and int(t[6]) >= 2
    if t[0] == 'hash':
        return t[3] == 'p2tr' and int(t[4]) >= 2
    return False


def _cls_netobj(c, io, mo):
    t = hd_norm(toks(c))
    if t[0] == 'parse':
        # the object's network: the one asked for, else the first of the address's networks by priority (table order on ties)
        a = untok(t[4])
        cand = [n for n in nets() if addr_dest(n, a) is not None]
        cand.sort(key=lambda n: -nets()[n][3])
        on = t[5] if t[5] != '-' else (cand[0] if cand else None)
        return on != t[1]
    if t[0] in ('aobj', 'hd', 'adata', 'key'):
        return t[1] != t[3]
    return False


def _cls_p2shobj(c, io, mo):
    t = toks(c)
    return t[0] == 'aobj' and t[4] in ('p2sh_p2wpkh', 'p2sh_p2wsh')


def req_byte_strings(t):
    """every binary argument the request hands to the library, and the payloads of the address / script it is about"""
    k = t[0]
    out = []
    if k in ('str', 'parse'):
        a = untok(t[4])
        out.append(a[2] if a[0] == 'b58' else a[3])
    elif k == 'aobj':
        out.append(unhx(t[7]))
    elif k == 'adata':
        out += [unhx(t[7]), unhx(t[8]), unhx(t[9])]
    elif k == 'hd':
        out += [unhx(t[6]), unhx(t[7]), unhx(t[8])]
    elif k == 'key':
        out += [unhx(t[5]), unhx(t[6])]
    elif k == 'pk':
        out += [unhx(t[5]), h160(unhx(t[5]))]
    elif k == 'hash':
        out.append(unhx(t[6]))
    elif k == 'script':
        s = unhx(t[3])
        d = classify(s)
        out += [s] + ([d[2]] if d else [])
    elif k == 'gen':
        a, _, h, pub, lock, _, _, _ = hints_of(t)
        if a is not None:
            out.append(a[2] if a[0] == 'b58' else a[3])
        d = classify(lock) if lock else None
        out += [h, pub, lock] + ([d[2]] if d else [])
    return [b for b in out if b]


def _cls_addrpk(c, io, mo):
    """an address string next to a public key, no hash and no script: the address is not examined"""
    t = toks(c)
    if t[0] != 'gen':
        return False
    a, _, h, pub, lock, _, _, _ = hints_of(t)
    return a is not None and bool(pub) and not h and not lock


def _cls_hduncomp(c, io, mo):
    """an HD key object that was asked for its uncompressed address before: Key.address(compressed=False) stores the answer
    to `compressed` in the key (self.compressed = False), every later use of the object is about the 65-byte encoding"""
    return any(s in UNCOMP_STEPS for s in hd_history(toks(c)))


def _cls_hex(c, io, mo):
    return any(is_hexlike(b) for b in req_byte_strings(toks(c)))


_PRED = {'witver_ge2_script': _cls_witver, 'foreign_network_address_object': _cls_netobj,
         'p2sh_segwit_address_object': _cls_p2shobj, 'ascii_hex_payload': _cls_hex, 'address_with_public_key': _cls_addrpk,
         'hd_key_left_uncompressed': _cls_hduncomp}


class _Known(dict):
    """only the classes currently listed as known suppress anything (a repaired class must stay repaired)"""

    def items(self):
        a = _active()
        return [(k, v) for k, v in _PRED.items() if k in a]


KNOWN_CLASSES = _Known()


def same(c, io, mo):
    if mo == 'UNMODELLED':
        return True
    if io == mo:
        return True
    t = toks(c)
    if t[0] in ('str', 'parse'):
        a = untok(t[4])
        if a[0] == 'b58' and len(a[2]) != 20 and 'ERR' in (io, mo):
            return True                   # Base58 body of another length: accepted or refused by the string layer (C11 row 7)
    if t[0] in ('aobj',) and t[1] != t[3] and len(unhx(t[7])) != 20 and 'ERR' in (io, mo):
        return True                       # foreign object whose Base58 body has another length: same string-layer question
    fi, fm = io.split(' '), mo.split(' ')
    if len(fi) != 4 or len(fm) != 4 or fi[:3] != fm[:3]:
        return False
    m = fm[3]
    if m == 'given':
        return fi[3] == (t[4] if t[0] == 'gen' else t[3])
    if m in ('ERR', '-'):
        return fi[3] == m
    if m.startswith('bech:') and int(m.split(':')[2]) < 0:
        # pubkeyhash_to_addr_bech32 took the first byte of a non-20/32/40-byte program for a version byte below OP_1:
        # the string it writes is not an address of anything; only its existence is compared
        return fi[3] not in ('ERR', '-')
    try:
        return fi[3] == addr_str(untok(m))
    except Exception:
        return False


def is_trivial(c, out):
    return out.startswith('ERR') or out == 'BADREQ'


# ---------------------------------------------------------------- generators
def payloads(rng, n, k):
    r = [bytes(n), b'\xff' * n]
    while len(r) < k:
        r.append(bytes(rng.randrange(256) for _ in range(n)))
    return r[:k]


# ---------------------------------------------------------------- adversarial payloads
# The script parser classifies pushed bytes by what they LOOK like (DER signature, public key, script to re-parse, plain
# data: scripts.get_data_type), the address encoder looks for a "<version> <length>" header in programs of unusual length, and
# encoding.to_bytes decodes binary arguments that read as hexadecimal text.  Random payloads never look like anything;
# these do.
G1X = bytes.fromhex('79be667ef9dcbbac55a06295ce870b07029bfcdb2dce28d959f2815b16f81798')
TEMPLATE_OPS = (0x76, 0xa9, 0x14, 0x88, 0xac, 0x87, 0x00, 0x51, 0x60, 0x6a, 0xae, 0x20, 0x4c, 0x4d, 0x4e, 0x4f, 0x50, 0x61, 0x75)


def _fit(b, n, fill=0x7f):
    return (bytes(b) + bytes([fill]) * n)[:n]


def _der_like(n, seqlen):
    """30 <seqlen> 02 <lr> r 02 <ls> s <hash type>, n bytes in all (n >= 9)"""
    body = n - 7
    lr = max(1, body // 2)
    ls = max(1, body - lr)
    return _fit(bytes([0x30, seqlen & 0xff, 2, lr]) + b'\x11' * lr + bytes([2, ls]) + b'\x22' * ls + b'\x01', n)


def adversarial(n, hexlike_too=False):
    """[(tag, payload)]: payloads of n bytes that imitate every shape the library's content heuristics know"""
    out = []

    def add(tag, b):
        out.append((tag, _fit(b, n)))
    for sb in sorted({n - 4, n - 3, n - 2, n - 1, n, n + 1, 0x44, 0x45, 0x46, 0x47, 0x00, 0x02, 0x80, 0x81}):
        if 0 <= sb <= 255:
            add('der%d' % sb, bytes([0x30, sb, 2, 1]))                        # 30 <len> 02 01 ...
            if n >= 9:
                add('derfull%d' % sb, _der_like(n, sb))                       # a complete r/s structure
    for p in (2, 3, 4, 5, 6, 7):
        add('key%02x' % p, bytes([p]) + G1X)                                  # public key prefixes
    for o in TEMPLATE_OPS:
        add('op%02x' % o, bytes([o]) * n)                                     # opcodes of the templates / push opcodes
        add('op%02xr' % o, bytes([o]) + bytes(range(1, n)))
    add('cycle', bytes(TEMPLATE_OPS * 3))
    if n >= 25:
        add('p2pkh', b'\x76\xa9\x14' + bytes(range(20)) + b'\x88\xac' + b'\x61' * (n - 25))   # well-formed scripts
    if n >= 23:
        add('p2sh', b'\xa9\x14' + bytes(range(20)) + b'\x87' + b'\x61' * (n - 23))
    if n >= 22:
        add('p2wpkh', b'\x00\x14' + bytes(range(20)) + b'\x61' * (n - 22))
    if n >= 3:
        add('opreturn', bytes([0x6a, n - 2]) + bytes(range(n - 2)))
        add('push', bytes([n - 1]) + bytes(range(n - 1)))                     # one push filling the payload
        add('pushdata1', bytes([0x4c, n - 2]) + bytes(range(n - 2)))
        add('push_short', bytes([n]) + bytes(range(n - 1)))                   # a push longer than what follows
        for v, name in ((0x00, 'hdr0'), (0x51, 'hdr1'), (0x60, 'hdr16'), (0x4f, 'hdr4f'), (0x30, 'hdr30')):
            add(name, bytes([v, n - 2]) + bytes(range(n - 2)))                # "<version> <length> <program>"
    if n >= 4:
        add('pushdata2', bytes([0x4d, (n - 3) & 0xff, 0]) + bytes(range(n - 3)))
    add('ops', bytes([0x51, 0x52, 0x93, 0x53, 0x87] * 8))
    add('nops', b'\x61' * n)
    add('multisig', b'\x51\x21\x02' + G1X)
    if n >= 37:
        add('multisig11', b'\x51\x21\x02' + G1X + b'\x51\xae' + b'\x61' * (n - 37))
    if n >= 35:
        add('p2pk', b'\x21\x02' + G1X + b'\xac' + b'\x61' * (n - 35))
    add('zero', bytes(n))
    add('ff', b'\xff' * n)
    add('lead0', b'\x00' + b'\xff' * (n - 1))
    add('trail0', b'\xff' * (n - 1) + b'\x00')
    add('one', b'\x01' + bytes(n - 1))
    add('neg', b'\x80' * n)
    add('hexlower', b'0123456789abcdef' * 3)                                   # text
    add('hexupper', b'ABCDEF0123456789' * 3)
    add('hexzero', b'0' * n)
    add('hexblank', b' ' * n)
    add('hexws', (b'ab ' * 14)[:n] if n % 3 == 0 else b'ab' * (n // 2) + b' ' * (n % 2))
    add('hexnl', (b'0f\n' * 14)[:n] if n % 3 == 0 else b'0f' * (n // 2) + b'\t' * (n % 2))
    add('hexodd', b'abc' + b'\x7f' * max(0, n - 3))
    add('hexg', b'abcdefg' * 6)
    add('ascii', b'hello world, this is a text payload ....')
    add('b58', b'1A1zP1eP5QGefi2DMPTfTL5SLmv7DivfNa123456')
    add('bech', b'bc1qw508d6qejxtdg4y5r3zarvary0c5xw7kv8f3')
    add('utf8bad', b'\xc3\x28' * (n // 2) + b'a' * (n % 2))
    add('ws_lead', b' \t' + bytes(range(1, n)))                                # white space at the edges of binary data
    add('ws_trail', bytes(range(1, n - 1)) + b'\n ')
    add('ws_both', b'\n' + b'\xa5' * (n - 2) + b'\r')
    add('quote', b'"' + b'\x27' * (n - 2) + b'"')
    seen, res = set(), []
    for t, b in out:
        if b not in seen and (hexlike_too or not is_hexlike(b)):
            seen.add(b)
            res.append((t, b))
    return res


def orc(pairs):
    return ','.join('%s:%s' % (hx(i), hx(o)) for i, o in pairs) or '-'


def gen_cases(rng, tier):
    big = tier == 'thorough'
    NT = nets()
    names = list(NT)
    cs = []
    K = 12 if big else 3          # payloads per (kind, length)
    # payloads that read as hexadecimal text violate the property on the unchanged library (finding ascii_hex_payload):
    # they are generated once the finding is recorded (known_findings.json / VERIF_EXTRA_KNOWN), and then excused as known
    HEX_ON = recorded('ascii_hex_payload')

    def add(kind, *tk):
        cs.append(Case(kind, ' '.join([kind] + [str(x) for x in tk])))

    gen_adversarial(rng, big, names, add, HEX_ON)
    gen_objects(rng, big, names, add)
    gen_histories(rng, big, names, add, recorded('hd_key_left_uncompressed'))
    _key_histories(rng, names, add)
    gen_hints(rng, big, names, add, recorded('address_with_public_key'))
    # 10. the same argument objects used twice: a sample of the requests so far (every kind that hands OBJECTS or byte
    # strings to Output), repeated with the marker '@2' / '@f' = an earlier output was built from the very same objects
    pool = {}
    for c in cs:
        k = c.req.split(' ', 1)[0]
        if k in ('parse', 'aobj', 'adata', 'hd', 'key', 'pk', 'hash'):
            pool.setdefault(k, []).append(c.req)
    for k in sorted(pool):
        for r in rng.sample(pool[k], min(len(pool[k]), 1500 if big else 300)):
            add(k, r.split(' ', 1)[1], rng.choice(EARLIER))

    def dests(full):
        """destinations: p2pkh/p2sh 20, witness v0 20/32, v1..16 20/32; with full also 2..40 for v1+"""
        out = []
        for h in payloads(rng, 20, K):
            out += [('p2pkh', 0, h), ('p2sh', 0, h), ('wit', 0, h)]
        for h in payloads(rng, 32, K):
            out.append(('wit', 0, h))
        for v in range(1, 17):
            for n in (20, 32):
                for h in payloads(rng, n, K):
                    out.append(('wit', v, h))
        if full:
            for n in range(2, 41):
                for v in ((1, 2, 16) if not big else range(1, 17)):
                    out.append(('wit', v, payloads(rng, n, 3)[2]))
        return out

    # 1. address strings and Address.parse objects on their own network
    for A in names:
        for d in dests(True):
            a = dest_addr(A, d)
            s = addr_str(a)
            for via in ('out', 'add'):
                add('str', A, via, s, tok(a))
            if in_property(d):
                add('parse', A, 'out', s, tok(a), '-')
                add('parse', A, 'add', s, tok(a), A)
        # Base58 bodies of other lengths (row 7) and unknown version bytes
        for n in (19, 21, 32):
            a = ('b58', NT[A][0], payloads(rng, n, 3)[2])
            add('str', A, 'out', addr_str(a), tok(a))
        a = ('b58', b'\x7b', payloads(rng, 20, 3)[2])
        add('str', A, 'out', addr_str(a), tok(a))
        add('parse', A, 'out', addr_str(a), tok(a), '-')
        a = ('bech', 'zz', 0, payloads(rng, 20, 3)[2])
        add('str', A, 'out', addr_str(a), tok(a))
        add('parse', A, 'out', addr_str(a), tok(a), '-')
    # 2. every ordered pair of networks, every kind of address
    kinds = [('p2pkh', 0, 20), ('p2sh', 0, 20), ('wit', 0, 20), ('wit', 0, 32), ('wit', 1, 32), ('wit', 2, 20)]
    for A in names:
        for N in names:
            if A == N:
                continue
            for (k, v, n) in kinds:
                d = (k, v, payloads(rng, n, 3)[2])
                a = dest_addr(A, d)
                s = addr_str(a)
                add('str', N, 'out', s, tok(a))
                add('str', N, 'add', s, tok(a))
                add('parse', N, 'add', s, tok(a), A)
                add('parse', N, 'out', s, tok(a), '-')
    # 3. Address(...) objects
    for A in names:
        others = [x for x in names if x != A]
        for st in ('-', 'p2pkh', 'p2sh', 'p2wpkh', 'p2wsh', 'p2tr', 'p2sh_p2wpkh', 'p2sh_p2wsh'):
            for e in ('-', 'base58', 'bech32'):
                for wv in ((0, 1, 2, 16) if st == 'p2tr' else (0,)):
                    for n in (20, 32):
                        for h in payloads(rng, n, K)[2:]:
                            o = '-'
                            if st.startswith('p2sh_'):
                                rs = b'\x00' + bytes([n]) + h
                                o = orc([(rs, h160(rs))])
                            for N in [A, rng.choice(others)] + (others if big and st != '-' and e == '-' else []):
                                add('aobj', N, rng.choice(('out', 'add')), A, st, e, wv, hx(h), o)
    # 4. HDKey objects: every pair of networks
    for A in names:
        for wt in ('legacy', 'segwit', 'p2sh-segwit'):
            for ms in (0,):         # HDKey(<raw public key>, multisig=True) is overridden to False by the key-format guess
                for pub in ((G1, G2, G3) if big else (G1,)):
                    hh, ss = h160(pub), hashlib.sha256(pub).digest()
                    o = orc([(pub, hh), (b'\x00\x14' + hh, h160(b'\x00\x14' + hh)), (b'\x00\x20' + ss, h160(b'\x00\x20' + ss))])
                    for N in names:
                        add('hd', N, 'add' if N != A else 'out', A, wt, ms, hx(pub), hx(hh), hx(ss), o)
                    add('hd', A, 'add', A, wt, ms, hx(pub), hx(hh), hx(ss), o)
    # 5. public keys and hashes
    for N in names:
        for pub in (G1, G2, G1U):
            o = orc([(pub, h160(pub))])
            for st in ('-', 'p2pkh', 'p2sh', 'p2wpkh', 'p2wsh', 'p2tr', 'p2pk'):
                for e in ('-', 'base58', 'bech32'):
                    add('pk', N, 'out', st, e, hx(pub), o)
                    if st == '-':
                        add('pk', N, 'add', st, e, hx(pub), o)
        for st in ('-', 'p2pkh', 'p2sh', 'p2wpkh', 'p2wsh', 'p2tr', 'p2sh_p2wpkh', 'nulldata', 'multisig', 'p2pk', 'nosuchtype'):
            for e in ('-', 'base58', 'bech32'):
                for wv in ((0, 1, 2, 16, 17) if st == 'p2tr' else (0,)):
                    for n in (20, 32):
                        for h in payloads(rng, n, K)[2:]:
                            rs = b'\x00' + bytes([n]) + h
                            o = orc([(rs, h160(rs))]) if st.startswith('p2sh_') else '-'
                            add('hash', N, 'out', st, wv, e, hx(h), o)
                            if st == '-':
                                add('hash', N, 'add', st, 0, e, hx(h), '-')
    # 6. raw scripts: every standard script, then malformed neighbours
    for N in names:
        for d in dests(N in ('bitcoin', 'litecoin') or big):
            s = dest_script(d)
            add('script', N, 'out', hx(s))
            if in_property(d):
                add('script', N, 'add', hx(s))
        h20, h32 = payloads(rng, 20, 3)[2], payloads(rng, 32, 3)[2]
        bad = [b'\x76\xa9\x14' + h20 + b'\x88', b'\x76\xa9\x14' + h20 + b'\x88\xac\xac', b'\x76\xa9\x14' + h20 + b'\x87\xac',
               b'\x76\xa9\x20' + h32 + b'\x88\xac', b'\x76\xa9\x4c\x14' + h20 + b'\x88\xac', b'\xa9\x14' + h20 + b'\x88',
               b'\xa9\x20' + h32 + b'\x87', b'\xa9\x14' + h20, b'\x00\x14' + h20 + b'\x00', b'\x00\x15' + h20 + b'\x01',
               b'\x00\x14' + h20[:19], b'\x00\x4c\x14' + h20, b'\x4f\x20' + h32, b'\x50\x20' + h32, b'\x61\x20' + h32,
               b'\x51\x20' + h32 + b'\x51', b'\x51\x21' + h32, b'\x51\x4c\x20' + h32, b'\x51\x51', b'\x00', b'\x51',
               b'\x6a', b'\x6a\x14' + h20, b'\x6a\x00', b'\x00\x00', b'\x14' + h20, b'\x20' + h32, b'\x00\x20' + h32 + b'\x87',
               b'\x52\x14' + h20 + b'\x75', b'\xa9\x14' + h20 + b'\x87\x87', b'\x76\x76\xa9\x14' + h20 + b'\x88\xac',
               b'\x20' + h32 + b'\x75\x76\xa9\x14' + h20 + b'\x88\xac']
        # programs of 34 bytes whose first two bytes look like a script header: the address encoder's
        # "size 20, 32, 40 means no header" shortcut (inner program / bogus version / error branches)
        for v in (1, 9):
            for b0 in (0x00, 0x01, 0x30, 0x48, 0x4f, 0x50, 0x51, 0x60, 0x61, 0xff):
                for b1 in (0x20, 0x21):
                    bad.append(bytes([0x50 + v, 34, b0, b1]) + h32)
        for s in bad:
            add('script', N, 'out', hx(s))
        for _ in range(200 if big else 25):
            d = rng.choice([('p2pkh', 0, h20), ('p2sh', 0, h20), ('wit', 0, h20), ('wit', 0, h32), ('wit', 1, h32), ('wit', 5, h20)])
            s = bytearray(dest_script(d))
            m = rng.randrange(4)
            pos = rng.randrange(len(s)) if m else rng.choice([0, 1, len(s) - 1])
            if m == 0:
                s[pos] = rng.choice([0, 0x14, 0x20, 0x4f, 0x51, 0x60, 0x87, 0x88, 0xa9, 0xac])
            elif m == 1:
                del s[pos]
            elif m == 2:
                s.insert(pos, rng.choice([0, 0x51, 0x75, 0x76, 0xac]))
            else:
                s = s[:pos]
            # key-/signature-shaped pushes are outside the model (UNMODELLED); keep the stream away from them
            if len(s) and not (len(s) in (33, 65) and s[0] in (2, 3, 4)):
                add('script', N, 'out', hx(bytes(s)))
    return cs


G_PRIV = {G1: 1, G2: 2, G3: 3, G1U: 1}


def gen_adversarial(rng, big, names, add, hex_on):
    """7. adversarial payloads, every standard type, both directions, all four ways of making / reading an output"""
    full = ('bitcoin', 'litecoin')
    for N in names:
        for n in (20, 32):
            pl = adversarial(n, hex_on)
            if N not in full and not big:
                # the other networks: a rotating dozen of shapes plus, always, the DER / key / text ones
                keep = set(rng.sample(range(len(pl)), 12))
                pl = [x for i, x in enumerate(pl) if i in keep or x[0].startswith(('der%d' % (n - 3), 'derfull%d' % (n - 3), 'hex'))]
            for tag, h in pl:
                ds = [('wit', 0, h), ('wit', 1, h)] + ([('wit', 16, h)] if N in full or big else [])
                if n == 20:
                    ds += [('p2pkh', 0, h), ('p2sh', 0, h)]
                for d in ds:
                    a = dest_addr(N, d)
                    s = addr_str(a)
                    sc, st = hx(dest_script(d)), dest_type(d)
                    for via in ('out', 'add', 'tx') if N in full or big else ('out', 'tx'):
                        add('script', N, via, sc)
                    add('str', N, 'out', s, tok(a))
                    add('str', N, 'rt', s, tok(a))
                    add('hash', N, 'out', st, d[1], '-', hx(h), '-')
                    if N in full or big:
                        add('parse', N, 'out', s, tok(a), N)
                        add('aobj', N, 'out', N, st, '-', d[1], hx(h), '-')
                        add('hash', N, 'rt', st, d[1], '-', hx(h), '-')
                        if d[0] != 'wit' or d[1] == 0:
                            add('gen', N, 'out', tok(a), s, hx(h), '-', sc, st, 0, '-', '-')
    # program lengths 2..40 of witness versions 1+ (the parser re-parses such pushes as scripts, the address encoder looks for
    # a "<version> <length>" header in them): model and implementation are compared, the property speaks about 20 / 32 only
    for n in range(2, 41):
        if n in (20, 32):
            continue
        pl = adversarial(n, hex_on)
        if not big:
            keep = set(rng.sample(range(len(pl)), 10))
            pl = [x for i, x in enumerate(pl) if i in keep or x[0] in ('hdr0', 'hdr1', 'hdr16', 'hdr4f', 'hdr30', 'p2pkh', 'p2sh', 'p2wpkh')]
        for tag, h in pl:
            if len(h) in (33, 65) and h[0] in (2, 3, 4):
                continue                                   # key-shaped pushes are outside the model (UNMODELLED)
            for v in (1, 16) if not big else (1, 2, 16):
                d = ('wit', v, h)
                a = dest_addr('bitcoin', d)
                add('script', 'bitcoin', 'out', hx(dest_script(d)))
                add('script', 'bitcoin', 'tx', hx(dest_script(d)))
                add('str', 'bitcoin', 'out', addr_str(a), tok(a))


def gen_objects(rng, big, names, add):
    """8. destination OBJECTS with every flag: HDKey (six ways of constructing it x witness type x multisig), Key objects,
    Address(data=...) objects; on their own network and on another one"""
    pubs = (G1, G2, G3) if big else (G1,)
    for A in names:
        others = [x for x in names if x != A]
        for wt in ('legacy', 'segwit', 'p2sh-segwit'):
            for ms in (0, 1):
                for form in HD_FORMS:
                    for pub in pubs:
                        hh, ss = h160(pub), hashlib.sha256(pub).digest()
                        o = orc([(pub, hh), (b'\x00\x14' + hh, h160(b'\x00\x14' + hh)), (b'\x00\x20' + ss, h160(b'\x00\x20' + ss))])
                        for N, via in ((A, 'out'), (A, 'add'), (A, 'rt'), (rng.choice(others), 'add')):
                            add('hd', N, via, A, wt, ms, hx(pub), hx(hh), hx(ss), o, form)
        for pub in (G1, G1U, G2):
            hh, ss = h160(pub), hashlib.sha256(pub).digest()
            for form in ('kpub', 'kprv'):
                for N, via in ((A, 'out'), (A, 'add'), (A, 'rt'), (rng.choice(others), 'out')):
                    add('key', N, via, A, form, hx(pub), hx(hh), hx(ss), '-')
        for data in (G1, G1U, b'\x51\x21' + G1 + b'\x51\xae'):
            hh, ss = h160(data), hashlib.sha256(data).digest()
            o = orc([(data, hh), (b'\x00\x14' + hh, h160(b'\x00\x14' + hh)), (b'\x00\x20' + ss, h160(b'\x00\x20' + ss))])
            for st in ('-', 'p2pkh', 'p2sh', 'p2wpkh', 'p2wsh', 'p2tr', 'p2sh_p2wpkh', 'p2sh_p2wsh'):
                for e in ('-', 'base58', 'bech32'):
                    for wv in ((0, 1, 2) if st == 'p2tr' else (0,)):
                        for N, via in ((A, 'out'), (A, 'rt')) + (((rng.choice(others), 'out'),) if e == '-' else ()):
                            add('adata', N, via, A, st, e, wv, hx(data), hx(hh), hx(ss), o)


HIST_ADDRESS = tuple('a:%s:%s' % (st, e) for st in ('-', 'p2pkh', 'p2sh', 'p2wpkh', 'p2wsh', 'p2sh_p2wpkh', 'p2sh_p2wsh', 'p2tr')
                     for e in ('-', 'base58', 'bech32'))
HIST_OTHER = ('ao', 'px', 'w', 'wp', 'wk', 'wx', 'h', 'pb', 'd', 'o', 'of', 's', 'p', 'c')
HIST_KEY = ('ao', 'w', 'h', 'pb', 'd', 's', 'p', 'a:-:-', 'a:p2pkh:base58')


def gen_histories(rng, big, names, add, uncomp_on):
    """9. HISTORIES on one key object: the key is first LOOKED AT (its address in another script type / encoding / prefix,
    its address object, WIFs, hash, dictionary, public copy; an output or a script was already made from it), then the
    output is built from that same object.  The expectation is the one of a fresh key: what a key stands for is decided by
    its network, witness type and multisig flag, never by which of its forms was shown before."""
    pubs = (G1, G2, G3)
    forms = [f for f in HD_FORMS]
    vias = ('out', 'add', 'rt')

    def one(A, wt, ms, hist, N=None, pub=None, form=None, via=None):
        pub = pub or rng.choice(pubs)
        hh, ss = h160(pub), hashlib.sha256(pub).digest()
        o = orc([(pub, hh), (b'\x00\x14' + hh, h160(b'\x00\x14' + hh)), (b'\x00\x20' + ss, h160(b'\x00\x20' + ss))])
        add('hd', N or A, via or rng.choice(vias), A, wt, ms, hx(pub), hx(hh), hx(ss), o, form or rng.choice(forms), ','.join(hist))

    for A in names:
        others = [x for x in names if x != A]
        for wt in ('legacy', 'segwit', 'p2sh-segwit'):
            for ms in (0, 1):
                for _ in range(3 if big else 1):
                    for st in HIST_ADDRESS:
                        one(A, wt, ms, [st])
                        one(A, wt, ms, [st, rng.choice(HIST_OTHER)])
                    for st in HIST_OTHER:
                        one(A, wt, ms, [st])
                    for _ in range(40 if big else 10):
                        hist = [rng.choice(HIST_ADDRESS if rng.random() < 0.6 else HIST_OTHER) for _ in range(rng.randrange(2, 5))]
                        one(A, wt, ms, hist)
                    one(A, wt, ms, [rng.choice(HIST_ADDRESS)], N=rng.choice(others))
                    # the key moves to another network after (and before) it was looked at: it is a key of THAT network now
                    for _ in range(3):
                        B = rng.choice(others)
                        hist = [rng.choice(HIST_ADDRESS), 'n:' + B] + [rng.choice(HIST_ADDRESS + HIST_OTHER) for _ in range(rng.randrange(0, 2))]
                        one(A, wt, ms, hist, N=B)
                    one(A, wt, ms, ['ao', 'n:' + others[0]], N=A)
                    if not ms and wt != 'p2sh-segwit':
                        for _ in range(4):
                            one(A, wt, ms, [rng.choice(HIST_ADDRESS + HIST_OTHER) for _ in range(rng.randrange(1, 4))], via='ks')
                if uncomp_on and wt != 'segwit':
                    one(A, wt, ms, [rng.choice(UNCOMP_STEPS), 'h'], pub=G1, form='pubkc', via=('ks' if wt == 'legacy' and not ms else 'out'))
                    for st in UNCOMP_STEPS:
                        one(A, wt, ms, [st], pub=G1, form=rng.choice(forms[1:]))
                        one(A, wt, ms, [rng.choice(HIST_ADDRESS), st, 'p'], pub=G1, form='priv64')


def _key_histories(rng, names, add):
    for A in names:
        others = [x for x in names if x != A]
        for pub in (G1, G1U, G2):
            hh, ss = h160(pub), hashlib.sha256(pub).digest()
            for form in ('kpub', 'kprv'):
                for N, via in ((A, 'out'), (A, 'add'), (A, 'rt'), (rng.choice(others), 'out')):
                    hist = [rng.choice(HIST_KEY) for _ in range(rng.randrange(1, 4))]
                    add('key', N, via, A, form, hx(pub), hx(hh), hx(ss), '-', ','.join(hist))


def gen_hints(rng, big, names, add, addrpk_on):
    """9. an address (or a script) together with hints: script_type=, encoding=, witver=, public_hash=, public_key=, lock_script=.
    Hints that agree with the destination must not change anything; contradicting hints are compared with the model only."""
    for N in names if big else ('bitcoin', 'testnet', 'litecoin', 'dogecoin'):
        h20, h32 = payloads(rng, 20, 3)[2], payloads(rng, 32, 3)[2]
        kh = h160(G1)
        for d in (('p2pkh', 0, h20), ('p2sh', 0, h20), ('wit', 0, h20), ('wit', 0, h32), ('wit', 1, h32), ('wit', 16, h20),
                  ('p2pkh', 0, kh), ('wit', 0, kh)):
            a = dest_addr(N, d)
            s, sc, st = addr_str(a), hx(dest_script(d)), dest_type(d)
            enc = 'base58' if d[0] in ('p2pkh', 'p2sh') else 'bech32'
            other_h = bytes(x ^ 0x55 for x in d[2])
            other_sc = hx(dest_script(('p2pkh', 0, other_h[:20])))
            o = orc([(G1, kh)])
            pub = hx(G1) if d[2] == kh and (addrpk_on or d[0] == 'wit') else '-'
            for via in ('out', 'rt'):
                # agreeing hints, one at a time and all together
                for hh, pp, ll, ss, ww, ee in (('-', '-', '-', st, 0, '-'), ('-', '-', '-', '-', 0, enc), (hx(d[2]), '-', '-', '-', 0, '-'),
                                               ('-', '-', sc, '-', 0, '-'), ('-', '-', '-', '-', d[1], '-'), ('-', pub, '-', '-', 0, '-'),
                                               (hx(d[2]), pub, sc, st, d[1], enc), ('-', pub, '-', st, 0, enc)):
                    add('gen', N, via, tok(a), s, hh, pp, ll, ss, ww, ee, o)
                    add('gen', N, via, '-', '-', hh, pp, sc, ss, ww, ee, o)          # the same hints next to the script
            # contradicting hints
            for st2 in ('p2pkh', 'p2sh', 'p2wpkh', 'p2wsh', 'p2tr', 'p2pk', 'nulldata'):
                if st2 != st:
                    add('gen', N, 'out', tok(a), s, '-', '-', '-', st2, 0, '-', o)
                    add('gen', N, 'out', '-', '-', '-', '-', sc, st2, 0, '-', o)
            add('gen', N, 'out', tok(a), s, '-', '-', '-', '-', 0, 'bech32' if enc == 'base58' else 'base58', o)
            add('gen', N, 'out', '-', '-', '-', '-', sc, '-', 0, 'bech32' if enc == 'base58' else 'base58', o)
            add('gen', N, 'out', tok(a), s, hx(other_h), '-', '-', '-', 0, '-', o)
            add('gen', N, 'out', '-', '-', hx(other_h), '-', sc, '-', 0, '-', o)
            add('gen', N, 'out', tok(a), s, '-', '-', other_sc, '-', 0, '-', o)
            add('gen', N, 'out', tok(a), s, hx(d[2]), hx(G2), '-', '-', 0, '-', orc([(G2, h160(G2))]))
            if addrpk_on:
                # an address next to a public key: another key, and an address of another network (must be refused)
                add('gen', N, 'out', tok(a), s, '-', hx(G2), '-', '-', 0, '-', orc([(G2, h160(G2))]))
                F = 'litecoin' if N != 'litecoin' else 'bitcoin'
                fa = dest_addr(F, d)
                add('gen', N, 'out', tok(fa), addr_str(fa), '-', hx(G1), '-', '-', 0, '-', o)
            add('gen', N, 'out', '-', '-', '-', '-', sc, '-', 5, '-', o)
            add('gen', N, 'out', tok(a), s, '-', '-', '-', '-', 5, '-', o)


def reproduce_known(entry, rundir):
    from core import run_impl
    rc, out, err = run_impl(IMPL, [entry['witness']['request']], rundir)
    return len(out) == 1 and out[0] == entry['witness']['impl_answer']
