"""C14 — Mnemonic sentences follow BIP39 in every language and round-trip."""
import glob, hashlib, hmac, json, os, unicodedata
from pathlib import Path
from core import Case, REPO, VERIF

PROP = 'C14'
COQ_FILES = ['Extract/C14.v', 'Properties/C14.v']
DRIVER = 'c14'
IMPL = 'harness/impl/c14_impl.py'
ALLOWED_AXIOMS = []
ASSUMPTIONS = [
    'theorems are about coq/Model/Bip39.v + Model/ChangeBase.v: spec_* is BIP39 as written in the BIP, lib_* mirrors '
    'mnemonic.py / encoding.change_base / encoding.to_bytes; every theorem holds for an arbitrary hash H (lib theorems: '
    'any H with 32-byte output); the executable instance uses the Gallina SHA-256 of Crypto/Sha256.v (validated '
    'against hashlib by every mn/ent case here)',
    'tie to /repo: differential correspondence of every lib_* function against the public API on each run; sentences '
    'are index lists, mapped through the repository word-list files by the adapter',
    'PBKDF2-HMAC-SHA512, Unicode NFKD and UTF-8 encoding are oracles (Section variables): the model returns the two '
    'PBKDF2 arguments, the harness evaluates hashlib.pbkdf2_hmac on them and compares with Mnemonic.to_seed',
    'floating point inside change_base (math.log quotients) is modelled by exact integer quotients; validated by the '
    'change_base correspondence streams over every leading-zero count',
    'word lists: translator/gen_wordlists.py regenerates coq/Gen/GenWordlists.v from bitcoinlib/wordlist/*.txt on every run '
    '(a word = the integer of its UTF-8 bytes); length 2048 and distinctness of all nine lists are proved inside Coq '
    '(bundled_wordlists_ok, vm_compute) and so is their equality with the FROZEN copy coq/Model/Bip39Frozen.v '
    '(bundled_wordlists_are_frozen); the harness and the adapter take every word from the frozen files '
    'corpus/C14/wordlist/*.txt (english.txt = the BIP39 repository file, sha256 2f5eed53...), never from /repo; that '
    'Mnemonic(lang) serves exactly the frozen list is checked on every run (wlfacts)',
    'language detection / sanitising are modelled over word PROFILES (position of a word in each of the nine lists, '
    'computed by the harness from the frozen lists); the directory order that breaks ties in detect_language is read '
    'by the harness with Path.iterdir() on the same directory; NFKD idempotence is assumed (sanitize then detect '
    'normalise twice)',
    'the library keeps no state between calls: the model answers a session call by call (run_session = map answer); '
    'the seq stream checks that on the implementation (one process, one Mnemonic object per language or a fresh one '
    'per call)',
    'not modelled: os.urandom in generate (stubbed; the number of bytes asked for is checked), HDKey beyond the master '
    'secret / chain code and the pass-through of from_passphrase arguments (C03)',
]
RULE = ('entropy stream exhaustive over leading-zero patterns (each length 16/20/24/28/32: every k = 0..8*len leading '
        'zero bits then a 1 and random bits; all-zero; all-ones) + seeded random, nine languages; sentences in plain / '
        'NFC / ideographic-space form; single-word substitutions; words outside the list; wrong sentence lengths; '
        'to_seed over ASCII / NFC / NFD / compatibility / astral passphrases; Trezor vectors; change_base on each of '
        'its five uses over every leading-zero count; frozen BIP39 vectors (24 Trezor, Japanese #1); every public switch '
        '(add_checksum, check_on_curve, includes_checksum, validate, generate strength / add_checksum, str or bytes '
        'arguments, from_passphrase arguments) at non-default values in all nine languages; literal-text sentences in '
        'plain / NFC / NFKC / U+3000 / U+00A0 / mixed-separator form and malformed spacing; valid sentences made only of '
        'words shared by two lists, on the objects of both lists and of a third; sessions of 2-6 calls in one process '
        '(switch off then on, bad then good, two languages, two passwords, cached or fresh objects); '
        'non-trivial = implementation returned a value; distinct by request')

LANGS = ['chinese_simplified', 'chinese_traditional', 'dutch', 'english', 'french', 'italian', 'japanese',
         'portuguese', 'spanish']
N_SECP = 0xFFFFFFFFFFFFFFFFFFFFFFFFFFFFFFFEBAAEDCE6AF48A03BBFD25E8CD0364141
_WL = {}


CORPUS = os.path.join(VERIF, 'corpus', 'C14')
_POS = {}


def wl(lang):
    """the FROZEN BIP39 list (corpus/C14/wordlist), never the repository's file"""
    if lang not in _WL:
        p = os.path.join(CORPUS, 'wordlist', lang + '.txt')
        with open(p, encoding='utf8') as f:
            _WL[lang] = [w.strip() for w in f.read().split('\n') if w.strip()]
        assert len(_WL[lang]) == 2048
        _POS[lang] = {w: i for i, w in enumerate(_WL[lang])}
    return _WL[lang]


def pos(lang, w):
    wl(lang)
    return _POS[lang].get(w, -1)


def vectors():
    return json.load(open(os.path.join(CORPUS, 'bip39_vectors.json'), encoding='utf8'))


def dir_order():
    """the order in which detect_language meets the word-list files (Path.iterdir of the same directory)"""
    names = [p.name[:-4] for p in Path(REPO, 'bitcoinlib', 'wordlist').iterdir() if p.suffix == '.txt']
    return [LANGS.index(n) for n in names if n in LANGS]


# ---------------------------------------------------------------- independent BIP39 (from the BIP text)
def bits_of(b):
    return ''.join(format(x, '08b') for x in b)


def bip39_indices(ent):
    """ENT bits + first ENT/32 bits of SHA-256, in groups of 11.  Defined for any length that is a multiple of 4."""
    if len(ent) == 0 or len(ent) % 4:
        return None
    bits = bits_of(ent) + bits_of(hashlib.sha256(ent).digest())[:len(ent) * 8 // 32]
    return [int(bits[i:i + 11], 2) for i in range(0, len(bits), 11)]


def bip39_entropy(idx, strict=True):
    n = len(idx)
    if n == 0 or n % 3 or (strict and n not in (12, 15, 18, 21, 24)) or any(not 0 <= i < 2048 for i in idx):
        return None
    bits = ''.join(format(i, '011b') for i in idx)
    cs = n // 3
    el = 11 * n - cs
    ent = bytes(int(bits[i:i + 8], 2) for i in range(0, el, 8))
    return ent if bits_of(hashlib.sha256(ent).digest())[:cs] == bits[el:] else None


def nfkd(s):
    return unicodedata.normalize('NFKD', s)


def bip39_seed(sentence, pw):
    return hashlib.pbkdf2_hmac('sha512', nfkd(sentence).encode('utf8'), b'mnemonic' + nfkd(pw).encode('utf8'), 2048)


def py_fromhex(b):
    """does bytes.fromhex accept these bytes read as text (the encoding.to_bytes ambiguity)"""
    if not b:
        return None
    try:
        return bytes.fromhex(b.decode())
    except ValueError:
        return None


# ---------------------------------------------------------------- request helpers
def hx(b):
    return b.hex() if b else '-'


def unhx(s):
    return b'' if s == '-' else bytes.fromhex(s)


def szs(l):
    return ','.join(str(x) for x in l) if len(l) else '-'


def zs(t):
    return [] if t == '-' else [int(x) for x in t.split(',')]


def cps(s):
    return ','.join('%x' % ord(c) for c in s) if s else '-'


def text(t):
    return '' if t == '-' else ''.join(chr(int(x, 16)) for x in t.split(','))


def plain_sentence(lang, idx, sub=None):
    ws = [wl(lang)[i] for i in idx]
    if sub is not None:
        ws[sub[0]] = sub[1]
    return ' '.join(ws)


def word_tokens(lang, idx, sub):
    """the word sequence as the model sees it: list positions, -1 for a word outside the list"""
    out = list(idx)
    w = nfkd(sub[1])
    out[sub[0]] = wl(lang).index(w) if (w in wl(lang) and ' ' not in w) else -1
    return out


# ---------------------------------------------------------------- literal text, profiles, independent BIP32 master
SEPS = {'plain': ' ', 'ideo': '\u3000', 'nbsp': '\u00a0', 'emsp': '\u2003'}
GOOD_FORMS = ['plain', 'nfc', 'nfkc', 'ideo', 'nbsp', 'emsp', 'nfc_ideo', 'mixsep']
BAD_FORMS = ['dblspace', 'lead', 'trail', 'tab', 'nl', 'comma', 'glued']


def render(words, form, rng=None):
    """a sentence as a user could type it; the GOOD forms all have the same NFKD form"""
    words = list(words)
    if form in SEPS:
        return SEPS[form].join(words)
    plain = ' '.join(words)
    if form == 'nfc':
        return unicodedata.normalize('NFC', plain)
    if form == 'nfkc':
        return unicodedata.normalize('NFKC', plain)
    if form == 'nfc_ideo':
        return unicodedata.normalize('NFC', '\u3000'.join(words))
    if form == 'mixsep':
        return ''.join(w + (rng.choice(list(SEPS.values())) if i + 1 < len(words) else '') for i, w in enumerate(words))
    k = rng.randrange(len(words) - 1) if len(words) > 1 else 0
    if form == 'dblspace':
        return ' '.join(words[:k + 1]) + '  ' + ' '.join(words[k + 1:])
    if form == 'tab':
        return ' '.join(words[:k + 1]) + '\t' + ' '.join(words[k + 1:])
    if form == 'glued':
        return ' '.join(words[:k + 1]) + ' '.join(words[k + 1:])
    if form == 'lead':
        return ' ' + plain
    if form == 'trail':
        return plain + ' '
    if form == 'nl':
        return plain + '\n'
    if form == 'comma':
        return ', '.join(words)
    raise ValueError(form)


def text_words(txt):
    """what sanitize_mnemonic works on: the NFKD form split at single spaces"""
    return nfkd(txt).split(' ')


def profs(words):
    return ';'.join(','.join(str(pos(l, w)) for l in LANGS) for w in words)


def idx_in(lang, words):
    return [pos(lang, w) for w in words]


def in_one_list(words):
    return [l for l in LANGS if all(pos(l, w) >= 0 for w in words)]


B58 = '123456789ABCDEFGHJKLMNPQRSTUVWXYZabcdefghijkmnopqrstuvwxyz'


def b58check(b):
    b = b + hashlib.sha256(hashlib.sha256(b).digest()).digest()[:4]
    n, out = int.from_bytes(b, 'big'), ''
    while n:
        n, r = divmod(n, 58)
        out = B58[r] + out
    return '1' * (len(b) - len(b.lstrip(b'\0'))) + out


def master_of_seed(seed):
    return hmac.new(b'Bitcoin seed', seed, hashlib.sha512).digest()


def xprv_of_seed(seed):
    """BIP32 serialisation of the master private key, mainnet version 0488ADE4"""
    i = master_of_seed(seed)
    return b58check(bytes.fromhex('0488ade4') + b'\0' * 9 + i[32:] + b'\0' + i[:32])


def subrequests(req):
    """token lists of the calls of a request (a seq request has several)"""
    t = req.split(' ')
    if t[0] != 'seq':
        return [t]
    out, cur = [], []
    for x in t[2:]:
        if x == '|':
            out.append(cur)
            cur = []
        else:
            cur.append(x)
    out.append(cur)
    return out


def shared_sentence(rng, a, b, valid_in, nwords):
    """a sentence valid in list `valid_in` (a or b) all of whose words are in BOTH lists a and b; None if the search
    gives up.  The last word carries 11 - nwords/3 entropy bits and the checksum: try every completion."""
    both = sorted(set(wl(a)) & set(wl(b)), key=lambda w: pos(valid_in, w))
    ok = set(both)
    cs = nwords // 3
    for _ in range(4000):
        pre = [pos(valid_in, rng.choice(both)) for _ in range(nwords - 1)]
        v = 0
        for i in pre:
            v = (v << 11) | i
        lasts = list(range(1 << (11 - cs)))
        rng.shuffle(lasts)
        for last in lasts:
            ent = ((v << (11 - cs)) | last).to_bytes(nwords * 4 // 3, 'big')
            fin = (last << cs) | (hashlib.sha256(ent).digest()[0] >> (8 - cs))
            if wl(valid_in)[fin] in ok and py_fromhex(ent) is None:
                idx = pre + [fin]
                assert bip39_indices(ent) == idx
                return [wl(valid_in)[i] for i in idx]
    return None


SHARED_PAIRS = [('chinese_simplified', 'chinese_traditional'), ('dutch', 'english'), ('english', 'french'),
                ('dutch', 'french'), ('dutch', 'spanish'), ('dutch', 'italian'), ('dutch', 'portuguese')]


# ---------------------------------------------------------------- generators
PASSWORDS = [
    '', 'TREZOR', 'password with spaces', 'café Å',            # ASCII; NFC-composed
    'café Å',                                               # NFD-decomposed
    'Åﬁ№①½',                                   # compatibility characters
    '\U0001d518\U0001d52b\U0001d526 \U0001f600',                        # astral: fraktur letters (NFKD -> ASCII), emoji
    'パスワード', '한글', '　x　',   # kana with dakuten, hangul, ideographic space
    'ǆẛ̣', '  ',
]

TREZOR = [  # (entropy, sentence, seed with passphrase TREZOR) — checked against the independent oracle when generated
    ('00000000000000000000000000000000',
     'abandon abandon abandon abandon abandon abandon abandon abandon abandon abandon abandon about',
     'c55257c360c07c72029aebc1b53c05ed0362ada38ead3e3e9efa3708e53495531f09a6987599d18264c1e1c92f2cf141630c7a3c4ab7c81b2f001698e7463b04'),
    ('7f7f7f7f7f7f7f7f7f7f7f7f7f7f7f7f',
     'legal winner thank year wave sausage worth useful legal winner thank yellow', None),
    ('80808080808080808080808080808080',
     'letter advice cage absurd amount doctor acoustic avoid letter advice cage above', None),
    ('ffffffffffffffffffffffffffffffff', 'zoo zoo zoo zoo zoo zoo zoo zoo zoo zoo zoo wrong', None),
    ('0000000000000000000000000000000000000000000000000000000000000000',
     'abandon abandon abandon abandon abandon abandon abandon abandon abandon abandon abandon abandon abandon abandon '
     'abandon abandon abandon abandon abandon abandon abandon abandon abandon art', None),
    ('ffffffffffffffffffffffffffffffffffffffffffffffffffffffffffffffff',
     'zoo zoo zoo zoo zoo zoo zoo zoo zoo zoo zoo zoo zoo zoo zoo zoo zoo zoo zoo zoo zoo zoo zoo vote', None),
    ('808080808080808080808080808080808080808080808080',
     'letter advice cage absurd amount doctor acoustic avoid letter advice cage absurd amount doctor acoustic avoid '
     'letter always', None),
]


def lz_entropies(rng, L):
    """every number of leading zero bits, then a 1 and random bits; all-zero; all-ones"""
    out = [bytes(L), b'\xff' * L]
    for k in range(8 * L):
        rest = 8 * L - k - 1
        out.append(((1 << rest) | (rng.getrandbits(rest) if rest else 0)).to_bytes(L, 'big'))
    return out


def safe_entropy(rng, L):
    while True:
        e = bytes(rng.randrange(256) for _ in range(L))
        if py_fromhex(e) is None:
            return e


def gen_cases(rng, tier):
    big = tier == 'thorough'
    cs = []
    add = lambda kind, req: cs.append(Case(kind, req))

    # --- word-list facts and the protocol vectors first
    add('wlfacts', 'wlfiles')
    for lang in LANGS:
        add('wlfacts', 'wlfacts ' + lang)
    gen_vector_cases(add)
    for e, s, seed in TREZOR:
        idx = bip39_indices(bytes.fromhex(e))
        assert plain_sentence('english', idx) == s, 'corpus vector disagrees with the independent oracle'
        if seed:
            assert bip39_seed(s, 'TREZOR').hex() == seed
        add('mn_vector', 'mn english ' + e)
        add('mn_vector', 'mnhex english ' + e)
        add('ent_vector', 'ent english plain ' + szs(idx))
        add('seed_vector', 'seed english plain %s %s' % (szs(idx), cps('TREZOR')))
        add('hdkey', 'hdkey english %s %s' % (szs(idx), cps('TREZOR')))

    # --- change_base on its five uses: every leading-zero count
    for L in (1, 2, 4, 16, 17, 20, 32, 33):
        for k in list(range(8 * L + 1)):
            rest = 8 * L - k - 1
            v = 0 if rest < 0 else (1 << rest) | (rng.getrandbits(rest) if rest else 0)
            b = v.to_bytes(L, 'big')
            if big or L <= 4 or k % 3 == 0 or k < 20 or rest < 20:
                add('cb256_2', 'cb256_2 %s %d' % (hx(b), rng.choice([0, 4 * L, 8 * L, 256])))
                add('cb10_2', 'cb10_2 %d %d' % (v, 8 * L))
    add('cb10_2', 'cb10_2 5 0')
    add('cb10_2', 'cb10_2 0 0')
    for nbits in (11, 22, 33, 130, 132, 165, 198, 231, 264, 131, 8, 16, 128, 124, 125, 121, 256, 255):
        for k in range(nbits + 1):
            rest = nbits - k - 1
            v = 0 if rest < 0 else (1 << rest) | (rng.getrandbits(rest) if rest else 0)
            s = format(v, '0%db' % nbits)
            if big or nbits <= 33 or k % 3 == 0 or k < 24 or rest < 24:
                add('cb2_2048', 'cb2_2048 ' + s)
                add('cb2_256', 'cb2_256 %s %d' % (s, rng.choice([0, 16, 20, 32, nbits // 8])))
    add('cb2_2048', 'cb2_2048 -')
    add('cb2_256', 'cb2_256 - 4')
    for n in (1, 2, 3, 12, 13, 15, 18, 21, 24, 25):
        for k in range(0, 11 * n + 1):
            rest = 11 * n - k - 1
            v = 0 if rest < 0 else (1 << rest) | (rng.getrandbits(rest) if rest else 0)
            idx = [(v >> (11 * (n - 1 - i))) & 2047 for i in range(n)]
            if big or n <= 3 or k % 4 == 0 or k < 24 or rest < 24:
                add('cb2048_256', 'cb2048_256 %s %d' % (szs(idx), rng.choice([0, 4 * n // 3, 4 * n // 3, 40])))
    for _ in range(2000 if big else 200):
        b = bytes(rng.choice([0, 0, 1, 0x30, 0x20, rng.randrange(256)]) for _ in range(rng.randrange(1, 34)))
        add('cb256_2', 'cb256_2 %s %d' % (hx(b), rng.choice([0, 64, 256])))
    # to_bytes: hex-looking byte strings, white space, odd counts
    tb = [b'', b' ', b'0', b'00', b'0 0', b'00 11', b' 00\t11\n', b'0g', b'\xc3\xa9', b'ABCDEF', b'abcdef01', b'a b',
          b'\x0b\x0c12', b'12\x00', b'12\x85', b'1234 ', b'  ', b'12 3']
    for _ in range(3000 if big else 300):
        tb.append(bytes(rng.choice(b'0123456789abcdefABCDEF \t\ngG\x00\xff') for _ in range(rng.randrange(1, 34))))
    for b in tb:
        add('to_bytes', 'to_bytes ' + hx(b))

    # --- entropy -> sentence -> entropy, exhaustive leading-zero stream, all languages
    ents_by_L = {L: lz_entropies(rng, L) for L in (16, 20, 24, 28, 32)}
    for li, lang in enumerate(LANGS):
        for L in (16, 20, 24, 28, 32):
            ents = ents_by_L[L]
            for j, e in enumerate(ents):
                full = big or lang == 'english'
                if full or j < 2 or (j + li) % 6 == 0:
                    add('mn_lz', 'mn %s %s' % (lang, hx(e)))
                if full or j < 2 or (j + li) % 8 == 0:
                    idx = bip39_indices(e)
                    add('ent_lz', 'ent %s plain %s' % (lang, szs(idx)))
            for _ in range(2000 if big and lang == 'english' else (300 if big else 25)):
                e = safe_entropy(rng, L)
                add('mn_random', 'mn %s %s' % (lang, hx(e)))
                if rng.random() < 0.5:
                    add('ent_random', 'ent %s %s %s' % (lang, rng.choice(['plain', 'nfc', 'ideo']), szs(bip39_indices(e))))
                if rng.random() < 0.1:
                    add('mn_random', 'mnhex %s %s' % (lang, e.hex()))
        # other sizes: multiples of 4 outside 16..32 (generalised), non-multiples (refused), empty
        for L in (0, 1, 3, 4, 8, 12, 15, 17, 31, 33, 36, 40, 64):
            e = safe_entropy(rng, L) if L else b''
            add('mn_size', 'mn %s %s' % (lang, hx(e)))
            g = bip39_indices(e)
            if g:
                add('ent_size', 'ent %s plain %s' % (lang, szs(g)))
        # default switch check_on_curve=True: refuses 0 and 32-byte values >= n, nothing else
        for e in (bytes(16), bytes(32), N_SECP.to_bytes(32, 'big'), (N_SECP - 1).to_bytes(32, 'big'), b'\xff' * 32,
                  b'\xff' * 16, safe_entropy(rng, 32), safe_entropy(rng, 20)):
            add('mn_curve', 'mncurve %s %s' % (lang, hx(e)))
        for strength in (128, 160, 192, 224, 256):
            add('generate', 'gen %s %d %s' % (lang, strength, hx(b'\x01' + safe_entropy(rng, strength // 8 - 1))))
        add('generate', 'gen %s 100 %s' % (lang, hx(safe_entropy(rng, 16))))

    # --- the known ambiguity: entropy bytes that read as hex text
    for e in (b'0123456789abcdef', b'0123456789abcdef0123456789abcdef', b'AAAAaaaa00001111', b'  0123456789abcdef  ',
              b'1234 5678 9abc d0'):
        add('mn_hexlike', 'mn english ' + hx(e))
        add('mn_hexlike', 'mnhex english ' + e.hex())
        g = bip39_indices(e)
        if g:
            add('ent_hexlike', 'ent english plain ' + szs(g))

    # --- malformed: substitutions, foreign words, wrong lengths
    for li, lang in enumerate(LANGS):
        words = wl(lang)
        for L in ((16, 32) if not big else (16, 20, 24, 28, 32)):
            e = safe_entropy(rng, L)
            idx = bip39_indices(e)
            n = len(idx)
            if big and ((lang == 'english' and L in (16, 32)) or L == 16):
                positions = range(n) if lang == 'english' else rng.sample(range(n), 2)
                subs = [(p, w) for p in positions for w in range(2048) if w != idx[p]]
            else:
                subs = [(rng.randrange(n), rng.randrange(2048)) for _ in range(600 if big else 80)]
            for p, w in subs:
                if w == idx[p]:
                    continue
                j = list(idx)
                j[p] = w
                add('ent_subst', 'ent %s plain %s' % (lang, szs(j)))
            # words outside the list
            other = wl(LANGS[(li + 1) % len(LANGS)])
            outs = ['', 'zzzzzz', words[5].upper(), words[7] + 'x', words[9][:-1] + '́', 'abandon' if lang != 'english' else 'ábaco',
                    other[3], other[1000], other[2047], words[3] + ' ' + words[4], words[3] + '\n', '　', '0', 'a b']
            for w in outs:
                p = rng.randrange(n)
                add('ent_unknown', 'entw %s %s %d %s' % (lang, szs(idx), p, cps(w)))
            add('seed_unknown', 'seedw %s %s %d %s %s' % (lang, szs(idx), rng.randrange(n), cps('zzzzzz'), cps('pw')))
        for n in list(range(1, 31)) if lang == 'english' or big else (1, 2, 3, 6, 9, 11, 13, 14, 23, 25, 27):
            idx = [rng.randrange(2048) for _ in range(n)]
            add('ent_length', 'ent %s plain %s' % (lang, szs(idx)))
            if n % 3 == 0:      # a sentence of that length with a matching generalised checksum
                add('ent_length', 'ent %s plain %s' % (lang, szs(bip39_indices(safe_entropy(rng, 4 * n // 3)))))
            # drop / append a word of a valid sentence
        v = bip39_indices(safe_entropy(rng, 16))
        add('ent_length', 'ent %s plain %s' % (lang, szs(v[:-1])))
        add('ent_length', 'ent %s plain %s' % (lang, szs(v + [v[0]])))

    # --- seeds
    for li, lang in enumerate(LANGS):
        for L in (16, 32) if not big else (16, 20, 24, 28, 32):
            idx = bip39_indices(safe_entropy(rng, L))
            pws = list(PASSWORDS)
            for _ in range(20 if big else 3):
                pws.append(''.join(chr(rng.choice([rng.randrange(0x20, 0x7f), rng.randrange(0xa0, 0x24f),
                                                   rng.randrange(0x300, 0x36f), rng.randrange(0x3040, 0x30ff),
                                                   rng.randrange(0xac00, 0xd7a3), rng.randrange(0xfb00, 0xfb06),
                                                   rng.randrange(0xff01, 0xff5e), rng.randrange(0x1d400, 0x1d7ff),
                                                   rng.randrange(0x1f600, 0x1f64f)]))
                                   for _ in range(rng.randrange(1, 12))))
            for pw in pws:
                form = rng.choice(['plain', 'plain', 'nfc', 'ideo'])
                add('seed', 'seed %s %s %s %s' % (lang, form, szs(idx), cps(pw)))
            bad = list(idx)
            bad[rng.randrange(len(bad))] ^= 1 + rng.randrange(2047)
            add('seed_badsum', 'seed %s plain %s %s' % (lang, szs(bad), cps('x')))
            add('hdkey', 'hdkey %s %s %s' % (lang, szs(idx), cps(rng.choice(PASSWORDS))))
            add('detect', 'detect %s %s' % (lang, szs(idx)))
        for _ in range(30 if big else 6):
            add('detect', 'detect %s %s' % (lang, szs(bip39_indices(safe_entropy(rng, rng.choice([16, 20, 24, 28, 32]))))))
    gen_switch_cases(rng, big, add)
    gen_text_cases(rng, big, add)
    gen_shared_cases(rng, big, add)
    gen_session_cases(rng, big, add)
    # emission order: word-list facts and vectors, then the self-contained sessions (so that state kept between calls
    # is first reported on a request that reproduces alone), then everything else in generation order
    head = [c for c in cs if c.kind in ('wlfacts', 'vector')]
    sess = [c for c in cs if c.kind in ('session', 'shared_seq')]
    rest = [c for c in cs if c.kind not in ('wlfacts', 'vector', 'session', 'shared_seq')]
    return head + sess + rest


# ---------------------------------------------------------------- frozen vectors, switches, literal text, sessions
def gen_vector_cases(add):
    """corpus/C14/bip39_vectors.json through the default-argument calls; each vector is first checked against the
    independent oracle (a corrupted corpus stops the run, it does not weaken the check)"""
    v = vectors()
    for e, sent, seed, xprv in v['english']:
        assert plain_sentence('english', bip39_indices(bytes.fromhex(e))) == sent, 'corpus vector vs independent BIP39'
        assert bip39_seed(sent, 'TREZOR').hex() == seed and xprv_of_seed(bytes.fromhex(seed)) == xprv
        add('vector', 'tmn english 1 1 h ' + e)
        add('vector', 'tmn default 1 1 b ' + hx(bytes.fromhex(e)))          # Mnemonic() without a language
        add('vector', 'tent default d s ' + cps(sent))
        add('vector', 'tent english d s ' + cps(sent))
        add('vector', 'tseed english d s s %s %s' % (cps(sent), cps('TREZOR')))
        add('vector', 'thd english %s %s bitcoin bip32 1 legacy 0' % (cps(sent), cps('TREZOR')))
    for e, sent, pw, seed, xprv in v['japanese']:
        assert text_words(sent) == [wl('japanese')[i] for i in bip39_indices(bytes.fromhex(e))]
        assert bip39_seed(sent, pw).hex() == seed and xprv_of_seed(bytes.fromhex(seed)) == xprv
        assert sent != nfkd(sent) and pw != nfkd(pw)
        add('vector', 'tmn japanese 1 0 h ' + e)
        add('vector', 'tent japanese d s ' + cps(sent))
        add('vector', 'tent japanese d b ' + cps(sent))
        for val in 'd10':
            add('vector', 'tseed japanese %s s s %s %s' % (val, cps(sent), cps(pw)))
        add('vector', 'tseed japanese d b b %s %s' % (cps(sent), cps(pw)))
        add('vector', 'tseed english 0 s s %s %s' % (cps(sent), cps(pw)))      # another object, no validation
        add('vector', 'thd japanese %s %s d' % (cps(sent), cps(pw)))


def gen_switch_cases(rng, big, add):
    """to_mnemonic(add_checksum, check_on_curve), generate(strength, add_checksum) at non-default values"""
    for li, lang in enumerate(LANGS):
        full = big or lang == 'english'
        for L in (16, 20, 24, 28, 32):
            for _ in range(6 if big else 1):
                e = safe_entropy(rng, L)
                for a, c in (('0', '0'), ('0', '1'), ('1', '1'), ('1', '0')):
                    add('mn_switch', 'tmn %s %s %s b %s' % (lang, a, c, hx(e)))
                add('mn_switch', 'tmn %s 0 0 h %s' % (lang, e.hex()))
            # without checksum the leading zero bits are simply lost: every boundary of 11 and 8
            ks = [0, 1, 7, 8, 9, 10, 11, 12, 15, 16, 21, 22, 23, 33, 8 * L - 12, 8 * L - 11, 8 * L - 1]
            for k in (range(8 * L) if (big and lang == 'english') else ks):
                if full or (k + li) % 3 == 0:
                    rest = 8 * L - k - 1
                    e = ((1 << rest) | (rng.getrandbits(rest) if rest else 0)).to_bytes(L, 'big')
                    if py_fromhex(e) is None:
                        add('mn_switch', 'tmn %s 0 0 b %s' % (lang, hx(e)))
        for e in (bytes(16), bytes(32), b'\xff' * 32, N_SECP.to_bytes(32, 'big'), (N_SECP - 1).to_bytes(32, 'big'),
                  b'', b'\x00', b'\x01', b'\x07\xff', b'\x08\x00', b'\x00\x00\x08\x00', b'\xff' * 11, b'\xff' * 33,
                  safe_entropy(rng, 5), safe_entropy(rng, 40)):
            for a, c in (('0', '0'), ('0', '1')):
                if full or rng.random() < 0.5:
                    add('mn_switch', 'tmn %s %s %s b %s' % (lang, a, c, hx(e)))
        # generate: every strength that is a multiple of 32 up to 256, both add_checksum values, bounds
        for strength in (32, 64, 96, 128, 160, 192, 224, 256):
            for a in ('d', '1', '0'):
                if full or a != '1' or strength in (32, 256):
                    data = b'\x01' + safe_entropy(rng, strength // 8 + 7)
                    add('generate', 'tgen %s %d %s %s' % (lang, strength, a, hx(data)))
        for strength, data in ((0, b'\x11' * 8), (-32, b'\x11' * 8), (8, b'\x11' * 8), (100, b'\x11' * 40), (129, b'\x11' * 40),
                               (127, b'\x11' * 40), (288, bytes(4) + b'\x01' + safe_entropy(rng, 35)),
                               (288, b'\x01' + safe_entropy(rng, 39)), (512, bytes(33) + safe_entropy(rng, 35)),
                               (128, bytes(16) + b'\x01' * 8), (256, b'\xff' * 40)):
            if full or rng.random() < 0.4:
                add('generate', 'tgen %s %d %s %s' % (lang, strength, rng.choice('d10'), hx(data)))


def _valid_words(rng, lang, L):
    return [wl(lang)[i] for i in bip39_indices(safe_entropy(rng, L))]


def _bad_checksum(rng, lang, words):
    """same length, every word in the list, checksum wrong"""
    while True:
        w = list(words)
        w[rng.randrange(len(w))] = wl(lang)[rng.randrange(2048)]
        if bip39_entropy(idx_in(lang, w), strict=False) is None:
            return w


def gen_text_cases(rng, big, add):
    """sentences as literal text in every spelling, every switch of to_entropy / to_seed / sanitize / detect /
    from_passphrase, str and bytes arguments"""
    for li, lang in enumerate(LANGS):
        other = LANGS[(li + 3) % len(LANGS)]
        for Li, L in enumerate((16, 20, 24, 28, 32) if big else (16, 32)):
            good = _valid_words(rng, lang, L)
            bad = _bad_checksum(rng, lang, good)
            foreign = _valid_words(rng, other, L)
            mixed = list(good)
            mixed[rng.randrange(len(mixed))] = next(w for w in foreign if pos(lang, w) < 0)
            for fi, form in enumerate(GOOD_FORMS):
                if not big and (fi + li + Li) % 2:
                    continue            # quick: every spelling once per language, alternating sentence length
                txt = render(good, form, rng)
                add('ent_text', 'tent %s d %s %s' % (lang, rng.choice('sb'), cps(txt)))
                add('ent_text', 'tent %s 0 %s %s' % (lang, rng.choice('sb'), cps(txt)))
                if big or form in ('nfc', 'ideo', 'mixsep') or rng.random() < 0.3:
                    add('ent_text', 'tent %s 1 s %s' % (lang, cps(txt)))
                    add('ent_text', 'tent %s d s %s' % (lang, cps(render(bad, form, rng))))
                    add('ent_text', 'tent %s 0 s %s' % (lang, cps(render(bad, form, rng))))
                pw = rng.choice(PASSWORDS)
                for val in 'd10':
                    if big or val == '0' or rng.random() < 0.4:
                        add('seed_text', 'tseed %s %s %s %s %s %s' % (lang, val, rng.choice('sb'), rng.choice('sb'), cps(txt), cps(pw)))
                add('seed_text', 'tseed %s 0 s s %s %s' % (lang, cps(render(bad, form, rng)), cps(pw)))
                if big or rng.random() < 0.3:
                    add('seed_text', 'tseed %s 1 s s %s %s' % (lang, cps(render(bad, form, rng)), cps(pw)))
                add('sanitize', 'tsan %s %s %s' % (rng.choice([lang, other]), rng.choice('sb'), cps(txt)))
                if big or rng.random() < 0.4:
                    add('sanitize', 'tsan %s s %s' % (lang, cps(render(bad, form, rng))))
                add('detect_text', 'tdet %s %s %s' % (rng.choice(['static', lang, other]), rng.choice('sb'), cps(txt)))
            for fi, form in enumerate(BAD_FORMS):
                if not big and (fi + li + Li) % 2:
                    continue
                txt = render(good, form, rng)
                add('ent_malformed', 'tent %s %s s %s' % (lang, rng.choice('d0'), cps(txt)))
                add('seed_malformed', 'tseed %s %s s s %s %s' % (lang, rng.choice('d0'), cps(txt), cps('pw')))
                if big or rng.random() < 0.5:
                    add('sanitize', 'tsan %s s %s' % (lang, cps(txt)))
                    add('detect_text', 'tdet static s %s' % cps(txt))
            # a foreign word among ours; a whole foreign sentence on our object; ours on a foreign object
            for ws in (mixed, foreign):
                txt = render(ws, rng.choice(['plain', 'nfc', 'ideo']), rng)
                for fl in ('d0' if big else rng.choice('d0')):
                    add('ent_foreign', 'tent %s %s s %s' % (lang, fl, cps(txt)))
                    add('seed_foreign', 'tseed %s %s s s %s %s' % (lang, '0' if fl == 'd' and not big else fl, cps(txt), cps('x')))
                add('sanitize', 'tsan %s s %s' % (lang, cps(txt)))
                add('detect_text', 'tdet static s %s' % cps(txt))
            # the vote: k of our words replaced by words only the other list has
            for k in ((1, len(good) // 2, len(good) - 1) if big else (rng.choice([1, len(good) // 2, len(good) - 1]),)):
                ws = list(good)
                for p_ in rng.sample(range(len(ws)), k):
                    ws[p_] = next(w for w in rng.sample(wl(other), 50) if pos(lang, w) < 0)
                add('detect_text', 'tdet static s %s' % cps(' '.join(ws)))
            add('detect_text', 'tdet static s %s' % cps('zzzz qqqq'))
            add('detect_text', 'tdet static s -')
            add('sanitize', 'tsan %s s -' % lang)
            add('ent_malformed', 'tent %s 0 s -' % lang)
        # sentences of other lengths with and without the checksum switch
        for n in ((1, 2, 3, 6, 9, 11, 13, 25, 27) if big else (1, 3, 11, 13)):
            ws = [wl(lang)[rng.randrange(2048)] for _ in range(n)]
            add('ent_length', 'tent %s 0 s %s' % (lang, cps(' '.join(ws))))
            add('ent_length', 'tent %s d s %s' % (lang, cps(' '.join(ws))))
            ws[0] = wl(lang)[0]
            add('ent_length', 'tent %s 0 s %s' % (lang, cps(' '.join(ws))))
    # from_passphrase: every argument away from its default (the sentence must be English: known finding otherwise)
    nets = ['bitcoin', 'testnet', 'litecoin', 'dogecoin', 'regtest', 'signet', 'litecoin_testnet']
    for i in range(60 if big else 14):
        good = _valid_words(rng, 'english', rng.choice([16, 20, 24, 28, 32]))
        txt = render(good, rng.choice(GOOD_FORMS), rng)
        pw = rng.choice(PASSWORDS)
        if i % 7 == 0:
            add('hdkey_args', 'thd english %s %s d' % (cps(txt), cps(pw)))
        else:
            add('hdkey_args', 'thd english %s %s %s %s %s %s %s' % (
                cps(txt), cps(pw), rng.choice(nets), rng.choice(['bip32', 'bip32', 'single']), rng.choice('01'),
                rng.choice(['legacy', 'p2sh-segwit', 'segwit']), rng.choice('01')))
        if i % 5 == 0:
            add('hdkey_args', 'thd english %s %s bitcoin bip32 1 legacy 0' % (cps(render(_bad_checksum(rng, 'english', good), 'plain')), cps(pw)))
    for lang in ('spanish', 'japanese', 'chinese_simplified'):
        add('hdkey_args', 'thd %s %s - d' % (lang, cps(' '.join(_valid_words(rng, lang, 16)))))


def gen_shared_cases(rng, big, add):
    """valid sentences ALL of whose words are in two bundled lists: the result must depend on the object's list only"""
    for a, b in SHARED_PAIRS:
        third = next(l for l in LANGS if l not in (a, b) and l not in ('chinese_simplified', 'chinese_traditional'))
        for valid_in in (a, b):
            for nwords in ((12, 15, 18, 21, 24) if big else (12, 24)):
                for rep in range(3 if big else 1):
                    ws = shared_sentence(rng, a, b, valid_in, nwords)
                    if ws is None:
                        continue
                    txt = cps(render(ws, rng.choice(['plain', 'plain', 'nfc', 'ideo']), rng))
                    for obj in (a, b):
                        add('shared_ent', 'tent %s d s %s' % (obj, txt))
                        add('shared_ent', 'tent %s 0 s %s' % (obj, txt))
                        add('shared_seed', 'tseed %s %s s s %s %s' % (obj, rng.choice('d1'), txt, cps(rng.choice(PASSWORDS))))
                        add('shared_seed', 'tseed %s 0 s s %s %s' % (obj, txt, cps(rng.choice(PASSWORDS))))
                    add('shared_ent', 'tent %s d s %s' % (third, txt))
                    add('shared_san', 'tsan %s s %s' % (rng.choice([a, b, third]), txt))
                    add('shared_det', 'tdet static s %s' % txt)
                    if valid_in == 'english':
                        add('shared_hdkey', 'thd english %s %s d' % (txt, cps(rng.choice(PASSWORDS))))
                    other = b if valid_in == a else a
                    add('shared_seq', 'seq %s tent %s 0 s %s | tent %s d s %s | tent %s d s %s | tseed %s d s s %s - | tent %s 0 s %s'
                        % (rng.choice(['cached', 'fresh']), other, txt, valid_in, txt, other, txt, valid_in, txt, valid_in, txt))
                    # eleven shared words and one that only `valid_in` has: no tie any more
                    own = [w for w in wl(valid_in) if pos(other, w) < 0]
                    for _ in range(200):
                        ws2 = list(ws)
                        ws2[rng.randrange(len(ws2) - 1)] = rng.choice(own)
                        if bip39_entropy(idx_in(valid_in, ws2), strict=True) is not None:
                            break
                    for obj in (a, b):
                        add('shared_ent', 'tent %s d s %s' % (obj, cps(' '.join(ws2))))
                    add('shared_det', 'tdet static s %s' % cps(' '.join(ws2)))


def gen_session_cases(rng, big, add):
    """several calls in ONE process on one object: the answer to a call must not depend on the calls before it"""
    for li, lang in enumerate(LANGS):
        for rep in range(8 if big else 2):
            L = rng.choice([16, 20, 24, 28, 32])
            ent = safe_entropy(rng, L)
            good = [wl(lang)[i] for i in bip39_indices(ent)]
            bad = _bad_checksum(rng, lang, good)
            good2 = _valid_words(rng, lang, L)
            g, b_, g2 = cps(' '.join(good)), cps(' '.join(bad)), cps(' '.join(good2))
            gi, gn = cps(render(good, 'ideo')), cps(render(good, 'nfc'))
            pw1, pw2 = cps(rng.choice(PASSWORDS[1:])), cps(rng.choice(PASSWORDS[1:]))
            E = lambda fl, t_: 'tent %s %s s %s' % (lang, fl, t_)
            S = lambda fl, t_, pw: 'tseed %s %s s s %s %s' % (lang, fl, t_, pw)
            M = lambda a, c, e: 'tmn %s %s %s b %s' % (lang, a, c, hx(e))
            sessions = [
                [E('0', g), E('d', g), S('d', g, pw1)],                       # switch off, then the validating calls
                [E('0', b_), E('d', b_), S('d', b_, pw1), S('0', b_, pw1), S('1', b_, pw1)],
                [E('d', g), E('0', g), E('d', g), E('1', g)],
                [S('0', b_, pw1), S('d', b_, pw1), E('d', b_)],               # accepted without validation, then refused
                [S('d', g, pw1), S('d', g, pw2), S('d', g, '-'), S('d', g, pw1)],   # same sentence, other passwords
                [E('d', g), E('d', g2), E('d', g), E('d', b_), E('d', g)],    # other sentences in between
                [E('d', gi), E('d', g), E('d', gn), S('0', gi, pw1), S('d', gn, pw1)],   # spellings of one sentence
                [M('0', '0', ent), M('1', '0', ent), M('1', '1', ent), M('0', '1', ent), E('d', g)],
                [M('1', '0', ent), M('0', '0', ent), M('1', '0', ent)],
                ['tsan %s s %s' % (lang, b_), E('d', b_), 'tdet static s %s' % g, E('d', g)],
                ['tgen %s %d 0 %s' % (lang, 8 * L, hx(ent + b'\x55' * 8)), 'tgen %s %d d %s' % (lang, 8 * L, hx(ent + b'\x55' * 8)),
                 E('d', g)],
            ]
            if lang == 'english':
                sessions.append([E('0', b_), 'thd english %s %s d' % (b_, pw1), 'thd english %s %s d' % (g, pw1),
                                 E('0', g), 'thd english %s %s bitcoin bip32 1 legacy 0' % (g, pw1)])
            else:
                # the same (foreign) sentence on the English object and on ours
                sessions.append(['tent english d s %s' % g, E('d', g), 'tseed english 0 s s %s %s' % (g, pw1), S('d', g, pw1)])
            for j, ops in enumerate(sessions):
                if big or (j + rep + li) % 2 == 0 or j < 2:
                    add('session', 'seq %s %s' % ('fresh' if (j + rep) % 3 == 0 else 'cached', ' | '.join(ops)))


# ---------------------------------------------------------------- model side
_ORDER = []


def order_s():
    if not _ORDER:
        _ORDER.append(','.join(str(i) for i in dir_order()) or '-')
    return _ORDER[0]


def _gen_data(t):
    """tgen <lang> <strength> <add|d> <urandom hex>: the bytes generate() should convert, None when it must refuse"""
    strength, data = int(t[2]), unhx(t[4])
    if strength % 32 or strength <= 0 or strength // 8 > len(data):
        return None
    return data[:strength // 8]


def _lang_default(t):
    """Mnemonic() without an argument is the English object"""
    return [t[0], 'english'] + list(t[2:]) if len(t) > 1 and t[1] == 'default' else t


def model_one(t):
    t = _lang_default(t)
    k = t[0]
    if k in ('cb10_2', 'cb256_2', 'cb2_2048', 'cb2048_256', 'cb2_256', 'to_bytes'):
        return ' '.join(t)
    if k in ('mn', 'mncurve'):
        return 'mn ' + t[2]
    if k == 'mnhex':
        return 'mn ' + hx(t[2].encode('ascii'))
    if k == 'gen':
        return 'mn ' + hx(unhx(t[3])[:int(t[2]) // 8])
    if k == 'ent':
        return 'ent ' + t[3]
    if k == 'entw':
        return 'entw ' + szs(word_tokens(t[1], zs(t[2]), (int(t[3]), text(t[4]))))
    if k in ('seed', 'seedw'):
        lang = t[1]
        if k == 'seed':
            idx, pw = zs(t[3]), text(t[4])
            toks, sent = idx, plain_sentence(lang, idx)
        else:
            idx, sub, pw = zs(t[2]), (int(t[3]), text(t[4])), text(t[5])
            toks, sent = word_tokens(lang, idx, sub), plain_sentence(lang, idx, sub)
        return 'seed %s %s %s %s' % (szs(toks), hx(nfkd(sent).encode('utf8')), hx(pw.encode('utf8')),
                                     hx(nfkd(pw).encode('utf8')))
    # ---- the calls with explicit switches: Model/Bip39.v mreq
    if k == 'tmn':
        data = t[5].encode('ascii') if t[4] == 'h' else unhx(t[5])
        return 'xmn %s %s %s' % (t[2], t[3], hx(data))
    if k == 'tgen':
        data = _gen_data(t)
        return 'xmn %s 1 %s' % ('0' if t[3] == '0' else '1', hx(data) if data is not None else '-')
    if k == 'tent':
        return 'xent %s %d %s %s' % (order_s(), LANGS.index(t[1]), '0' if t[2] == '0' else '1', profs(text_words(text(t[4]))))
    if k in ('tseed', 'thd'):
        if k == 'tseed':
            self_, val, txt, pw = t[1], t[2], text(t[5]), text(t[6])
        else:
            self_, val, txt, pw = 'english', '1', text(t[2]), text(t[3])
        return 'xseed %s %d %s %s %s %s %s' % (order_s(), LANGS.index(self_), '0' if val == '0' else '1',
                                               profs(text_words(txt)), hx(nfkd(txt).encode('utf8')),
                                               hx(pw.encode('utf8')), hx(nfkd(pw).encode('utf8')))
    if k == 'tsan':
        return 'xsan %s %s' % (order_s(), profs(text_words(text(t[3]))))
    if k == 'tdet':
        return 'xdet %s %s' % (order_s(), profs(text_words(text(t[3]))))
    return 'to_bytes -'          # hdkey / detect / wlfacts: implementation-only kinds


def model_req(c):
    t = c.req.split(' ')
    if t[0] == 'seq':
        return 'seq ' + ' | '.join(model_one(q) for q in subrequests(c.req))
    return model_one(t)


def same_one(t, io, mo):
    t = _lang_default(t)
    k = t[0]
    if k in ('hdkey', 'detect', 'wlfacts', 'wlfiles'):
        return True
    if k == 'gen' and t[2] == '100':
        return io.startswith('ERR')
    if k == 'tgen':
        io = io.split(' asked=')[0]
    if k == 'thd':
        io = io.split(' ')[0] if not io.startswith('ERR') else io
    if io.startswith('ERR') or mo.startswith('ERR'):
        if k == 'mncurve' and io.startswith('ERR') and not mo.startswith('ERR'):
            v = int.from_bytes(unhx(t[2]), 'big')
            return not 0 < v < N_SECP
        return io.startswith('ERR') and mo.startswith('ERR')
    if k in ('seed', 'seedw', 'tseed', 'thd'):
        q = mo.split(' ')
        if q[0] != 'Q':
            return False
        seed = hashlib.pbkdf2_hmac('sha512', unhx(q[1]), unhx(q[2]), 2048)
        return (master_of_seed(seed) if k == 'thd' else seed).hex() == io
    if k == 'tsan':
        return io.startswith('S ') and mo == 'OK'
    if k == 'tdet':
        return mo.startswith('L') and LANGS[int(mo[1:])] == io
    return io == mo


def same(c, io, mo):
    t = c.req.split(' ')
    if t[0] != 'seq':
        return same_one(t, io, mo)
    subs, ios, mos = subrequests(c.req), io.split(' | '), mo.split(' | ')
    if not len(subs) == len(ios) == len(mos):
        return False
    return all(same_one(q, a, b) for q, a, b in zip(subs, ios, mos))


def is_trivial(c, out):
    return out.startswith('ERR') or out == 'BADREQ'


# ---------------------------------------------------------------- property-level verdict on the implementation
def _entropy_of_req(t):
    if t[0] == 'mnhex':
        return bytes.fromhex(t[2])
    if t[0] == 'gen':
        return unhx(t[3])[:int(t[2]) // 8]
    return unhx(t[2])


def _mnemonic_verdict(e, add_checksum, check_on_curve, out, what):
    """to_mnemonic / generate on entropy bytes e"""
    refused_ok = check_on_curve and not 0 < int.from_bytes(e, 'big') < N_SECP     # documented refusal behind the switch
    if add_checksum:
        exp = bip39_indices(e)
        if exp is None:
            return None if out.startswith('ERR') else '%s: entropy of %d bytes accepted: %s' % (what, len(e), out[:60])
        if out.startswith('ERR'):
            return None if refused_ok else '%s refused a %d-byte entropy: %s' % (what, len(e), out)
        return None if out == szs(exp) else '%s: sentence is not the BIP39 sentence: got %s, BIP39 %s' % (what, out[:90], szs(exp)[:90])
    # without checksum (not BIP39): the words are the base-2048 digits of the number
    if len(e) == 0:
        return None if out.startswith('ERR') else '%s: empty entropy accepted' % what
    if out.startswith('ERR'):
        return None if refused_ok else '%s (no checksum) refused a %d-byte entropy: %s' % (what, len(e), out)
    if out.startswith('RAW'):
        return '%s (no checksum): words outside the list: %s' % (what, out[:60])
    idx = zs(out.split(' ')[0])
    v = 0
    for i in idx:
        v = v * 2048 + i
    ok = len(idx) >= 1 and all(0 <= i < 2048 for i in idx) and v == int.from_bytes(e, 'big') and ' !form' not in out
    return None if ok else '%s (no checksum): the words do not spell the entropy number: %s' % (what, out[:80])


def _entropy_verdict(idx, out):
    """to_entropy with the checksum on a sentence given as list positions (-1 = not in the list)"""
    strict = bip39_entropy(idx, strict=True)
    general = bip39_entropy(idx, strict=False)
    if strict is not None:
        return None if out == hx(strict) else 'valid sentence: to_entropy gives %s, BIP39 entropy %s' % (out[:70], hx(strict))
    if general is not None:
        # 3/6/9/27/30... words with a matching checksum: outside BIP39's sizes, accepted by the library (observation)
        return None if (out == hx(general) or out.startswith('ERR')) else 'wrong entropy %s for a generalised sentence' % out[:70]
    return None if out.startswith('ERR') else 'sentence with bad checksum / unknown word / bad length accepted: %s' % out[:70]


def check_text(t, out):
    """the calls with explicit switches on literal text; oracle: frozen lists + BIP39 text + unicodedata NFKD"""
    k = t[0]
    if k == 'tmn':
        e = bytes.fromhex(t[5]) if t[4] == 'h' else unhx(t[5])
        return _mnemonic_verdict(e, t[2] == '1', t[3] == '1', out, 'to_mnemonic')
    if k == 'tgen':
        e = _gen_data(t)
        if e is None:
            return None if out.startswith('ERR') else 'generate accepted strength %s' % t[2]
        if not out.startswith('ERR') and out.split(' asked=')[1] != str(len(e)):
            return 'generate(%s) asked os.urandom for %s bytes' % (t[2], out.split(' asked=')[1])
        return _mnemonic_verdict(e, t[3] != '0', True, out.split(' asked=')[0], 'generate(%s)' % t[2])
    if k == 'tent':
        idx = idx_in(t[1], text_words(text(t[4])))
        if t[2] != '0':
            return _entropy_verdict(idx, out)
        if any(i < 0 for i in idx):
            return None if out.startswith('ERR') else 'to_entropy(includes_checksum=False) accepted a word outside the list: %s' % out[:60]
        if out.startswith('ERR'):
            return 'to_entropy(includes_checksum=False) refused a sentence of list words: ' + out
        v = 0
        for i in idx:
            v = v * 2048 + i
        b = unhx(out)
        ok = int.from_bytes(b, 'big') == v and len(b) >= len(idx) * 4 // 3
        return None if ok else 'to_entropy(includes_checksum=False): %s does not spell the number of the words' % out[:70]
    if k == 'tseed':
        txt, pw = text(t[5]), text(t[6])
        words = text_words(txt)
        idx = idx_in(t[1], words)
        seed = bip39_seed(txt, pw).hex()
        if t[2] != '0':
            if bip39_entropy(idx, strict=True) is not None:
                return None if out == seed else 'to_seed is not the BIP39 seed: %s.. vs %s..' % (out[:32], seed[:32])
            if bip39_entropy(idx, strict=False) is not None:
                return None if out in (seed,) or out.startswith('ERR') else 'wrong seed for a generalised sentence'
            return None if out.startswith('ERR') else 'seed produced for an invalid sentence'
        # validate=False: no checksum test, but still only words of one list, and still the BIP39 seed of the text
        if out.startswith('ERR'):
            return 'to_seed(validate=False) refused a sentence of list words: ' + out if all(i >= 0 for i in idx) else None
        if not in_one_list(words):
            return 'to_seed(validate=False) accepted words outside every list'
        return None if out == seed else 'to_seed(validate=False) is not the BIP39 seed of the sentence: %s.. vs %s..' % (out[:32], seed[:32])
    if k == 'tsan':
        txt = text(t[3])
        if not in_one_list(text_words(txt)):
            return None if out.startswith('ERR') else 'sanitize_mnemonic accepted words that no single list contains'
        return None if out == 'S ' + cps(nfkd(txt)) else 'sanitize_mnemonic does not return the NFKD sentence: ' + out[:80]
    if k == 'tdet':
        words = text_words(text(t[3]))
        cnt = {l: sum(1 for w in words if pos(l, w) >= 0) for l in LANGS}
        if max(cnt.values()) == 0:
            return None if out.startswith('ERR') else 'detect_language answered %s for words of no list' % out
        return None if cnt.get(out, -1) == max(cnt.values()) else 'detect_language says %s, most words are in %s' % (
            out[:40], [l for l in LANGS if cnt[l] == max(cnt.values())])
    if k == 'thd':
        txt, pw = text(t[2]), text(t[3])
        words = text_words(txt)
        if bip39_entropy(idx_in(t[1], words), strict=True) is None:
            if out.startswith('ERR') or bip39_entropy(idx_in('english', words), strict=True) is not None:
                return None
            return 'HDKey.from_passphrase accepted an invalid sentence'
        seed = bip39_seed(txt, pw)
        i = master_of_seed(seed)
        q = out.split(' ')
        if q[0] != i.hex():
            return 'HDKey.from_passphrase: %s, BIP39+BIP32 master %s' % (out[:40], i.hex()[:40])
        want = ['bitcoin', 'bip32', '1', 'segwit', '0'] if t[4] == 'd' else [t[4], t[5], t[6], t[7], t[8]]
        if q[1:6] != want:
            return 'HDKey.from_passphrase arguments not passed on: asked %s, key has %s' % (want, q[1:6])
        if want == ['bitcoin', 'bip32', '1', 'legacy', '0'] and q[6] != xprv_of_seed(seed):
            return 'HDKey.from_passphrase: master xprv %s, BIP32 %s' % (q[6][:30], xprv_of_seed(seed)[:30])
        return None
    return None


def prop_check(c, out):
    if not c.req.startswith('seq '):
        return check_one(c.req.split(' '), out)
    subs, outs = subrequests(c.req), out.split(' | ')
    if len(subs) != len(outs):
        return 'unexpected answer %r' % out[:120]
    for i, (q, o) in enumerate(zip(subs, outs)):
        v = check_one(q, o)
        if v is not None:
            return 'call %d of the session (%s ...): %s' % (i + 1, ' '.join(q[:3]), v)
    return None


FROZEN_FILES = ','.join(LANGS)


def check_one(t, out):
    t = _lang_default(t)
    k = t[0]
    if out.startswith('CRASH') or out == 'BADREQ' or out.startswith('NOTBYTES'):
        return 'unexpected answer %r' % out[:120]
    if k == 'wlfiles':
        return None if out == FROZEN_FILES else 'bundled word-list files are %s, BIP39 set frozen here: %s' % (out, FROZEN_FILES)
    if k == 'wlfacts':
        return None if out == '2048 2048 1 1 1' else ('word list %s differs from the frozen BIP39 list: (length, distinct, NFKD, '
                                                       'equal-to-frozen, clean) = %s' % (t[1], out))
    if k in ('tmn', 'tgen', 'tent', 'tseed', 'tsan', 'tdet', 'thd'):
        return check_text(t, out)
    # change_base keeps the value (the exact digit count is the model's business)
    if k in ('cb10_2', 'cb256_2'):
        if out.startswith('ERR'):
            return None
        v = int(t[1]) if k == 'cb10_2' else int.from_bytes(unhx(t[1]), 'big')
        return None if int(out.replace('-', '0'), 2) == v else 'change_base changed the value: %s' % out[:80]
    if k in ('cb2_2048', 'cb2_256', 'cb2048_256', 'to_bytes'):
        return None
    if k in ('mn', 'mnhex', 'mncurve', 'gen'):
        e = _entropy_of_req(t)
        exp = bip39_indices(e)
        if k == 'gen' and int(t[2]) % 32:
            return None if out.startswith('ERR') else 'generate accepted strength %s' % t[2]
        if exp is None:
            return None if out.startswith('ERR') else 'entropy of %d bytes accepted: %s' % (len(e), out[:60])
        if out.startswith('ERR'):
            if k in ('mncurve', 'gen') and not 0 < int.from_bytes(e, 'big') < N_SECP:
                return None     # documented refusal behind check_on_curve
            return 'to_mnemonic refused a %d-byte entropy: %s' % (len(e), out)
        return None if out == szs(exp) else 'sentence is not the BIP39 sentence: got %s, BIP39 %s' % (out[:90], szs(exp)[:90])
    if k in ('ent', 'entw'):
        lang = t[1]
        if k == 'ent':
            idx = zs(t[3])
        else:
            idx = word_tokens(lang, zs(t[2]), (int(t[3]), text(t[4])))
        strict = bip39_entropy(idx, strict=True)
        general = bip39_entropy(idx, strict=False)
        if strict is not None:
            return None if out == hx(strict) else 'valid sentence: to_entropy gives %s, BIP39 entropy %s' % (out[:70], hx(strict))
        if general is not None:
            # 3/6/9/27/30... words with a matching checksum: outside BIP39's sizes, accepted by the library (observation)
            return None if (out == hx(general) or out.startswith('ERR')) else 'wrong entropy %s for a generalised sentence' % out[:70]
        return None if out.startswith('ERR') else 'sentence with bad checksum / unknown word / bad length accepted: %s' % out[:70]
    if k in ('seed', 'seedw', 'hdkey'):
        lang = t[1]
        if k == 'seed':
            idx, pw, toks = zs(t[3]), text(t[4]), zs(t[3])
            sent = plain_sentence(lang, idx)
        elif k == 'hdkey':
            idx, pw, toks = zs(t[2]), text(t[3]), zs(t[2])
            sent = plain_sentence(lang, idx)
        else:
            idx, sub, pw = zs(t[2]), (int(t[3]), text(t[4])), text(t[5])
            toks, sent = word_tokens(lang, idx, sub), plain_sentence(lang, idx, sub)
        if bip39_entropy(toks, strict=True) is None:
            return None if out.startswith('ERR') else 'seed produced for an invalid sentence'
        seed = bip39_seed(sent, pw)
        if k == 'hdkey':
            i = hmac.new(b'Bitcoin seed', seed, hashlib.sha512).digest()
            return None if out == i.hex() else 'HDKey.from_passphrase: %s, BIP39+BIP32 master %s' % (out[:40], i.hex()[:40])
        return None if out == seed.hex() else 'to_seed is not the BIP39 seed: %s.. vs %s..' % (out[:32], seed.hex()[:32])
    if k == 'detect':
        idx = zs(t[2])
        if out.startswith('ERR'):
            return 'detect_language failed: ' + out
        ok = out in LANGS and all(wl(t[1])[i] in wl(out) for i in idx)
        return None if ok else 'detect_language says %s for a %s sentence' % (out, t[1])
    return None


def _hexlike_case(c):
    t = _lang_default(c.req.split(' '))
    if t[0] == 'tmn' and t[4] == 'b':
        return py_fromhex(unhx(t[5])) is not None
    if t[0] == 'tent' and t[2] != '0':
        e = bip39_entropy(idx_in(t[1], text_words(text(t[4]))), strict=False)
        return e is not None and py_fromhex(e) is not None
    if t[0] in ('mn', 'mnhex', 'mncurve', 'gen'):
        e = _entropy_of_req(t)
        return py_fromhex(e) is not None
    if t[0] == 'ent':
        e = bip39_entropy(zs(t[3]), strict=False)
        return e is not None and py_fromhex(e) is not None
    return False


def _non_english_hdkey(c):
    t = c.req.split(' ')
    if t[0] == 'thd' and t[1] != 'english':
        return any(pos('english', w) < 0 for w in text_words(text(t[2])))
    if t[0] != 'hdkey' or t[1] == 'english':
        return False
    return any(wl(t[1])[i] not in wl('english') for i in zs(t[2]))


KNOWN_CLASSES = {
    'hexlike_entropy': lambda c, io, mo: _hexlike_case(c),
    'from_passphrase_non_english': lambda c, io, mo: _non_english_hdkey(c) and io.startswith('ERR'),
}


def reproduce_known(entry, rundir):
    from core import run_impl
    rc, out, err = run_impl(IMPL, [entry['witness']['request']], rundir)
    return len(out) == 1 and out[0] == entry['witness']['impl_answer']
