"""C14 — Mnemonic sentences follow BIP39 in every language and round-trip."""
import glob, hashlib, hmac, os, unicodedata
from core import Case, REPO

PROP = 'C14'
COQ_FILES = ['Extract/C14.v', 'Properties/C14.v']
DRIVER = 'c14'
IMPL = 'harness/impl/c14_impl.py'
ALLOWED_AXIOMS = []
ASSUMPTIONS = [
    'theorems are about coq/Model/Bip39.v + Model/ChangeBase.v: spec_* is BIP39 as written in the BIP, lib_* mirrors '
    'mnemonic.py / encoding.change_base / encoding.to_bytes; every theorem holds for an arbitrary hash H (lib theorems: '
    'any H with 32-byte output); the executable instance uses the Gallina SHA-256 of Crypto/Sha256.v (validated '
    'against hashlib by every mn/ent case here)',
    'tie to /repo: differential correspondence of every lib_* function against the public API on each run; sentences '
    'are index lists, mapped through the repository word-list files by the adapter',
    'PBKDF2-HMAC-SHA512, Unicode NFKD and UTF-8 encoding are oracles (Section variables): the model returns the two '
    'PBKDF2 arguments, the harness evaluates hashlib.pbkdf2_hmac on them and compares with Mnemonic.to_seed',
    'floating point inside change_base (math.log quotients) is modelled by exact integer quotients; validated by the '
    'change_base correspondence streams over every leading-zero count',
    'word lists: translator/gen_wordlists.py regenerates coq/Gen/GenWordlists.v from bitcoinlib/wordlist/*.txt on every run '
    '(a word = the integer of its UTF-8 bytes); length 2048 and distinctness of all nine lists are proved inside Coq '
    '(bundled_wordlists_ok, vm_compute); NFKD-normal form, absence of inner white space and that Mnemonic(lang) serves '
    'exactly the file are checked in Python on every run (wlfacts)',
    'not modelled: detect_language\'s vote across the nine files (exercised by the detect/ent/seed streams only), '
    'os.urandom in generate (stubbed), add_checksum=False / includes_checksum=False paths (not BIP39)',
]
RULE = ('entropy stream exhaustive over leading-zero patterns (each length 16/20/24/28/32: every k = 0..8*len leading '
        'zero bits then a 1 and random bits; all-zero; all-ones) + seeded random, nine languages; sentences in plain / '
        'NFC / ideographic-space form; single-word substitutions; words outside the list; wrong sentence lengths; '
        'to_seed over ASCII / NFC / NFD / compatibility / astral passphrases; Trezor vectors; change_base on each of '
        'its five uses over every leading-zero count; non-trivial = implementation returned a value; distinct by request')

LANGS = ['chinese_simplified', 'chinese_traditional', 'dutch', 'english', 'french', 'italian', 'japanese',
         'portuguese', 'spanish']
N_SECP = 0xFFFFFFFFFFFFFFFFFFFFFFFFFFFFFFFEBAAEDCE6AF48A03BBFD25E8CD0364141
_WL = {}


def wl(lang):
    if lang not in _WL:
        p = os.path.join(REPO, 'bitcoinlib', 'wordlist', lang + '.txt')
        with open(p, encoding='utf8') as f:
            _WL[lang] = [w.strip() for w in f.read().split('\n') if w.strip()]
    return _WL[lang]


# ---------------------------------------------------------------- independent BIP39 (from the BIP text)
def bits_of(b):
    return ''.join(format(x, '08b') for x in b)


def bip39_indices(ent):
    """ENT bits + first ENT/32 bits of SHA-256, in groups of 11.  Defined for any length that is a multiple of 4."""
    if len(ent) == 0 or len(ent) % 4:
        return None
    bits = bits_of(ent) + bits_of(hashlib.sha256(ent).digest())[:len(ent) * 8 // 32]
    return [int(bits[i:i + 11], 2) for i in range(0, len(bits), 11)]


def bip39_entropy(idx, strict=True):
    n = len(idx)
    if n == 0 or n % 3 or (strict and n not in (12, 15, 18, 21, 24)) or any(not 0 <= i < 2048 for i in idx):
        return None
    bits = ''.join(format(i, '011b') for i in idx)
    cs = n // 3
    el = 11 * n - cs
    ent = bytes(int(bits[i:i + 8], 2) for i in range(0, el, 8))
    return ent if bits_of(hashlib.sha256(ent).digest())[:cs] == bits[el:] else None


def nfkd(s):
    return unicodedata.normalize('NFKD', s)


def bip39_seed(sentence, pw):
    return hashlib.pbkdf2_hmac('sha512', nfkd(sentence).encode('utf8'), b'mnemonic' + nfkd(pw).encode('utf8'), 2048)


def py_fromhex(b):
    """does bytes.fromhex accept these bytes read as text (the encoding.to_bytes ambiguity)"""
    if not b:
        return None
    try:
        return bytes.fromhex(b.decode())
    except ValueError:
        return None


# ---------------------------------------------------------------- request helpers
def hx(b):
    return b.hex() if b else '-'


def unhx(s):
    return b'' if s == '-' else bytes.fromhex(s)


def szs(l):
    return ','.join(str(x) for x in l) if len(l) else '-'


def zs(t):
    return [] if t == '-' else [int(x) for x in t.split(',')]


def cps(s):
    return ','.join('%x' % ord(c) for c in s) if s else '-'


def text(t):
    return '' if t == '-' else ''.join(chr(int(x, 16)) for x in t.split(','))


def plain_sentence(lang, idx, sub=None):
    ws = [wl(lang)[i] for i in idx]
    if sub is not None:
        ws[sub[0]] = sub[1]
    return ' '.join(ws)


def word_tokens(lang, idx, sub):
    """the word sequence as the model sees it: list positions, -1 for a word outside the list"""
    out = list(idx)
    w = nfkd(sub[1])
    out[sub[0]] = wl(lang).index(w) if (w in wl(lang) and ' ' not in w) else -1
    return out


# ---------------------------------------------------------------- generators
PASSWORDS = [
    '', 'TREZOR', 'password with spaces', 'café Å',            # ASCII; NFC-composed
    'café Å',                                               # NFD-decomposed
    'Åﬁ№①½',                                   # compatibility characters
    '\U0001d518\U0001d52b\U0001d526 \U0001f600',                        # astral: fraktur letters (NFKD -> ASCII), emoji
    'パスワード', '한글', '　x　',   # kana with dakuten, hangul, ideographic space
    'ǆẛ̣', '  ',
]

TREZOR = [  # (entropy, sentence, seed with passphrase TREZOR) — checked against the independent oracle when generated
    ('00000000000000000000000000000000',
     'abandon abandon abandon abandon abandon abandon abandon abandon abandon abandon abandon about',
     'c55257c360c07c72029aebc1b53c05ed0362ada38ead3e3e9efa3708e53495531f09a6987599d18264c1e1c92f2cf141630c7a3c4ab7c81b2f001698e7463b04'),
    ('7f7f7f7f7f7f7f7f7f7f7f7f7f7f7f7f',
     'legal winner thank year wave sausage worth useful legal winner thank yellow', None),
    ('80808080808080808080808080808080',
     'letter advice cage absurd amount doctor acoustic avoid letter advice cage above', None),
    ('ffffffffffffffffffffffffffffffff', 'zoo zoo zoo zoo zoo zoo zoo zoo zoo zoo zoo wrong', None),
    ('0000000000000000000000000000000000000000000000000000000000000000',
     'abandon abandon abandon abandon abandon abandon abandon abandon abandon abandon abandon abandon abandon abandon '
     'abandon abandon abandon abandon abandon abandon abandon abandon abandon art', None),
    ('ffffffffffffffffffffffffffffffffffffffffffffffffffffffffffffffff',
     'zoo zoo zoo zoo zoo zoo zoo zoo zoo zoo zoo zoo zoo zoo zoo zoo zoo zoo zoo zoo zoo zoo zoo vote', None),
    ('808080808080808080808080808080808080808080808080',
     'letter advice cage absurd amount doctor acoustic avoid letter advice cage absurd amount doctor acoustic avoid '
     'letter always', None),
]


def lz_entropies(rng, L):
    """every number of leading zero bits, then a 1 and random bits; all-zero; all-ones"""
    out = [bytes(L), b'\xff' * L]
    for k in range(8 * L):
        rest = 8 * L - k - 1
        out.append(((1 << rest) | (rng.getrandbits(rest) if rest else 0)).to_bytes(L, 'big'))
    return out


def safe_entropy(rng, L):
    while True:
        e = bytes(rng.randrange(256) for _ in range(L))
        if py_fromhex(e) is None:
            return e


def gen_cases(rng, tier):
    big = tier == 'thorough'
    cs = []
    add = lambda kind, req: cs.append(Case(kind, req))

    # --- word-list facts and the protocol vectors first
    for lang in LANGS:
        add('wlfacts', 'wlfacts ' + lang)
    for e, s, seed in TREZOR:
        idx = bip39_indices(bytes.fromhex(e))
        assert plain_sentence('english', idx) == s, 'corpus vector disagrees with the independent oracle'
        if seed:
            assert bip39_seed(s, 'TREZOR').hex() == seed
        add('mn_vector', 'mn english ' + e)
        add('mn_vector', 'mnhex english ' + e)
        add('ent_vector', 'ent english plain ' + szs(idx))
        add('seed_vector', 'seed english plain %s %s' % (szs(idx), cps('TREZOR')))
        add('hdkey', 'hdkey english %s %s' % (szs(idx), cps('TREZOR')))

    # --- change_base on its five uses: every leading-zero count
    for L in (1, 2, 4, 16, 17, 20, 32, 33):
        for k in list(range(8 * L + 1)):
            rest = 8 * L - k - 1
            v = 0 if rest < 0 else (1 << rest) | (rng.getrandbits(rest) if rest else 0)
            b = v.to_bytes(L, 'big')
            if big or L <= 4 or k % 3 == 0 or k < 20 or rest < 20:
                add('cb256_2', 'cb256_2 %s %d' % (hx(b), rng.choice([0, 4 * L, 8 * L, 256])))
                add('cb10_2', 'cb10_2 %d %d' % (v, 8 * L))
    add('cb10_2', 'cb10_2 5 0')
    add('cb10_2', 'cb10_2 0 0')
    for nbits in (11, 22, 33, 130, 132, 165, 198, 231, 264, 131, 8, 16, 128, 124, 125, 121, 256, 255):
        for k in range(nbits + 1):
            rest = nbits - k - 1
            v = 0 if rest < 0 else (1 << rest) | (rng.getrandbits(rest) if rest else 0)
            s = format(v, '0%db' % nbits)
            if big or nbits <= 33 or k % 3 == 0 or k < 24 or rest < 24:
                add('cb2_2048', 'cb2_2048 ' + s)
                add('cb2_256', 'cb2_256 %s %d' % (s, rng.choice([0, 16, 20, 32, nbits // 8])))
    add('cb2_2048', 'cb2_2048 -')
    add('cb2_256', 'cb2_256 - 4')
    for n in (1, 2, 3, 12, 13, 15, 18, 21, 24, 25):
        for k in range(0, 11 * n + 1):
            rest = 11 * n - k - 1
            v = 0 if rest < 0 else (1 << rest) | (rng.getrandbits(rest) if rest else 0)
            idx = [(v >> (11 * (n - 1 - i))) & 2047 for i in range(n)]
            if big or n <= 3 or k % 4 == 0 or k < 24 or rest < 24:
                add('cb2048_256', 'cb2048_256 %s %d' % (szs(idx), rng.choice([0, 4 * n // 3, 4 * n // 3, 40])))
    for _ in range(2000 if big else 200):
        b = bytes(rng.choice([0, 0, 1, 0x30, 0x20, rng.randrange(256)]) for _ in range(rng.randrange(1, 34)))
        add('cb256_2', 'cb256_2 %s %d' % (hx(b), rng.choice([0, 64, 256])))
    # to_bytes: hex-looking byte strings, white space, odd counts
    tb = [b'', b' ', b'0', b'00', b'0 0', b'00 11', b' 00\t11\n', b'0g', b'\xc3\xa9', b'ABCDEF', b'abcdef01', b'a b',
          b'\x0b\x0c12', b'12\x00', b'12\x85', b'1234 ', b'  ', b'12 3']
    for _ in range(3000 if big else 300):
        tb.append(bytes(rng.choice(b'0123456789abcdefABCDEF \t\ngG\x00\xff') for _ in range(rng.randrange(1, 34))))
    for b in tb:
        add('to_bytes', 'to_bytes ' + hx(b))

    # --- entropy -> sentence -> entropy, exhaustive leading-zero stream, all languages
    ents_by_L = {L: lz_entropies(rng, L) for L in (16, 20, 24, 28, 32)}
    for li, lang in enumerate(LANGS):
        for L in (16, 20, 24, 28, 32):
            ents = ents_by_L[L]
            for j, e in enumerate(ents):
                full = big or lang == 'english'
                if full or j < 2 or (j + li) % 6 == 0:
                    add('mn_lz', 'mn %s %s' % (lang, hx(e)))
                if full or j < 2 or (j + li) % 8 == 0:
                    idx = bip39_indices(e)
                    add('ent_lz', 'ent %s plain %s' % (lang, szs(idx)))
            for _ in range(2000 if big and lang == 'english' else (300 if big else 25)):
                e = safe_entropy(rng, L)
                add('mn_random', 'mn %s %s' % (lang, hx(e)))
                if rng.random() < 0.5:
                    add('ent_random', 'ent %s %s %s' % (lang, rng.choice(['plain', 'nfc', 'ideo']), szs(bip39_indices(e))))
                if rng.random() < 0.1:
                    add('mn_random', 'mnhex %s %s' % (lang, e.hex()))
        # other sizes: multiples of 4 outside 16..32 (generalised), non-multiples (refused), empty
        for L in (0, 1, 3, 4, 8, 12, 15, 17, 31, 33, 36, 40, 64):
            e = safe_entropy(rng, L) if L else b''
            add('mn_size', 'mn %s %s' % (lang, hx(e)))
            g = bip39_indices(e)
            if g:
                add('ent_size', 'ent %s plain %s' % (lang, szs(g)))
        # default switch check_on_curve=True: refuses 0 and 32-byte values >= n, nothing else
        for e in (bytes(16), bytes(32), N_SECP.to_bytes(32, 'big'), (N_SECP - 1).to_bytes(32, 'big'), b'\xff' * 32,
                  b'\xff' * 16, safe_entropy(rng, 32), safe_entropy(rng, 20)):
            add('mn_curve', 'mncurve %s %s' % (lang, hx(e)))
        for strength in (128, 160, 192, 224, 256):
            add('generate', 'gen %s %d %s' % (lang, strength, hx(b'\x01' + safe_entropy(rng, strength // 8 - 1))))
        add('generate', 'gen %s 100 %s' % (lang, hx(safe_entropy(rng, 16))))

    # --- the known ambiguity: entropy bytes that read as hex text
    for e in (b'0123456789abcdef', b'0123456789abcdef0123456789abcdef', b'AAAAaaaa00001111', b'  0123456789abcdef  ',
              b'1234 5678 9abc d0'):
        add('mn_hexlike', 'mn english ' + hx(e))
        add('mn_hexlike', 'mnhex english ' + e.hex())
        g = bip39_indices(e)
        if g:
            add('ent_hexlike', 'ent english plain ' + szs(g))

    # --- malformed: substitutions, foreign words, wrong lengths
    for li, lang in enumerate(LANGS):
        words = wl(lang)
        for L in ((16, 32) if not big else (16, 20, 24, 28, 32)):
            e = safe_entropy(rng, L)
            idx = bip39_indices(e)
            n = len(idx)
            if big and ((lang == 'english' and L in (16, 32)) or L == 16):
                positions = range(n) if lang == 'english' else rng.sample(range(n), 2)
                subs = [(p, w) for p in positions for w in range(2048) if w != idx[p]]
            else:
                subs = [(rng.randrange(n), rng.randrange(2048)) for _ in range(600 if big else 80)]
            for p, w in subs:
                if w == idx[p]:
                    continue
                j = list(idx)
                j[p] = w
                add('ent_subst', 'ent %s plain %s' % (lang, szs(j)))
            # words outside the list
            other = wl(LANGS[(li + 1) % len(LANGS)])
            outs = ['', 'zzzzzz', words[5].upper(), words[7] + 'x', words[9][:-1] + '́', 'abandon' if lang != 'english' else 'ábaco',
                    other[3], other[1000], other[2047], words[3] + ' ' + words[4], words[3] + '\n', '　', '0', 'a b']
            for w in outs:
                p = rng.randrange(n)
                add('ent_unknown', 'entw %s %s %d %s' % (lang, szs(idx), p, cps(w)))
            add('seed_unknown', 'seedw %s %s %d %s %s' % (lang, szs(idx), rng.randrange(n), cps('zzzzzz'), cps('pw')))
        for n in list(range(1, 31)) if lang == 'english' or big else (1, 2, 3, 6, 9, 11, 13, 14, 23, 25, 27):
            idx = [rng.randrange(2048) for _ in range(n)]
            add('ent_length', 'ent %s plain %s' % (lang, szs(idx)))
            if n % 3 == 0:      # a sentence of that length with a matching generalised checksum
                add('ent_length', 'ent %s plain %s' % (lang, szs(bip39_indices(safe_entropy(rng, 4 * n // 3)))))
            # drop / append a word of a valid sentence
        v = bip39_indices(safe_entropy(rng, 16))
        add('ent_length', 'ent %s plain %s' % (lang, szs(v[:-1])))
        add('ent_length', 'ent %s plain %s' % (lang, szs(v + [v[0]])))

    # --- seeds
    for li, lang in enumerate(LANGS):
        for L in (16, 32) if not big else (16, 20, 24, 28, 32):
            idx = bip39_indices(safe_entropy(rng, L))
            pws = list(PASSWORDS)
            for _ in range(20 if big else 3):
                pws.append(''.join(chr(rng.choice([rng.randrange(0x20, 0x7f), rng.randrange(0xa0, 0x24f),
                                                   rng.randrange(0x300, 0x36f), rng.randrange(0x3040, 0x30ff),
                                                   rng.randrange(0xac00, 0xd7a3), rng.randrange(0xfb00, 0xfb06),
                                                   rng.randrange(0xff01, 0xff5e), rng.randrange(0x1d400, 0x1d7ff),
                                                   rng.randrange(0x1f600, 0x1f64f)]))
                                   for _ in range(rng.randrange(1, 12))))
            for pw in pws:
                form = rng.choice(['plain', 'plain', 'nfc', 'ideo'])
                add('seed', 'seed %s %s %s %s' % (lang, form, szs(idx), cps(pw)))
            bad = list(idx)
            bad[rng.randrange(len(bad))] ^= 1 + rng.randrange(2047)
            add('seed_badsum', 'seed %s plain %s %s' % (lang, szs(bad), cps('x')))
            add('hdkey', 'hdkey %s %s %s' % (lang, szs(idx), cps(rng.choice(PASSWORDS))))
            add('detect', 'detect %s %s' % (lang, szs(idx)))
        for _ in range(30 if big else 6):
            add('detect', 'detect %s %s' % (lang, szs(bip39_indices(safe_entropy(rng, rng.choice([16, 20, 24, 28, 32]))))))
    return cs


# ---------------------------------------------------------------- model side
def model_req(c):
    t = c.req.split(' ')
    k = t[0]
    if k in ('cb10_2', 'cb256_2', 'cb2_2048', 'cb2048_256', 'cb2_256', 'to_bytes'):
        return c.req
    if k in ('mn', 'mncurve'):
        return 'mn ' + t[2]
    if k == 'mnhex':
        return 'mn ' + hx(t[2].encode('ascii'))
    if k == 'gen':
        return 'mn ' + hx(unhx(t[3])[:int(t[2]) // 8])
    if k == 'ent':
        return 'ent ' + t[3]
    if k == 'entw':
        return 'entw ' + szs(word_tokens(t[1], zs(t[2]), (int(t[3]), text(t[4]))))
    if k in ('seed', 'seedw'):
        lang = t[1]
        if k == 'seed':
            idx, pw = zs(t[3]), text(t[4])
            toks, sent = idx, plain_sentence(lang, idx)
        else:
            idx, sub, pw = zs(t[2]), (int(t[3]), text(t[4])), text(t[5])
            toks, sent = word_tokens(lang, idx, sub), plain_sentence(lang, idx, sub)
        return 'seed %s %s %s %s' % (szs(toks), hx(nfkd(sent).encode('utf8')), hx(pw.encode('utf8')),
                                     hx(nfkd(pw).encode('utf8')))
    return 'to_bytes -'          # hdkey / detect / wlfacts: implementation-only kinds


def same(c, io, mo):
    k = c.req.split(' ')[0]
    if k in ('hdkey', 'detect', 'wlfacts'):
        return True
    if k == 'gen' and c.req.split(' ')[2] == '100':
        return io.startswith('ERR')
    if io.startswith('ERR') or mo.startswith('ERR'):
        if k == 'mncurve' and io.startswith('ERR') and not mo.startswith('ERR'):
            v = int.from_bytes(unhx(c.req.split(' ')[2]), 'big')
            return not 0 < v < N_SECP
        return io.startswith('ERR') and mo.startswith('ERR')
    if k in ('seed', 'seedw'):
        q = mo.split(' ')
        if q[0] != 'Q':
            return False
        return hashlib.pbkdf2_hmac('sha512', unhx(q[1]), unhx(q[2]), 2048).hex() == io
    return io == mo


def is_trivial(c, out):
    return out.startswith('ERR') or out == 'BADREQ'


# ---------------------------------------------------------------- property-level verdict on the implementation
def _entropy_of_req(t):
    if t[0] == 'mnhex':
        return bytes.fromhex(t[2])
    if t[0] == 'gen':
        return unhx(t[3])[:int(t[2]) // 8]
    return unhx(t[2])


def prop_check(c, out):
    t = c.req.split(' ')
    k = t[0]
    if out.startswith('CRASH') or out == 'BADREQ' or out.startswith('NOTBYTES'):
        return 'unexpected answer %r' % out[:120]
    if k == 'wlfacts':
        return None if out == '2048 2048 1 1 1' else 'word list %s: (length, distinct, NFKD, served-as-file, clean) = %s' % (t[1], out)
    # change_base keeps the value (the exact digit count is the model's business)
    if k in ('cb10_2', 'cb256_2'):
        if out.startswith('ERR'):
            return None
        v = int(t[1]) if k == 'cb10_2' else int.from_bytes(unhx(t[1]), 'big')
        return None if int(out.replace('-', '0'), 2) == v else 'change_base changed the value: %s' % out[:80]
    if k in ('cb2_2048', 'cb2_256', 'cb2048_256', 'to_bytes'):
        return None
    if k in ('mn', 'mnhex', 'mncurve', 'gen'):
        e = _entropy_of_req(t)
        exp = bip39_indices(e)
        if k == 'gen' and int(t[2]) % 32:
            return None if out.startswith('ERR') else 'generate accepted strength %s' % t[2]
        if exp is None:
            return None if out.startswith('ERR') else 'entropy of %d bytes accepted: %s' % (len(e), out[:60])
        if out.startswith('ERR'):
            if k in ('mncurve', 'gen') and not 0 < int.from_bytes(e, 'big') < N_SECP:
                return None     # documented refusal behind check_on_curve
            return 'to_mnemonic refused a %d-byte entropy: %s' % (len(e), out)
        return None if out == szs(exp) else 'sentence is not the BIP39 sentence: got %s, BIP39 %s' % (out[:90], szs(exp)[:90])
    if k in ('ent', 'entw'):
        lang = t[1]
        if k == 'ent':
            idx = zs(t[3])
        else:
            idx = word_tokens(lang, zs(t[2]), (int(t[3]), text(t[4])))
        strict = bip39_entropy(idx, strict=True)
        general = bip39_entropy(idx, strict=False)
        if strict is not None:
            return None if out == hx(strict) else 'valid sentence: to_entropy gives %s, BIP39 entropy %s' % (out[:70], hx(strict))
        if general is not None:
            # 3/6/9/27/30... words with a matching checksum: outside BIP39's sizes, accepted by the library (observation)
            return None if (out == hx(general) or out.startswith('ERR')) else 'wrong entropy %s for a generalised sentence' % out[:70]
        return None if out.startswith('ERR') else 'sentence with bad checksum / unknown word / bad length accepted: %s' % out[:70]
    if k in ('seed', 'seedw', 'hdkey'):
        lang = t[1]
        if k == 'seed':
            idx, pw, toks = zs(t[3]), text(t[4]), zs(t[3])
            sent = plain_sentence(lang, idx)
        elif k == 'hdkey':
            idx, pw, toks = zs(t[2]), text(t[3]), zs(t[2])
            sent = plain_sentence(lang, idx)
        else:
            idx, sub, pw = zs(t[2]), (int(t[3]), text(t[4])), text(t[5])
            toks, sent = word_tokens(lang, idx, sub), plain_sentence(lang, idx, sub)
        if bip39_entropy(toks, strict=True) is None:
            return None if out.startswith('ERR') else 'seed produced for an invalid sentence'
        seed = bip39_seed(sent, pw)
        if k == 'hdkey':
            i = hmac.new(b'Bitcoin seed', seed, hashlib.sha512).digest()
            return None if out == i.hex() else 'HDKey.from_passphrase: %s, BIP39+BIP32 master %s' % (out[:40], i.hex()[:40])
        return None if out == seed.hex() else 'to_seed is not the BIP39 seed: %s.. vs %s..' % (out[:32], seed.hex()[:32])
    if k == 'detect':
        idx = zs(t[2])
        if out.startswith('ERR'):
            return 'detect_language failed: ' + out
        ok = out in LANGS and all(wl(t[1])[i] in wl(out) for i in idx)
        return None if ok else 'detect_language says %s for a %s sentence' % (out, t[1])
    return None


def _hexlike_case(c):
    t = c.req.split(' ')
    if t[0] in ('mn', 'mnhex', 'mncurve', 'gen'):
        e = _entropy_of_req(t)
        return py_fromhex(e) is not None
    if t[0] == 'ent':
        e = bip39_entropy(zs(t[3]), strict=False)
        return e is not None and py_fromhex(e) is not None
    return False


def _non_english_hdkey(c):
    t = c.req.split(' ')
    if t[0] != 'hdkey' or t[1] == 'english':
        return False
    return any(wl(t[1])[i] not in wl('english') for i in zs(t[2]))


KNOWN_CLASSES = {
    'hexlike_entropy': lambda c, io, mo: _hexlike_case(c),
    'from_passphrase_non_english': lambda c, io, mo: _non_english_hdkey(c) and io.startswith('ERR'),
}


def reproduce_known(entry, rundir):
    from core import run_impl
    rc, out, err = run_impl(IMPL, [entry['witness']['request']], rundir)
    return len(out) == 1 and out[0] == entry['witness']['impl_answer']
