"""C20 — the service layer fails over between providers and never fabricates answers."""
import itertools
from core import Case

PROP = 'C20'
COQ_FILES = ['Extract/C20.v', 'Properties/C20.v']
DRIVER = 'c20'
IMPL = 'harness/impl/c20_impl.py'
ALLOWED_AXIOMS = []
EXHAUSTIVE = False     # exhaustive over the stated finite domain only in the thorough tier (see RULE)
ASSUMPTIONS = [
    'theorems are about coq/Model/Service.v + coq/Model/CacheModel.v (lib_* mirrors services.py: provider order, '
    '_provider_execute, __init__/blockcount, getbalance, getutxos, gettransaction, getrawtransaction, isspent, '
    'estimatefee, sendrawtransaction/getrawblock/mempool/getinfo, getcacheaddressinfo)',
    'tie to /repo: translator/gen_service.py (constants and structural facts of services.py, regenerated every run; '
    'Proofs/ServiceGlue.v) and the differential correspondence of lib_step against the real Service/Cache with fake '
    'provider clients attached from outside (own providers.json in the run data directory, sqlite cache file)',
    'partial: real HTTP/timeouts are a Raise outcome; sqlite/SQLAlchemy and the wall clock are runtime (clock patched '
    'in the adapter; expiry is modelled with an explicit clock); provider names are distinct (keys of providers.json)',
    'modelled but not verified: gettransactions, getblock, getinputvalues, Cache.getutxos/gettransactions (address '
    'index over transaction nodes), per-output spent flags, multi-address getbalance, cache_blocks; confirmations of a '
    'cached transaction are recomputed by the library and are not part of the compared content',
]
RULE = ('all outcome assignments {ok, exception, AttributeError, False, malformed, skip}^k x min_providers{1,2} x '
        'max_providers{1,2} x max_errors{1,2,4} for every modelled query method (quick: k<=2 all 12 settings and all '
        'priority orders, k=3 every other setting, one seeded priority order; thorough: k<=4 all settings, all orders up to '
        'k=3), each followed by a cache read-back step; cache cold/warm/partial/expired/disabled histories; '
        'constructor stream; a case is non-trivial when its first query step returns a value; distinct by request')

H0 = 800000
KINDS = ['ok', 'exc', 'attr', 'false', 'mal', 'skip']
SETTINGS = [(mi, ma, me) for mi in (1, 2) for ma in (1, 2) for me in (1, 2, 4)]
PASS_METHODS = ['sendrawtransaction', 'getrawblock', 'mempool', 'getinfo']
FEE = {'bitcoin': (1000, 1000000, None), 'testnet': (1000, 2000000, 10000)}


# ---------------------------------------------------------------- case construction
def ok_value(method, pid, arg, variant=0):
    if method == 'getbalance':
        return 'i%d' % (1000 + pid)
    if method == 'getutxos':
        return ['L2v%d' % (500 + 10 * pid), 'L0v0', 'L20v%d' % (100 * (pid + 1)), 'L1v%d' % (7 + pid)][variant % 4]
    if method == 'gettransaction':
        return 't%d%s' % (arg, 'cu'[variant % 2])
    if method == 'getrawtransaction':
        return 'r%d' % arg
    if method == 'isspent':
        return ['i1', 'B1', 'i0'][variant % 3]
    if method == 'estimatefee':
        return ['i%d' % (5000 + pid), 'i%d' % (5 + pid), 'i%d' % (5000000 + pid), 'i0'][variant % 4]
    if method in ('blockcount', 'init'):
        return 'i%d' % (H0 + 5 + pid)
    return 'd%d' % (70 + pid)


def mal_value(method, pid, arg, variant=0):
    if method == 'gettransaction' and variant % 3 == 2:
        return 't%dc' % ((arg + 1) % 5)         # a well-formed transaction, but not the one asked for
    return ['N', 's%d' % (pid + 1)][variant % 2]


def prov_token(pid, prio, tb, kind, method, arg, variant, skipflavour):
    """kind in KINDS + 'nomodule', 'ctor' -> provider token and (for the oracle) the description"""
    static, q = 'n', '-'
    if kind == 'ok':
        q = 'o' + ok_value(method, pid, arg, variant)
    elif kind == 'exc':
        q = 'e%d' % (pid + 1)
    elif kind == 'attr':
        q = 'a'
    elif kind == 'false':
        q = 'f'
    elif kind == 'mal':
        q = 'o' + mal_value(method, pid, arg, variant)
    elif kind == 'skip':
        if skipflavour == 0:
            q = 'n'
        else:
            static = 'uk'[skipflavour - 1]
            q = 'o' + ok_value(method, pid, arg, variant)
    elif kind == 'nomodule':
        static = 'm'
        q = 'o' + ok_value(method, pid, arg, variant)
    elif kind == 'ctor':
        static = 'x'
        q = 'o' + ok_value(method, pid, arg, variant)
    isbc = method in ('blockcount', 'init')
    bc = q if isbc else 'oi%d' % H0
    if isbc:
        q = '-'
    return '%d:%d:%d:%s:%s:%s' % (pid, prio, tb, static, bc, q)


def step(method, arg, setting, dt, provs):
    return '%s/%s/%d/%d/%d/%d/%s' % (method, arg, setting[0], setting[1], setting[2], dt, '+'.join(provs) or '-')


def single(kind, method, arg, variant=0, pid=0):
    return [prov_token(pid, 5, 1, kind, method, arg, variant, 0)]


def followups(method, arg, variant):
    """read-back steps after the main query: what did the call leave in the cache?"""
    s = (1, 1, 4)
    if method in ('getbalance', 'getutxos'):
        return [step('cacheinfo', arg, s, 0, single('skip', 'cacheinfo', arg))]
    if method == 'gettransaction':
        m2 = ['gettransaction', 'getrawtransaction'][variant % 2]
        return [step(m2, arg, s, 0, single('exc', m2, arg, pid=3))]
    if method == 'getrawtransaction':
        return [step('gettransaction', arg, s, 0, single('exc', 'gettransaction', arg, pid=3))]
    if method == 'estimatefee':
        return [step('estimatefee', arg, s, 0, ['3:5:1:n:oi%d:oi4242' % H0])]
    if method == 'blockcount':
        return [step('blockcount', 0, s, 0, ['3:5:1:n:oi%d:-' % (H0 + 99)])]
    return []


def main_case(net, mode, method, arg, kinds, prios, tbs, setting, variant, dt=0, pre=(), kindtag='exh'):
    provs = [prov_token(i, prios[i], tbs[i], kinds[i], method, arg, variant + i, (variant + i) % 3)
             for i in range(len(kinds))]
    steps = list(pre) + [step(method, arg, setting, dt, provs)] + followups(method, arg, variant)
    req = '%s %s %s' % (net, mode, ' '.join(steps))
    return Case('%s:%s' % (kindtag, method), req, meta=None)


def gen_cases(rng, tier):
    big = tier == 'thorough'
    cs = []
    kmax = 4 if big else 3

    def perms_for(k, full):
        base = [10 * (i + 1) for i in range(k)]
        if full:
            return [list(p) for p in itertools.permutations(base)]
        p = base[:]
        rng.shuffle(p)
        return [p]

    # A. _provider_execute through the pass-through wrappers: exhaustive assignments x settings x priority orders
    n = 0
    for k in range(1, kmax + 1):
        for kinds in itertools.product(KINDS, repeat=k):
            for setting in SETTINGS:
                for prios in perms_for(k, full=(k <= 2 or (big and k == 3))):
                    n += 1
                    tbs = [rng.randrange(1, 15) for _ in range(k)]
                    m = PASS_METHODS[n % 4]
                    cs.append(main_case('bitcoin', 'file', m, n % 5, kinds, prios, tbs, setting, n))
    # equal priorities: order decided by the (patched) random tie-break
    for k in (2, 3):
        for kinds in itertools.product(KINDS, repeat=k):
            setting = SETTINGS[rng.randrange(len(SETTINGS))]
            tbs = rng.sample(range(1, 15), k)
            prios = [10] * k if rng.random() < 0.6 else [10, 10, 20][:k]
            cs.append(main_case('bitcoin', 'file', 'sendrawtransaction', 0, kinds, prios, tbs, setting, rng.randrange(8),
                                kindtag='tie'))
    # B. every modelled wrapper: exhaustive assignments x settings, one priority order each, + cache read-back
    wr = [('getbalance', [0, 1, 2]), ('getutxos', [0, 1]), ('gettransaction', [0, 1, 2, 3, 4]),
          ('getrawtransaction', [0, 1, 2, 3, 4]), ('isspent', [0, 1]), ('estimatefee', [1, 2, 5, 6, 25]),
          ('blockcount', [0]), ('init', [0])]
    for method, args in wr:
        for k in range(1, kmax + 1):
            for kinds in itertools.product(KINDS, repeat=k):
                for setting in SETTINGS:
                    if k == kmax and not big and (setting[0] + setting[1] + setting[2] + n) % 2:
                        n += 1
                        continue          # quick tier: every other setting for the longest lists (thorough: all)
                    n += 1
                    prios = perms_for(k, False)[0]
                    tbs = [rng.randrange(1, 15) for _ in range(k)]
                    net = 'testnet' if (method == 'estimatefee' and n % 2) else 'bitcoin'
                    dt = 100 if method == 'blockcount' else 0
                    cs.append(main_case(net, 'file', method, args[n % len(args)], kinds, prios, tbs, setting, n, dt=dt))
    # C. cache histories: warm / partial / expired / disabled
    s1 = (1, 1, 4)
    for method, args in wr[:7]:
        for kinds in itertools.product(KINDS, repeat=2):
            for setting in ((1, 1, 1), (1, 1, 4), (2, 2, 2)):
                n += 1
                arg = args[n % len(args)]
                tbs = [3, 9]
                # warm: the same query answered before by a healthy provider; partial: a different key was
                if method == 'blockcount':
                    pre_w = []
                elif method == 'isspent':
                    pre_w = [step('gettransaction', arg, s1, 0, single('ok', 'gettransaction', arg, 0, pid=2))]
                else:
                    pre_w = [step(method, arg, s1, 0, single('ok', method, arg, n, pid=2))]
                other = args[(n + 1) % len(args)]
                pre_p = [step(method, other, s1, 0, single('ok', method, other, n, pid=2))] if len(args) > 1 else []
                for pre, tag in ((pre_w, 'warm'), (pre_p, 'partial')):
                    for dt in ((0, 700) if method in ('estimatefee', 'blockcount') else (0,)):
                        cs.append(main_case('testnet' if method == 'estimatefee' and n % 2 else 'bitcoin', 'file', method, arg,
                                            kinds, [20, 10], tbs, setting, n, dt=dt, pre=pre, kindtag=tag))
                cs.append(main_case('bitcoin', 'off', method, arg, kinds, [10, 20], tbs, setting, n, kindtag='cache_off'))
    # expiry boundaries of the cached variables
    for dt in (0, 1, 59, 60, 61, 599, 600, 601, 2000):
        for blocks in (1, 2, 5, 6, 25):
            pre = [step('estimatefee', blocks, s1, 0, single('ok', 'estimatefee', blocks, 0, pid=2))]
            cs.append(main_case('testnet', 'file', 'estimatefee', blocks, ['ok'], [10], [1], s1, 4, dt=dt, pre=pre,
                                kindtag='expiry'))
            cs.append(main_case('testnet', 'file', 'estimatefee', [1, 2, 5, 6, 25][(blocks + dt) % 5], ['ok'], [10], [1],
                                s1, 4, dt=dt, pre=pre, kindtag='expiry'))
        cs.append(main_case('bitcoin', 'file', 'blockcount', 0, ['ok', 'exc'], [20, 10], [1, 2], s1, 0, dt=dt, kindtag='expiry'))
        cs.append(main_case('bitcoin', 'file', 'blockcount', 0, ['exc', 'ok'], [20, 10], [1, 2], (1, 1, 1), 0, dt=dt,
                            kindtag='expiry'))
    # address cache seeded directly (Cache.store_address): last_block above / at / below the chain tip
    for lb in ('N', '0', str(H0 - 1), str(H0), str(H0 + 1)):
        for bal in ('N', '0', '777'):
            for kinds in itertools.product(KINDS, repeat=1 if not big else 2):
                for setting in ((1, 1, 1), (1, 1, 4), (2, 2, 1)):
                    n += 1
                    pre = [step('seedaddr', '0.%s.%s' % (lb, bal), s1, 0, [])]
                    k = len(kinds)
                    cs.append(main_case('bitcoin', 'file', 'getbalance', 0, kinds, [10, 20][:k], [1, 2][:k], setting, n, pre=pre,
                                        kindtag='seeded'))
    # D. providers whose module is missing / whose client constructor raises
    for _ in range(3000 if big else 400):
        k = rng.randrange(1, kmax + 1)
        kinds = [rng.choice(KINDS + ['nomodule', 'ctor', 'nomodule', 'ctor']) for _ in range(k)]
        method, args = wr[rng.randrange(len(wr))]
        setting = SETTINGS[rng.randrange(len(SETTINGS))]
        prios = perms_for(k, False)[0]
        tbs = [rng.randrange(1, 15) for _ in range(k)]
        n += 1
        cs.append(main_case('bitcoin', rng.choice(['file', 'file', 'off']), method, args[n % len(args)], kinds, prios, tbs, setting, n,
                            dt=100 if method == 'blockcount' else 0, kindtag='static'))
    # E. random longer histories on one cache
    for _ in range(3000 if big else 300):
        steps = []
        for _ in range(rng.randrange(2, 6)):
            method, args = wr[rng.randrange(7)]
            k = rng.randrange(1, 4)
            kinds = [rng.choice(KINDS + ['ok', 'ok']) for _ in range(k)]
            prios = perms_for(k, False)[0]
            n += 1
            arg = args[n % len(args)]
            provs = [prov_token(i, prios[i], rng.randrange(1, 15), kinds[i], method, arg, n + i, (n + i) % 3) for i in range(k)]
            steps.append(step(method, arg, SETTINGS[rng.randrange(len(SETTINGS))], rng.choice([0, 0, 5, 61, 700]), provs))
        cs.append(Case('history', 'bitcoin file ' + ' '.join(steps)))
    return cs


# ---------------------------------------------------------------- comparing the two sides
def strip_extras(out):
    steps = []
    for s in out.split(' ; '):
        steps.append(' '.join(t for t in s.split(' ') if not (t.startswith('C=') or t.startswith('X='))))
    return ' ; '.join(steps)


def same(c, impl_out, model_out):
    return strip_extras(impl_out) == model_out


def is_trivial(c, out):
    if out.startswith('CRASH') or out == 'BADREQ':
        return True
    for s, o in zip(c.req.split()[2:], out.split(' ; ')):
        if s.startswith('seedaddr') or s.startswith('cacheinfo'):
            continue
        t = o.split(' ')[0]
        return t in ('SERVICEERR', 'OTHERERR', 'INITERR', 'INITOTHERERR', 'F')
    return True


# ---------------------------------------------------------------- the property, as an independent oracle
# Written from the statement: a query returns exactly what one responding provider returned, or the cached copy of
# such an answer; providers that raise / answer empty / are unusable are skipped; the query fails (with an error) only
# when no provider answers or the error limit is reached first; what is served from the cache equals what was stored.
def parse_step(s):
    method, arg, minp, maxp, maxe, dt, provs = s.split('/')
    ps = []
    if provs != '-':
        for t in provs.split('+'):
            a = t.split(':')
            ps.append(dict(id=int(a[0]), prio=int(a[1]), tb=int(a[2]), static=a[3], bc=a[4], q=a[5]))
    return dict(method=method, arg=arg, minp=int(minp) if minp != '-' else 0, maxp=int(maxp) if maxp != '-' else 0,
                maxe=int(maxe) if maxe != '-' else 0, dt=int(dt), provs=ps)


def behaviour(p, isbc):
    """('answer', token) | ('fail',) | ('skip',) for the queried method"""
    if p['static'] in ('u', 'k'):
        return ('skip',)
    if p['static'] in ('m', 'x'):
        return ('fail',)
    t = p['bc'] if isbc else p['q']
    if t[0] == 'o':
        return ('answer', t[1:])
    if t in ('n', '-'):
        return ('skip',)
    return ('fail',)


def tx_token(tok, txid):
    return '%s@%s' % (tok, txid)


def wellformed(method, tok, arg):
    if method == 'estimatefee':
        return tok[0] == 'i' and tok != 'i0'        # a fee of 0 is an empty answer
    if method in ('getbalance', 'blockcount', 'init'):
        return tok[0] == 'i'
    if method == 'getutxos':
        return tok[0] == 'L'
    if method == 'gettransaction':
        return tok[0] == 't' and tok[1:-1] == str(arg)
    if method == 'getrawtransaction':
        return tok[0] == 'r'
    if method == 'isspent':
        return tok[0] in 'iB'
    return tok[0] == 'd'


def shown(method, tok, arg):
    """how an answer token appears when it is returned unchanged"""
    if tok[0] == 't':
        return tok + '@' + tok[1:-1]
    if method == 'isspent' and tok in ('i1', 'B1'):
        return 'T'
    if tok == 'B1':
        return 'T'
    return tok


def check_steps(c, out):
    """-> list of (class, message) for every step whose observation contradicts the property"""
    toks = c.req.split()
    net = toks[0]
    steps = [parse_step(s) for s in toks[2:]]
    obs = out.split(' ; ')
    bad = []
    if len(obs) != len(steps):
        return [('malformed_output', 'got %d step answers for %d steps' % (len(obs), len(steps)))]
    stored = {}          # (kind, key) -> set of acceptable cached tokens
    relabelled = set()
    seeded_bal = {}
    for st, o in zip(steps, obs):
        m, arg = st['method'], st['arg']
        if o.startswith('CRASH') or o == 'BADREQ':
            bad.append(('adapter', o[:100]))
            continue
        if m == 'seedaddr':
            a, lb, bal = arg.split('.')
            # Cache.store_address(balance=None) on a new row: the column default 0 (the harness's own seeding)
            stored.setdefault(('bal', a), set()).add('i' + bal if bal != 'N' else 'i0')
            continue
        f = o.split(' ')
        ret = f[0]
        fld = {x[:2]: x[2:] for x in f[1:] if len(x) > 2 and x[1] == '='}
        R = dict(x.split(':', 1) for x in fld['R='].split(',')) if fld.get('R=', '-') != '-' else {}
        calls = fld['C='].split('|')[1] if '|' in fld.get('C=', '') else '-'
        if m == 'cacheinfo':
            if ret != 'A-':
                bal = ret[1:].split('.')[0]
                if bal != 'N' and bal not in stored.get(('bal', arg), set()):
                    bad.append(('cached_balance_not_an_answer',
                                'cache holds balance %s for address %s; no provider answered that' % (bal, arg)))
            continue
        isbc = m in ('blockcount', 'init')
        order = sorted(st['provs'], key=lambda p: (-p['prio'], -p['tb']))
        beh = [(p['id'], behaviour(p, isbc)) for p in order]
        answers = [(pid, b[1]) for pid, b in beh if b[0] == 'answer']
        # number of unusable/failing providers in front of the first answer
        nfail = 0
        for pid, b in beh:
            if b[0] == 'answer':
                break
            if b[0] == 'fail':
                nfail += 1
        error_justified = (not answers) or nfail >= st['maxe'] or \
            (answers and not wellformed(m, answers[0][1], arg))
        # anything a later provider said that is malformed may also surface as a digest error when max_providers > 1
        if max(st['minp'], st['maxp']) > 1 and any(not wellformed(m, a, arg) for _, a in answers):
            error_justified = True
        if ret in ('INITERR', 'INITOTHERERR'):
            # the constructor asks for the block count; it may fail only when nobody usable answers it
            bcbeh = [behaviour(p, True) for p in order]
            nf = 0
            for b in bcbeh:
                if b[0] == 'answer':
                    break
                if b[0] == 'fail':
                    nf += 1
            anyans = any(b[0] == 'answer' for b in bcbeh)
            if anyans and nf < min(st['maxe'], 4) and all(b[1][0] == 'i' for b in bcbeh if b[0] == 'answer'):
                bad.append(('constructor_fails_despite_answer', 'Service() raised although a provider answers blockcount'))
            continue
        key = {'getbalance': ('bal', arg), 'getutxos': ('utxos', arg), 'gettransaction': ('tx', arg),
               'getrawtransaction': ('tx', arg), 'isspent': ('tx', arg), 'estimatefee': ('fee', _feeclass(arg)), 'blockcount': ('bc', ''),
               'init': ('bc', '')}.get(m)
        acceptable = set(shown(m, a, arg) for _, a in answers)
        if m == 'isspent':
            acceptable = set('F' if a in ('i0', 'N') else 'T' for _, a in answers)      # documented: returns bool
        cached = set()
        if key is not None:
            cached = set(stored.get(key, set()))
            if m == 'isspent':
                cached = {'T', 'F'} if cached else set()       # the stored transaction's own spent flag
            if m == 'getrawtransaction':
                cached = set('r' + t[1:].split('c')[0].split('u')[0] for t in cached if t[0] == 't' and t.endswith('@' + str(arg)))
        if ret in ('SERVICEERR', 'OTHERERR'):
            if not error_justified and not cached:
                bad.append(('error_despite_answer', '%s raised %s although provider %s answers before the error limit'
                            % (m, ret, answers[0][0] if answers else '?')))
            elif not error_justified and cached and m == 'getbalance':
                pass
        elif ret == 'ok':
            pass
        else:
            # a normal return: must be an answer of this call or a stored one
            if ret in acceptable or ret in cached:
                pass
            elif ret == 'F':
                bad.append(('limit_returns_false' if m != 'isspent' else 'isspent_unspent_at_limit',
                            '%s returned False instead of raising (failing providers in front: %d, max_errors %d)'
                            % (m, nfail, st['maxe'])))
            elif m == 'getbalance' and ret == 'i0':
                bad.append(('getbalance_fabricates_zero', 'getbalance returned 0; no provider answered 0'))
                stored.setdefault(('bal', arg), set()).add('i0')      # the same defect also writes the 0 to the cache
            elif m == 'getbalance' and ret[0] == 'i' and cached and \
                    any(ret == 'i%d' % (int(cv[1:]) + int(a[1:])) for cv in cached for _, a in answers if a[0] == 'i' and cv[0] == 'i'):
                bad.append(('getbalance_adds_to_cached', 'getbalance returned cached balance plus a provider answer: %s' % ret))
            elif m == 'estimatefee':
                mn, mx, dflt = FEE[net]
                if dflt is not None and ret == 'i%d' % dflt:
                    bad.append(('estimatefee_default_substituted', 'estimatefee returned the network default %s, which no '
                                                                   'provider answered' % ret))
                elif ret in ('i%d' % mn, 'i%d' % mx):
                    bad.append(('estimatefee_clamped', 'estimatefee returned the network bound %s instead of the provider answer' % ret))
                else:
                    bad.append(('unclassified', 'estimatefee returned %s; answers %s cached %s' % (ret, sorted(acceptable), sorted(cached))))
            elif m == 'gettransaction' and ret[0] == 't' and '@' in ret and \
                    any(a[0] == 't' and ret.split('@')[0] == a for _, a in answers):
                bad.append(('wrong_txid_relabelled', 'gettransaction(%s) returned %s: another transaction filed under the '
                                                     'requested id' % (arg, ret)))
                # consequences of the same defect: .results shows the relabelled object, the cache serves it later
                relabelled.add(ret)
                stored.setdefault(key, set()).add(ret)
            elif ret == 'N' and any(a == 'N' for _, a in answers):
                pass
            else:
                bad.append(('unclassified', '%s returned %s; provider answers %s, cached %s'
                            % (m, ret, sorted(acceptable), sorted(cached))))
        # bookkeeping visible to the caller: .results holds only what the named providers said
        if calls != '-' or isbc:
            said = {}
            for p in st['provs']:
                for t in (p['bc'], p['q']):
                    if t[0] == 'o':
                        said.setdefault(str(p['id']), set()).add(shown('', t[1:], arg))
            for pid, v in R.items():
                if m == 'getbalance' and v == 'i0' and cached:
                    continue      # the fake client answers 0 when asked for the balance of no address (see adapter)
                if v in relabelled:
                    continue
                if v not in said.get(pid, set()):
                    bad.append(('results_not_provider_answer', '.results[%s] = %s is not what that provider returned' % (pid, v)))
            if len(R) > max(st['minp'], st['maxp']) and calls != '-':
                bad.append(('too_many_providers', '%d results with max_providers %d' % (len(R), max(st['minp'], st['maxp']))))
        # priority order of the calls made for this query
        if calls != '-':
            pr = {str(p['id']): p['prio'] for p in st['provs']}
            seq = [pr[x] for x in calls.split(',') if x in pr]
            if m != 'blockcount' and any(seq[i] < seq[i + 1] for i in range(len(seq) - 1)):
                bad.append(('priority_order', 'providers called in order %s with priorities %s' % (calls, seq)))
        # remember what this call may legitimately have put into the cache
        if key is not None and ret not in ('SERVICEERR', 'OTHERERR', 'F'):
            for _, a in answers:
                if m == 'getutxos' and a[0] == 'L':
                    n_, b_ = a[1:].split('v')
                    stored.setdefault(('bal', arg), set()).add('i%d' % sum(int(b_) + j for j in range(int(n_))))
                elif m == 'gettransaction' and a[0] == 't':
                    stored.setdefault(key, set()).add(shown(m, a, arg))
                elif m in ('getbalance', 'estimatefee', 'blockcount', 'init') and a[0] == 'i':
                    stored.setdefault(key, set()).add(a)
        if key is not None and m in ('init', 'blockcount') or True:
            # every constructor call may cache a block count answer
            for p in st['provs']:
                if p['bc'][0] == 'o' and p['static'] == 'n':
                    stored.setdefault(('bc', ''), set()).add(p['bc'][1:])
    return bad


def _feeclass(arg):
    b = int(arg)
    return 'high' if b <= 1 else 'medium' if b <= 5 else 'low'


def prop_check(c, out):
    bad = check_steps(c, out)
    if not bad:
        return None
    return '; '.join('[%s] %s' % b for b in bad[:4])


def _class_pred(cid):
    def pred(c, io, mo):
        tags = [b[0] for b in check_steps(c, io)]
        return bool(tags) and tags[0] == cid and all(t in KNOWN_CLASSES for t in tags)
    return pred


KNOWN_CLASSES = {}
for _cid in ('limit_returns_false', 'getbalance_fabricates_zero', 'isspent_unspent_at_limit',
             'estimatefee_default_substituted', 'estimatefee_clamped', 'wrong_txid_relabelled'):
    KNOWN_CLASSES[_cid] = _class_pred(_cid)


def reproduce_known(entry, rundir):
    from core import run_impl
    rc, out, err = run_impl(IMPL, [entry['witness']['request']], rundir)
    return len(out) == 1 and strip_extras(out[0]) == entry['witness']['impl_answer']
