"""C20 — the service layer fails over between providers and never fabricates answers."""
import itertools
from core import Case

PROP = 'C20'
COQ_FILES = ['Extract/C20.v', 'Properties/C20.v']
DRIVER = 'c20'
IMPL = 'harness/impl/c20_impl.py'
ALLOWED_AXIOMS = []
EXHAUSTIVE = False     # exhaustive over the stated finite domain only in the thorough tier (see RULE)
ASSUMPTIONS = [
    'theorems are about coq/Model/Service.v + coq/Model/CacheModel.v (lib_* mirrors services.py: provider order, '
    '_provider_execute, __init__/blockcount, getbalance, getutxos, gettransaction, getrawtransaction, isspent, '
    'estimatefee, sendrawtransaction/getrawblock/mempool/getinfo, getcacheaddressinfo; the address index: '
    'gettransactions(address, after_txid, limit), getutxos with a cache, gettransaction over cache_transactions + '
    'cache_transactions_node: Cache.gettransactions / getutxos / store_transaction(t, index) / store_utxo / '
    'store_address(txs_complete) with ORDER BY (block_height, index), after_txid, limit, last_block, n_txs / n_utxos / '
    'balance bookkeeping, results_cache_n and complete)',
    'tie to /repo: translator/gen_service.py (constants and structural facts of services.py, regenerated every run; '
    'Proofs/ServiceGlue.v) and the differential correspondence of lib_step against the real Service/Cache with fake '
    'provider clients attached from outside (own providers.json in the run data directory, sqlite cache file)',
    'the shared HTTP layer (BaseClient.request: status handling, JSON decoding, transport exceptions) is NOT in the model: '
    'it is exercised with the repository\'s own blockstream / mempool / blocksmurfer client classes over a scripted '
    'requests.get/post (status x body kind per provider) and judged by the independent oracle check_http only; '
    'partial: real HTTP/timeouts are a Raise outcome; sqlite/SQLAlchemy and the wall clock are runtime (clock patched '
    'in the adapter; expiry is modelled with an explicit clock); provider names are distinct (keys of providers.json)',
    'address-index transactions have one input and one observed output (optionally a foreign output in front); rows '
    'with equal (block_height, index) are read in insertion order (SQLite scan + stable sort), NULL index first; '
    'operators and ORDER BY columns of the cache read paths are re-read from services.py on every run '
    '(source_facts_cache_reads)',
    'getblock(height, parse_transactions, page, limit) with Cache.getblock / getblocktransactions / store_block: a block '
    'holds the chain transactions of its height, its header fields travel unchanged (compared by the adapter, not '
    'modelled); block ids are heights, not hashes',
    'not modelled: getinputvalues, multi-address getbalance, getblock by hash; confirmations of a cached transaction are '
    'recomputed by the library and are not part of the compared content',
]
RULE = ('all outcome assignments {ok, exception, AttributeError, False, malformed, skip}^k x min_providers{1,2} x '
        'max_providers{1,2} x max_errors{1,2,4} for every modelled query method (quick: k<=2 all 12 settings and all '
        'priority orders, k=3 every other setting, one seeded priority order; thorough: k<=4 all settings, all orders up to '
        'k=3), each followed by a cache read-back step; cache cold/warm/partial/expired/disabled histories; '
        'constructor stream; address index: random chain histories (2-7 transactions of two addresses, several per '
        'block, spends/change, unconfirmed tail, refused transactions) x warm cache from one answer then every after_txid '
        'position and limits below/at/above the count under every provider failure pattern; paged fills; growing chain '
        'with providers of different views; getutxos with a partly filled cache; single transactions filed first; cache '
        'off / min_providers 2; HTTP layer: two or three real client classes, first provider every status of {200,201,202,203,'
        '204,206,301,302,400,404,429,500,503,timeout,connection error} x body kinds {proper answer, empty, null, [], {}, '
        'placeholder object, truncated JSON, HTML} in front of a working provider for six queries, plus random 1-3 provider '
        'configurations; a case is non-trivial when its first query step returns a value; distinct by request')

H0 = 800000
KINDS = ['ok', 'exc', 'attr', 'false', 'mal', 'skip']
SETTINGS = [(mi, ma, me) for mi in (1, 2) for ma in (1, 2) for me in (1, 2, 4)]
PASS_METHODS = ['sendrawtransaction', 'getrawblock', 'mempool', 'getinfo']
FEE = {'bitcoin': (1000, 1000000, None), 'testnet': (1000, 2000000, 10000)}


# ---------------------------------------------------------------- case construction
def ok_value(method, pid, arg, variant=0):
    if method == 'getbalance':
        return 'i%d' % (1000 + pid)
    if method == 'getutxos':
        return ['L2v%d' % (500 + 10 * pid), 'L0v0', 'L20v%d' % (100 * (pid + 1)), 'L1v%d' % (7 + pid)][variant % 4]
    if method == 'gettransaction':
        return 't%d%s' % (arg, 'cu'[variant % 2])
    if method == 'getrawtransaction':
        return 'r%d' % arg
    if method == 'isspent':
        return ['i1', 'B1', 'i0'][variant % 3]
    if method == 'estimatefee':
        return ['i%d' % (5000 + pid), 'i%d' % (5 + pid), 'i%d' % (5000000 + pid), 'i0'][variant % 4]
    if method in ('blockcount', 'init'):
        return 'i%d' % (H0 + 5 + pid)
    return 'd%d' % (70 + pid)


def mal_value(method, pid, arg, variant=0):
    if method == 'gettransaction' and variant % 3 == 2:
        return 't%dc' % ((arg + 1) % 5)         # a well-formed transaction, but not the one asked for
    return ['N', 's%d' % (pid + 1)][variant % 2]


def prov_token(pid, prio, tb, kind, method, arg, variant, skipflavour):
    """kind in KINDS + 'nomodule', 'ctor' -> provider token and (for the oracle) the description"""
    static, q = 'n', '-'
    if kind == 'ok':
        q = 'o' + ok_value(method, pid, arg, variant)
    elif kind == 'exc':
        q = 'e%d' % (pid + 1)
    elif kind == 'attr':
        q = 'a'
    elif kind == 'false':
        q = 'f'
    elif kind == 'mal':
        q = 'o' + mal_value(method, pid, arg, variant)
    elif kind == 'skip':
        if skipflavour == 0:
            q = 'n'
        else:
            static = 'uk'[skipflavour - 1]
            q = 'o' + ok_value(method, pid, arg, variant)
    elif kind == 'nomodule':
        static = 'm'
        q = 'o' + ok_value(method, pid, arg, variant)
    elif kind == 'ctor':
        static = 'x'
        q = 'o' + ok_value(method, pid, arg, variant)
    isbc = method in ('blockcount', 'init')
    bc = q if isbc else 'oi%d' % H0
    if isbc:
        q = '-'
    return '%d:%d:%d:%s:%s:%s' % (pid, prio, tb, static, bc, q)


def step(method, arg, setting, dt, provs):
    return '%s/%s/%d/%d/%d/%d/%s' % (method, arg, setting[0], setting[1], setting[2], dt, '+'.join(provs) or '-')


def single(kind, method, arg, variant=0, pid=0):
    return [prov_token(pid, 5, 1, kind, method, arg, variant, 0)]


def followups(method, arg, variant):
    """read-back steps after the main query: what did the call leave in the cache?"""
    s = (1, 1, 4)
    if method in ('getbalance', 'getutxos'):
        return [step('cacheinfo', arg, s, 0, single('skip', 'cacheinfo', arg))]
    if method == 'gettransaction':
        m2 = ['gettransaction', 'getrawtransaction'][variant % 2]
        return [step(m2, arg, s, 0, single('exc', m2, arg, pid=3))]
    if method == 'getrawtransaction':
        return [step('gettransaction', arg, s, 0, single('exc', 'gettransaction', arg, pid=3))]
    if method == 'estimatefee':
        return [step('estimatefee', arg, s, 0, ['3:5:1:n:oi%d:oi4242' % H0])]
    if method == 'blockcount':
        return [step('blockcount', 0, s, 0, ['3:5:1:n:oi%d:-' % (H0 + 99)])]
    return []


def main_case(net, mode, method, arg, kinds, prios, tbs, setting, variant, dt=0, pre=(), kindtag='exh'):
    provs = [prov_token(i, prios[i], tbs[i], kinds[i], method, arg, variant + i, (variant + i) % 3)
             for i in range(len(kinds))]
    steps = list(pre) + [step(method, arg, setting, dt, provs)] + followups(method, arg, variant)
    req = '%s %s %s' % (net, mode, ' '.join(steps))
    return Case('%s:%s' % (kindtag, method), req, meta=None)


def gen_cases(rng, tier):
    big = tier == 'thorough'
    cs = []
    kmax = 4 if big else 3

    def perms_for(k, full):
        base = [10 * (i + 1) for i in range(k)]
        if full:
            return [list(p) for p in itertools.permutations(base)]
        p = base[:]
        rng.shuffle(p)
        return [p]

    # A. _provider_execute through the pass-through wrappers: exhaustive assignments x settings x priority orders
    n = 0
    for k in range(1, kmax + 1):
        for kinds in itertools.product(KINDS, repeat=k):
            for setting in SETTINGS:
                for prios in perms_for(k, full=(k <= 2 or (big and k == 3))):
                    n += 1
                    tbs = [rng.randrange(1, 15) for _ in range(k)]
                    m = PASS_METHODS[n % 4]
                    cs.append(main_case('bitcoin', 'file', m, n % 5, kinds, prios, tbs, setting, n))
    # equal priorities: order decided by the (patched) random tie-break
    for k in (2, 3):
        for kinds in itertools.product(KINDS, repeat=k):
            setting = SETTINGS[rng.randrange(len(SETTINGS))]
            tbs = rng.sample(range(1, 15), k)
            prios = [10] * k if rng.random() < 0.6 else [10, 10, 20][:k]
            cs.append(main_case('bitcoin', 'file', 'sendrawtransaction', 0, kinds, prios, tbs, setting, rng.randrange(8),
                                kindtag='tie'))
    # B. every modelled wrapper: exhaustive assignments x settings, one priority order each, + cache read-back
    wr = [('getbalance', [0, 1, 2]), ('getutxos', [0, 1]), ('gettransaction', [0, 1, 2, 3, 4]),
          ('getrawtransaction', [0, 1, 2, 3, 4]), ('isspent', [0, 1]), ('estimatefee', [1, 2, 5, 6, 25]),
          ('blockcount', [0]), ('init', [0])]
    for method, args in wr:
        for k in range(1, kmax + 1):
            for kinds in itertools.product(KINDS, repeat=k):
                for setting in SETTINGS:
                    if k == kmax and not big and (setting[0] + setting[1] + setting[2] + n) % 2:
                        n += 1
                        continue          # quick tier: every other setting for the longest lists (thorough: all)
                    n += 1
                    prios = perms_for(k, False)[0]
                    tbs = [rng.randrange(1, 15) for _ in range(k)]
                    net = 'testnet' if (method == 'estimatefee' and n % 2) else 'bitcoin'
                    dt = 100 if method == 'blockcount' else 0
                    cs.append(main_case(net, 'file', method, args[n % len(args)], kinds, prios, tbs, setting, n, dt=dt))
    # C. cache histories: warm / partial / expired / disabled
    s1 = (1, 1, 4)
    for method, args in wr[:7]:
        for kinds in itertools.product(KINDS, repeat=2):
            for setting in ((1, 1, 1), (1, 1, 4), (2, 2, 2)):
                n += 1
                arg = args[n % len(args)]
                tbs = [3, 9]
                # warm: the same query answered before by a healthy provider; partial: a different key was
                if method == 'blockcount':
                    pre_w = []
                elif method == 'isspent':
                    pre_w = [step('gettransaction', arg, s1, 0, single('ok', 'gettransaction', arg, 0, pid=2))]
                else:
                    pre_w = [step(method, arg, s1, 0, single('ok', method, arg, n, pid=2))]
                other = args[(n + 1) % len(args)]
                pre_p = [step(method, other, s1, 0, single('ok', method, other, n, pid=2))] if len(args) > 1 else []
                for pre, tag in ((pre_w, 'warm'), (pre_p, 'partial')):
                    for dt in ((0, 700) if method in ('estimatefee', 'blockcount') else (0,)):
                        cs.append(main_case('testnet' if method == 'estimatefee' and n % 2 else 'bitcoin', 'file', method, arg,
                                            kinds, [20, 10], tbs, setting, n, dt=dt, pre=pre, kindtag=tag))
                cs.append(main_case('bitcoin', 'off', method, arg, kinds, [10, 20], tbs, setting, n, kindtag='cache_off'))
    # expiry boundaries of the cached variables
    for dt in (0, 1, 59, 60, 61, 599, 600, 601, 2000):
        for blocks in (1, 2, 5, 6, 25):
            pre = [step('estimatefee', blocks, s1, 0, single('ok', 'estimatefee', blocks, 0, pid=2))]
            cs.append(main_case('testnet', 'file', 'estimatefee', blocks, ['ok'], [10], [1], s1, 4, dt=dt, pre=pre,
                                kindtag='expiry'))
            cs.append(main_case('testnet', 'file', 'estimatefee', [1, 2, 5, 6, 25][(blocks + dt) % 5], ['ok'], [10], [1],
                                s1, 4, dt=dt, pre=pre, kindtag='expiry'))
        cs.append(main_case('bitcoin', 'file', 'blockcount', 0, ['ok', 'exc'], [20, 10], [1, 2], s1, 0, dt=dt, kindtag='expiry'))
        cs.append(main_case('bitcoin', 'file', 'blockcount', 0, ['exc', 'ok'], [20, 10], [1, 2], (1, 1, 1), 0, dt=dt,
                            kindtag='expiry'))
    # address cache seeded directly (Cache.store_address): last_block above / at / below the chain tip
    for lb in ('N', '0', str(H0 - 1), str(H0), str(H0 + 1)):
        for bal in ('N', '0', '777'):
            for kinds in itertools.product(KINDS, repeat=1 if not big else 2):
                for setting in ((1, 1, 1), (1, 1, 4), (2, 2, 1)):
                    n += 1
                    pre = [step('seedaddr', '0.%s.%s' % (lb, bal), s1, 0, [])]
                    k = len(kinds)
                    cs.append(main_case('bitcoin', 'file', 'getbalance', 0, kinds, [10, 20][:k], [1, 2][:k], setting, n, pre=pre,
                                        kindtag='seeded'))
    # D. providers whose module is missing / whose client constructor raises
    for _ in range(3000 if big else 400):
        k = rng.randrange(1, kmax + 1)
        kinds = [rng.choice(KINDS + ['nomodule', 'ctor', 'nomodule', 'ctor']) for _ in range(k)]
        method, args = wr[rng.randrange(len(wr))]
        setting = SETTINGS[rng.randrange(len(SETTINGS))]
        prios = perms_for(k, False)[0]
        tbs = [rng.randrange(1, 15) for _ in range(k)]
        n += 1
        cs.append(main_case('bitcoin', rng.choice(['file', 'file', 'off']), method, args[n % len(args)], kinds, prios, tbs, setting, n,
                            dt=100 if method == 'blockcount' else 0, kindtag='static'))
    # E. random longer histories on one cache
    for _ in range(3000 if big else 300):
        steps = []
        for _ in range(rng.randrange(2, 6)):
            method, args = wr[rng.randrange(7)]
            k = rng.randrange(1, 4)
            kinds = [rng.choice(KINDS + ['ok', 'ok']) for _ in range(k)]
            prios = perms_for(k, False)[0]
            n += 1
            arg = args[n % len(args)]
            provs = [prov_token(i, prios[i], rng.randrange(1, 15), kinds[i], method, arg, n + i, (n + i) % 3) for i in range(k)]
            steps.append(step(method, arg, SETTINGS[rng.randrange(len(SETTINGS))], rng.choice([0, 0, 5, 61, 700]), provs))
        cs.append(Case('history', 'bitcoin file ' + ' '.join(steps)))
    cs += gen_xcases(rng, big)
    cs += gen_http(rng, big)
    return cs


# ---------------------------------------------------------------- the address index (cache read paths)
XS1 = (1, 1, 4)
XFAILS = ['e1', 'a', 'f', 'n']        # how a provider fails the address query
XINFO = ['3:5:1:n:oi%d:-' % H0]


def gen_world(rng, n=None, style=None):
    """chain history of the two observed addresses, oldest first: several transactions per block, spends, change,
    unconfirmed tail.  -> (spec string, list of dict)"""
    n = n if n is not None else rng.randrange(2, 8)
    style = style or rng.choice(['blocks', 'blocks', 'mixed', 'mixed', 'spread'])
    h = 700000 + rng.randrange(0, 5) * 10
    txs = []
    n_unconf = rng.choice([0, 0, 0, 1, 1, 2]) if n > 2 else 0
    for k in range(n):
        if k:
            h += {'blocks': rng.choice([0, 0, 0, 1, 10]), 'mixed': rng.choice([0, 0, 1, 3]), 'spread': rng.choice([1, 2, 10])}[style]
        unspent = [j for j, t in enumerate(txs) if t['dst'] in ('0', '1') and not any(u['src'] == str(j) for u in txs)
                   and (t['height'] or k >= n - n_unconf)]
        r = rng.random()
        if unspent and r < 0.35:
            j = rng.choice(unspent)
            src = str(j)
            dst = rng.choice(['B', 'B', txs[j]['dst'], '0', '1'])
            val = max(600, txs[j]['value'] - 500 - rng.randrange(0, 3) * 1000)
        else:
            src = 'F'
            dst = '0' if rng.random() < 0.8 else '1'
            val = 10000 * (k + 1) + rng.randrange(0, 9)
        t = dict(height=0 if k >= n - n_unconf else h, src=src, dst=dst, oidx=1 if rng.random() < 0.25 else 0, value=val,
                 flag=rng.choice('NNNNAAAAFFT'), storable='0' if rng.random() < 0.04 else '1')
        txs.append(t)
    return world_spec(txs), txs


def world_spec(txs):
    return 'W:' + ','.join('%d.%s.%s.%d.%d.%s.%s' % (t['height'], t['src'], t['dst'], t['oidx'], t['value'], t['flag'], t['storable'])
                           for t in txs)


def xprov(pid, prio, tb, q, bc=None, static='n'):
    return '%d:%d:%d:%s:%s:%s' % (pid, prio, tb, static, bc or ('oi%d' % H0), q)


def xstep(method, arg, provs, setting=XS1, dt=0):
    return '%s/%s/%d/%d/%d/%d/%s' % (method, arg, setting[0], setting[1], setting[2], dt, '+'.join(provs) or '-')


def xcase(kind, spec, steps, net='bitcoin', mode='xfile'):
    return Case('x:' + kind, '%s %s %s %s' % (net, mode, spec, ' '.join(steps)))


def fail_provs(rng, k=None, bc_ok=True):
    """k providers that all fail the address query (the answer has to come from the cache or be an error)"""
    k = k or rng.randrange(1, 4)
    prios = rng.sample([10, 20, 30], k)
    return [xprov(i, prios[i], rng.randrange(1, 15), rng.choice(XFAILS), bc=None if bc_ok else rng.choice(['e7', 'f', 'a']))
            for i in range(k)]


def mine_of(txs, a, m=None):
    m = len(txs) if m is None else m
    return [k for k in range(m) if txs[k]['dst'] == a or (txs[k]['src'] != 'F' and txs[int(txs[k]['src'])]['dst'] == a)]


def gen_xcases(rng, big):
    cs = []
    reps = 6 if big else 1
    # X1. warm cache from ONE complete answer, then every after_txid position and limits around the count, with
    #     providers that fail in every way: the answer must be the stored slice
    for _ in range(60 * reps):
        spec, txs = gen_world(rng)
        n = len(txs)
        a = '0'
        mine = mine_of(txs, a)
        steps = [xstep('gettransactions', '%s.-.20' % a, [xprov(0, 10, 1, 'v%d' % n)])]
        afters = ['-'] + [str(k) for k in range(n)] + ['x']
        cnt = len([k for k in mine if txs[k]['height']])
        limits = sorted(set([1, 2, max(1, cnt - 1), max(1, cnt), cnt + 1, 20]))
        reads = [(af, 20) for af in afters] + [('-', l) for l in limits] + \
                [(rng.choice(afters), rng.choice(limits)) for _ in range(4)]
        rng.shuffle(reads)
        for af, l in reads[:10 if not big else 16]:
            steps.append(xstep('gettransactions', '%s.%s.%d' % (a, af, l), fail_provs(rng, bc_ok=rng.random() < 0.7),
                               setting=rng.choice([(1, 1, 4), (1, 1, 1), (1, 2, 2)])))
        steps.append(xstep('cacheinfo', a, XINFO))
        cs.append(xcase('warm_after_limit', spec, steps))
    # X2. the cache is filled in pages (limit below the count, blocks split between answers), then read back
    for _ in range(50 * reps):
        spec, txs = gen_world(rng, n=rng.randrange(3, 8))
        n = len(txs)
        a = '0'
        page = rng.choice([1, 2, 2, 3])
        steps = []
        for _ in range(rng.randrange(1, 4)):
            steps.append(xstep('gettransactions', '%s.-.%d' % (a, page), [xprov(0, 10, 1, 'v%d' % n)]))
        if rng.random() < 0.6:
            steps.append(xstep('gettransactions', '%s.-.20' % a, [xprov(0, 10, 1, 'v%d' % n)]))
        for _ in range(6):
            af = rng.choice(['-'] + [str(k) for k in range(n)])
            steps.append(xstep('gettransactions', '%s.%s.%d' % (a, af, rng.choice([1, 2, 3, 20])), fail_provs(rng)))
        steps.append(xstep('cacheinfo', a, XINFO))
        cs.append(xcase('paged_fill', spec, steps))
    # X3. the chain grows between the calls (new block count, providers with different views), partial failures
    for _ in range(60 * reps):
        spec, txs = gen_world(rng, n=rng.randrange(3, 8))
        n = len(txs)
        a = rng.choice(['0', '0', '0', '1'])
        m1 = rng.randrange(1, n + 1)
        steps = [xstep('gettransactions', '%s.-.%d' % (a, rng.choice([20, 20, 2, 3])), [xprov(0, 10, 1, 'v%d' % m1)])]
        bc = H0
        for _ in range(rng.randrange(2, 6)):
            dt = rng.choice([0, 0, 5, 61, 100])
            if dt >= 61:
                bc += rng.choice([0, 1, 3])
            k = rng.randrange(1, 4)
            prios = rng.sample([10, 20, 30], k)
            provs = []
            for i in range(k):
                q = rng.choice(['v%d' % rng.randrange(m1, n + 1), 'v%d' % n, 'e%d' % (i + 1), 'f', 'a', 'n'])
                provs.append(xprov(i, prios[i], rng.randrange(1, 15), q, bc='oi%d' % bc))
            meth = rng.choice(['gettransactions', 'gettransactions', 'gettransactions', 'getutxosx', 'gettransactionx', 'cacheinfo'])
            if meth == 'gettransactionx':
                arg = rng.choice([str(x) for x in range(n)] + ['x'])
            elif meth == 'cacheinfo':
                arg = a
            else:
                arg = '%s.%s.%d' % (a, rng.choice(['-', '-', '-'] + [str(x) for x in range(n)]), rng.choice([1, 2, 3, 5, 20, 20]))
            steps.append(xstep(meth, arg, provs, setting=rng.choice([(1, 1, 4), (1, 1, 4), (1, 1, 1), (1, 2, 2), (2, 2, 4)]), dt=dt))
        steps.append(xstep('cacheinfo', a, XINFO))
        cs.append(xcase('growing_chain', spec, steps))
    # X3b. the cache holds a prefix, a provider knows more: limits between the cached count and the total
    for _ in range(40 * reps):
        spec, txs = gen_world(rng, n=rng.randrange(4, 8), style='blocks')
        n = len(txs)
        a = '0'
        m1 = rng.randrange(1, n)
        c1 = len([k for k in mine_of(txs, a, m1) if txs[k]['height']])
        tot = len(mine_of(txs, a))
        steps = [xstep('gettransactions', '%s.-.20' % a, [xprov(0, 10, 1, 'v%d' % m1)])]
        for lim in sorted(set([c1 + 1, c1 + 2, max(1, tot - 1), max(1, tot), max(1, c1)])):
            af = rng.choice(['-', '-'] + [str(k) for k in mine_of(txs, a, m1)])
            steps.append(xstep('gettransactions', '%s.%s.%d' % (a, af, lim),
                               [xprov(0, 20, 3, rng.choice(['e1', 'f', 'a', 'n']), bc='oi%d' % (H0 + 2)),
                                xprov(1, 10, 5, 'v%d' % n, bc='oi%d' % (H0 + 2))],
                               setting=rng.choice([(1, 1, 4), (1, 2, 4)]), dt=rng.choice([61, 100])))
            steps.append(xstep('gettransactions', '%s.-.%d' % (a, lim), fail_provs(rng)))
        steps.append(xstep('cacheinfo', a, XINFO))
        cs.append(xcase('prefix_then_more', spec, steps))
    # X4. unspent outputs: the cache knows some, the providers fail / answer partly / the limit is reached
    for _ in range(60 * reps):
        spec, txs = gen_world(rng, n=rng.randrange(2, 8))
        for t in txs:                      # more known spent flags, so that Cache.getutxos has something to serve
            if rng.random() < 0.6:
                t['flag'] = rng.choice('AAAF')
        spec = world_spec(txs)
        n = len(txs)
        a = '0'
        steps = [xstep('gettransactions', '%s.-.20' % a, [xprov(0, 10, 1, 'v%d' % rng.choice([n, n, max(1, n - 1)]))])]
        if rng.random() < 0.4:
            steps.append(xstep('getutxosx', '%s.-.20' % a, [xprov(0, 10, 1, 'v%d' % n)]))
        for _ in range(5):
            af = rng.choice(['-', '-'] + [str(k) for k in range(n)] + ['x'])
            lim = rng.choice([1, 2, 3, 20, 20])
            r = rng.random()
            if r < 0.5:
                provs = fail_provs(rng)
                setting = rng.choice([(1, 1, 4), (1, 1, 1), (1, 1, 2), (1, 2, 2)])
            else:
                provs = [xprov(0, 20, 3, rng.choice(['e1', 'f', 'a', 'v%d' % n])), xprov(1, 10, 5, 'v%d' % rng.randrange(1, n + 1))]
                setting = rng.choice([(1, 1, 4), (1, 1, 1), (1, 2, 2), (2, 2, 4)])
            steps.append(xstep('getutxosx', '%s.%s.%d' % (a, af, lim), provs, setting=setting))
        steps.append(xstep('cacheinfo', a, XINFO))
        cs.append(xcase('utxos', spec, steps))
    # X5. single transactions filed first (no index), then the address is read; two addresses on one cache
    for _ in range(60 * reps):
        spec, txs = gen_world(rng, n=rng.randrange(3, 8), style=rng.choice(['blocks', 'blocks', 'mixed']))
        n = len(txs)
        steps = []
        for _ in range(rng.randrange(1, 3)):
            steps.append(xstep('gettransactionx', str(rng.randrange(n)), [xprov(0, 10, 1, 'v%d' % n)]))
        for a in rng.sample(['0', '1'], 2):
            steps.append(xstep('gettransactions', '%s.-.%d' % (a, rng.choice([20, 20, 2])), [xprov(0, 10, 1, 'v%d' % n)]))
        for _ in range(5):
            a = rng.choice(['0', '1'])
            af = rng.choice(['-'] + [str(k) for k in range(n)])
            steps.append(xstep(rng.choice(['gettransactions', 'gettransactions', 'getutxosx']),
                               '%s.%s.%d' % (a, af, rng.choice([1, 2, 20])), fail_provs(rng)))
        steps.append(xstep('cacheinfo', '0', XINFO))
        steps.append(xstep('cacheinfo', '1', XINFO))
        cs.append(xcase('single_then_address', spec, steps))
    # X6. cache disabled / providers compared (min_providers 2): nothing may come from a cache
    for _ in range(20 * reps):
        spec, txs = gen_world(rng)
        n = len(txs)
        mode = rng.choice(['xoff', 'xfile'])
        setting = (1, 1, 4) if mode == 'xoff' else (2, 2, 4)
        steps = []
        for _ in range(4):
            provs = [xprov(0, 20, 3, rng.choice(['e1', 'f', 'v%d' % n, 'v%d' % n])), xprov(1, 10, 5, 'v%d' % rng.randrange(1, n + 1))]
            steps.append(xstep(rng.choice(['gettransactions', 'getutxosx', 'gettransactionx']),
                               '%s.%s.%d' % ('0', rng.choice(['-'] + [str(k) for k in range(n)]), rng.choice([1, 2, 20])),
                               provs, setting=setting))
            if steps[-1].startswith('gettransactionx'):
                steps[-1] = xstep('gettransactionx', str(rng.randrange(n)), provs, setting=setting)
        cs.append(xcase('no_cache', spec, steps, mode=mode))
    # X7. blocks: pages filed in / out of order with different page sizes, transaction ids only, blocks a provider does
    #     not know yet, transactions of the block filed before by address queries; then read back with failing providers
    for _ in range(80 * reps):
        spec, txs = gen_world(rng, n=rng.randrange(3, 8), style=rng.choice(['blocks', 'blocks', 'mixed']))
        n = len(txs)
        heights = sorted(set(t['height'] for t in txs if t['height']))
        if not heights:
            continue
        # prefer a block with several transactions
        h = max(heights, key=lambda x: (len([t for t in txs if t['height'] == x]), rng.random()))
        if rng.random() < 0.25:
            h = rng.choice(heights)
        cnt = len([t for t in txs if t['height'] == h])
        steps = []
        if rng.random() < 0.3:
            steps.append(xstep(rng.choice(['gettransactions', 'gettransactionx']),
                               rng.choice(['0.-.20', '0.-.2']) if rng.random() < 0.6 else None, [xprov(0, 10, 1, 'v%d' % n)]))
            if steps[-1].startswith('gettransactionx') or '/None/' in steps[-1]:
                ks = [k for k in range(n) if txs[k]['height'] == h]
                steps[-1] = xstep('gettransactionx', str(rng.choice(ks)), [xprov(0, 10, 1, 'v%d' % n)])
        lim0 = rng.choice([1, 2, 2, 3, 25])
        pages = list(range(1, (cnt + lim0 - 1) // lim0 + 1))
        if rng.random() < 0.4:
            rng.shuffle(pages)
        for pg in pages[:rng.randrange(1, len(pages) + 1)]:
            steps.append(xstep('getblock', '%d.%d.%d.%d' % (h, 0 if rng.random() < 0.15 else 1, pg, lim0),
                               [xprov(0, 10, 1, 'v%d' % rng.choice([n, n, n, max(1, n - 2)]))]))
        for _ in range(6):
            lim = rng.choice([1, 2, 3, lim0, lim0, 25])
            pg = rng.randrange(1, (cnt + lim - 1) // lim + 2)
            r = rng.random()
            if r < 0.6:
                provs = fail_provs(rng)
            elif r < 0.8:
                provs = [xprov(0, 20, 3, rng.choice(['e1', 'f', 'a'])), xprov(1, 10, 5, 'v%d' % n)]
            else:
                provs = [xprov(0, 10, 5, 'v%d' % rng.randrange(1, n + 1))]
            steps.append(xstep('getblock', '%d.%d.%d.%d' % (rng.choice([h, h, h] + heights), 0 if rng.random() < 0.2 else 1, pg, lim),
                               provs, setting=rng.choice([(1, 1, 4), (1, 1, 1), (1, 2, 2), (2, 2, 4)])))
        cs.append(xcase('blocks', spec, steps, mode='xfile' if rng.random() < 0.9 else 'xoff'))
    return cs


# ---------------------------------------------------------------- the shared HTTP layer under real client classes
# (request format: see harness/impl/c20_impl.py, mode `http`).  Everything here is oracle-only: the model starts at the
# provider interface, BaseClient.request lies below it.
HTTP_STATUSES = ['200', '201', '202', '203', '204', '206', '301', '302', '400', '404', '429', '500', '503', 'T', 'C']
HTTP_GARBAGE = ['empty', 'null', 'list', 'obj', 'queued', 'badjson', 'html']
HTTP_METHODS = ['getrawtransaction', 'blockcount', 'estimatefee', 'sendrawtransaction', 'mempool', 'getbalance']
HTTP_NAMES = {'bs': 0, 'mp': 1, 'sm': 2}


def http_names(method):
    return ['bs', 'mp'] if method == 'mempool' else ['bs', 'mp', 'sm']    # blocksmurfer answers mempool('') without a request


def http_case(kind, method, provs):
    return Case(kind, 'bitcoin http %s/%s' % (method, '+'.join('%s:%d:%s:%s' % p for p in provs)))


def gen_http(rng, big):
    cs = []
    # one failing / odd first provider in front of a working one: every status x every body, every method
    for method in HTTP_METHODS:
        names = http_names(method)
        for i, st in enumerate(HTTP_STATUSES):
            bodies = ['ok'] + HTTP_GARBAGE if st not in ('T', 'C') else ['ok']
            for j, body in enumerate(bodies):
                if not big and st not in ('200', '201') and body not in ('ok', 'empty', 'queued', 'list') and (i + j) % 3:
                    continue
                first = names[(i + j) % len(names)]
                second = [n for n in names if n != first][(i + 2 * j) % (len(names) - 1)]
                cs.append(http_case('http_first', method, [(first, 20, st, body), (second, 10, '200' if j % 2 else '201', 'ok')]))
    # random configurations of two or three providers (also nobody answering, single provider)
    for _ in range(3000 if big else 260):
        method = rng.choice(HTTP_METHODS)
        names = http_names(method)
        k = rng.choice([1, 2, 2, 3, 3])
        chosen = rng.sample(names, min(k, len(names)))
        prios = rng.sample([5, 10, 20, 30], len(chosen))
        provs = []
        for n, pr in zip(chosen, prios):
            st = rng.choice(HTTP_STATUSES) if rng.random() < 0.75 else '200'
            body = 'ok' if (st in ('T', 'C') or rng.random() < 0.5) else rng.choice(HTTP_GARBAGE)
            provs.append((n, pr, st, body))
        cs.append(http_case('http_random', method, provs))
    return cs


def http_expected(name, method):
    """what the provider's documented answer format means (independent of the client code)"""
    i = HTTP_NAMES[name]
    if method == 'blockcount':
        return 800000 + i
    if method == 'getrawtransaction':
        return '0100000001' + 'ab' * 20 + '%02x' % i
    if method == 'sendrawtransaction':
        return 'ab' * 31 + '%02x' % i
    if method == 'mempool':
        return ['d%d' % i * 32, 'e%d' % i * 32]
    if method == 'estimatefee':       # target 3 blocks, satoshi per kB
        return {'bs': int((11.0 + i) * 1000), 'mp': (20 + i) * 1000, 'sm': 15000 + i}[name]
    if method == 'getbalance':
        return 5000 + i if name == 'sm' else 9000 + i - 2000


def http_valid(method, status, body):
    """does this HTTP exchange carry an answer?  Only 200/201 with a body in the provider's format does."""
    if status not in ('200', '201'):
        return False
    return body == 'ok' or (body == 'list' and method == 'mempool')      # an empty mempool is a proper answer


def parse_http(req):
    method, provs = req.split()[2].split('/')
    ps = []
    for t in provs.split('+'):
        n, pr, st, body = t.split(':')
        ps.append((n, int(pr), st, body))
    ps.sort(key=lambda p: -p[1])
    return method, ps


def check_http(c, out):
    import json as _json
    method, ps = parse_http(c.req)
    bad = []
    toks = out.split(' ')
    if out.startswith('CRASH') or out.startswith('INITERR') or len(toks) != 4:
        return [('http_layer', 'unexpected answer %r' % out[:100])]
    ret, R, E, C = toks[0], toks[1][2:], toks[2][2:], toks[3][2:]
    res = [] if R == '-' else R.split(',')
    errs = set() if E == '-' else set(E.split(','))
    asked = [] if C == '-' else C.split(',')
    asked_once = [n for i, n in enumerate(asked) if n not in asked[:i]]
    answering = None
    skipped = []
    for n, pr, st, body in ps:
        if http_valid(method, st, body):
            answering = (n, body)
            break
        skipped.append((n, st, body))
    # the recorded class: the library took the body of a 200/201 exchange that is not an answer as THE result (decided
    # from the case: such a provider stands in front of the one that should have answered)
    garbage = [n for n, st, body in skipped if st in ('200', '201')]
    tag = 'http_ok_status_body_not_an_answer' if (len(res) == 1 and res[0] in garbage) else 'http_layer'
    if answering is None:
        if ret != 'FAIL':
            bad.append((tag, '%s: no provider answered (statuses %s) but the query returned %s (results from %s)'
                        % (method, ','.join('%s=%s/%s' % (n, st, b) for n, st, b in skipped), ret[:60], R)))
    else:
        n, body = answering
        want = [] if body == 'list' else http_expected(n, method)
        try:
            got = _json.loads(ret.replace('_', ' '))
            okv = got == want and type(got) == type(want)
        except ValueError:
            okv = False
        if not okv or res != [n]:
            sk = ','.join('%s=%s/%s' % x for x in skipped) or 'none'
            bad.append((tag, '%s: %s is the first provider answering 200/201 with a proper body (skipped before it: %s); '
                             'expected its answer %r from [%s], got %s from [%s]' % (method, n, sk, want, n, ret[:70], R)))
        for m2 in asked_once:
            if m2 != n and m2 not in [x[0] for x in skipped]:
                bad.append((tag, '%s: provider %s was asked although %s had answered' % (method, m2, n)))
    if not bad:
        for n, st, body in skipped:
            if n not in errs:
                # a client that chokes on the body with an AttributeError is skipped without a record: the row-level rule
                # "AttributeError = method missing" of the service layer, already part of the model (not an HTTP matter)
                if st in ('200', '201'):
                    continue
                bad.append(('http_layer', '%s: provider %s answered %s/%s and was skipped, but no error is recorded for it (errors: %s)'
                            % (method, n, st, body, E)))
    return bad


# ---------------------------------------------------------------- comparing the two sides
def strip_extras(out):
    steps = []
    for s in out.split(' ; '):
        steps.append(' '.join(t for t in s.split(' ') if not (t.startswith('C=') or t.startswith('X=') or t == '')))
    return ' ; '.join(steps)


def same(c, impl_out, model_out):
    if c.req.split()[1] == 'http':
        return True         # below the provider interface: out of the model (driver answers OUT-OF-MODEL), oracle only
    return strip_extras(impl_out) == model_out


def is_trivial(c, out):
    if out.startswith('CRASH') or out == 'BADREQ':
        return True
    if c.req.split()[1] in ('xfile', 'xoff'):
        return not any(o.split(' ')[0][:1] in 'XUx' for o in out.split(' ; '))
    if c.req.split()[1] == 'http':
        return out.split(' ')[0] in ('FAIL', 'INITERR') or out.startswith('X:')
    for s, o in zip(c.req.split()[2:], out.split(' ; ')):
        if s.startswith('seedaddr') or s.startswith('cacheinfo'):
            continue
        t = o.split(' ')[0]
        return t in ('SERVICEERR', 'OTHERERR', 'INITERR', 'INITOTHERERR', 'F')
    return True


# ---------------------------------------------------------------- the property, as an independent oracle
# Written from the statement: a query returns exactly what one responding provider returned, or the cached copy of
# such an answer; providers that raise / answer empty / are unusable are skipped; the query fails (with an error) only
# when no provider answers or the error limit is reached first; what is served from the cache equals what was stored.
def parse_step(s):
    method, arg, minp, maxp, maxe, dt, provs = s.split('/')
    ps = []
    if provs != '-':
        for t in provs.split('+'):
            a = t.split(':')
            ps.append(dict(id=int(a[0]), prio=int(a[1]), tb=int(a[2]), static=a[3], bc=a[4], q=a[5]))
    return dict(method=method, arg=arg, minp=int(minp) if minp != '-' else 0, maxp=int(maxp) if maxp != '-' else 0,
                maxe=int(maxe) if maxe != '-' else 0, dt=int(dt), provs=ps)


def behaviour(p, isbc):
    """('answer', token) | ('fail',) | ('skip',) for the queried method"""
    if p['static'] in ('u', 'k'):
        return ('skip',)
    if p['static'] in ('m', 'x'):
        return ('fail',)
    t = p['bc'] if isbc else p['q']
    if t[0] == 'o':
        return ('answer', t[1:])
    if t in ('n', '-'):
        return ('skip',)
    return ('fail',)


def tx_token(tok, txid):
    return '%s@%s' % (tok, txid)


def wellformed(method, tok, arg):
    if method == 'estimatefee':
        return tok[0] == 'i' and tok != 'i0'        # a fee of 0 is an empty answer
    if method in ('getbalance', 'blockcount', 'init'):
        return tok[0] == 'i'
    if method == 'getutxos':
        return tok[0] == 'L'
    if method == 'gettransaction':
        return tok[0] == 't' and tok[1:-1] == str(arg)
    if method == 'getrawtransaction':
        return tok[0] == 'r'
    if method == 'isspent':
        return tok[0] in 'iB'
    return tok[0] == 'd'


def shown(method, tok, arg):
    """how an answer token appears when it is returned unchanged"""
    if tok[0] == 't':
        return tok + '@' + tok[1:-1]
    if method == 'isspent' and tok in ('i1', 'B1'):
        return 'T'
    if tok == 'B1':
        return 'T'
    return tok


# ---------------------------------------------------------------- the address index: oracle from the statement
# The chain history W is part of the case.  A provider that knows the first m transactions answers
# gettransactions(address, after_txid, limit) with the transactions of the address after after_txid, oldest first, at
# most limit of them; getutxos with the unspent outputs among them.  The property: what the service returns is such an
# answer - of a provider that responds in this call, or a stored copy of an answer given earlier (a stored copy holds
# the confirmed transactions only) - never a reordered, thinned out or invented list, and an error only when nobody
# usable answers.
def parse_world(spec):
    txs = []
    body = spec[2:]
    for sp in (body.split(',') if body else []):
        h, src, dst, oidx, val, flag, stor = sp.split('.')
        txs.append(dict(height=int(h), src=src, dst=dst, oidx=int(oidx), value=int(val), flag=flag, storable=stor == '1'))
    return txs


def ref_touch(txs, k, a):
    t = txs[k]
    return t['dst'] == a or (t['src'] != 'F' and txs[int(t['src'])]['dst'] == a)


def ref_txs(txs, m, a, after, limit, confirmed_only=False):
    """the reference answer of a provider with view m; None when after_txid is not a transaction of the address"""
    mine = [k for k in range(min(m, len(txs))) if ref_touch(txs, k, a) and (txs[k]['height'] or not confirmed_only)]
    if after != '-':
        if after == 'x' or int(after) not in mine:
            return None
        mine = mine[mine.index(int(after)) + 1:]
    return mine[:limit]


def ref_utxos(txs, m, a, after, limit):
    m = min(m, len(txs))
    mine = [k for k in range(m) if ref_touch(txs, k, a)]
    if after != '-':
        if after == 'x' or int(after) not in mine:
            return None
        mine = mine[mine.index(int(after)) + 1:]
    spent = set(int(txs[k]['src']) for k in range(m) if txs[k]['src'] != 'F')
    return [k for k in mine if txs[k]['dst'] == a and k not in spent][:limit]


def x_items(ret):
    """'X0h7s..' / 'U0n0v5h7' -> list of (k, rest) ; None when an element is not a world transaction or is altered"""
    body = ret[1:]
    if not body:
        return []
    out = []
    for it in body.split('.'):
        j = 0
        while j < len(it) and it[j].isdigit():
            j += 1
        if j == 0:
            return None
        out.append((int(it[:j]), it[j:]))
    return out


def order_hazard(steps, upto, a, txs):
    """-> the recorded defect class the history before step [upto] can trigger, or None.
    cache_skips_refused_transaction: the chain holds a transaction Cache.store_transaction refuses (no input value); the
      transactions after it are filed without index and the refused one is never fetched again.
    cache_index_not_chain_order: transactions of the address are filed by more than one call (`index` restarts at 0 in
      every provider answer) or singly by gettransaction (no index), so (block_height, index) is not the chain order."""
    if any(not t['storable'] and t['height'] and ref_touch(txs, k, a) for k, t in enumerate(txs)):
        return 'cache_skips_refused_transaction'
    mine = [k for k in range(len(txs)) if ref_touch(txs, k, a) and txs[k]['height']]
    events = 0
    for st in steps[:upto]:
        if not any(p['q'][0] == 'v' for p in st['provs']):
            continue
        if st['method'] == 'gettransactionx':
            if st['arg'] != 'x' and int(st['arg']) in mine:
                return 'cache_index_not_chain_order'
        elif st['method'] == 'getblock':
            bh, parse = st['arg'].split('.')[:2]
            if parse == '1' and any(txs[k]['height'] == int(bh) for k in mine):
                return 'cache_index_not_chain_order'
        elif st['method'] == 'gettransactions':
            a2 = st['arg'].split('.')[0]
            if a2 == a or any(ref_touch(txs, k, a2) for k in mine):
                events += 1
    if events > 1:
        return 'cache_index_not_chain_order'
    return None


def nobody_block(order, st, ks):
    """no provider can have answered: the ones in front of the first that knows the block raise max_errors times, or none
    knows it"""
    n = 0
    for p in order:
        if p['q'][0] == 'v' and p['static'] == 'n' and ks and max(ks) < int(p['q'][1:]):
            return n >= st['maxe']
        if p['static'] == 'x' or p['q'][0] == 'e' or (p['q'][0] == 'v' and p['static'] == 'n'):
            n += 1
    return True


def block_hazard(steps, upto, h, txs, page, limit):
    """-> the recorded defect class the history can trigger for pages of block h, or None.
    cache_index_not_chain_order: a transaction of the block was filed by an address query / singly (its `index` is not
      its position in the block).
    block_pages_unordered: pages of the block were filed with another page size or not in ascending order
      (Cache.getblocktransactions has no ORDER BY: rows come back in filing order)."""
    geom = []
    for st in steps[:upto]:
        if st['method'] == 'gettransactionx' and any(p['q'][0] == 'v' for p in st['provs']):
            if st['arg'] != 'x' and txs[int(st['arg'])]['height'] == h:
                return 'cache_index_not_chain_order'
        if st['method'] == 'gettransactions' and any(p['q'][0] == 'v' for p in st['provs']):
            a2 = st['arg'].split('.')[0]
            if any(t['height'] == h and ref_touch(txs, k, a2) for k, t in enumerate(txs)):
                return 'cache_index_not_chain_order'
        if st['method'] == 'getblock':
            bh, parse, pg, lim = [int(x) for x in st['arg'].split('.')]
            if bh == h and parse and any(p['q'][0] == 'v' for p in st['provs']):
                geom.append((pg, lim))
    if any(g[1] != limit for g in geom) or [g[0] for g in geom] != sorted(g[0] for g in geom):
        return 'block_pages_unordered'
    return None


def check_xsteps(c, out):
    toks = c.req.split()
    txs = parse_world(toks[2])
    steps = [parse_step(s) for s in toks[3:]]
    obs = out.split(' ; ')
    bad = []
    if len(obs) != len(steps):
        return [('malformed_output', 'got %d step answers for %d steps' % (len(obs), len(steps)))]
    cache_on = toks[1] == 'xfile'
    cached_views = {}        # address -> set of views m some stored answer came from
    for si, (st, o) in enumerate(zip(steps, obs)):
        m_ = st['method']
        if o.startswith('CRASH') or o == 'BADREQ':
            bad.append(('adapter', o[:100]))
            continue
        f = o.split(' ')
        ret = f[0]
        if ret in ('INITERR', 'INITOTHERERR'):
            if any(p['bc'][0] == 'o' and p['static'] == 'n' for p in st['provs']) and \
                    not any(p['bc'][0] in 'eaf' or p['static'] in 'mx' for p in st['provs']):
                bad.append(('constructor_fails_despite_answer', 'Service() raised although every provider answers blockcount'))
            continue
        if m_ == 'cacheinfo':
            continue
        order = sorted(st['provs'], key=lambda p: (-p['prio'], -p['tb']))
        views = [int(p['q'][1:]) for p in order if p['q'][0] == 'v' and p['static'] == 'n']
        nfail = 0
        for p in order:
            if p['q'][0] == 'v' and p['static'] == 'n':
                break
            if p['static'] in 'mx' or p['q'][0] in 'eaf':
                nfail += 1
        mal = any(p['q'][0] == 'o' for p in order)
        error_justified = (not views) or nfail >= st['maxe'] or mal
        # exceptions in front of the first provider that answers: with max_errors of them the limit is reached first
        nexc = 0
        for p in order:
            if p['q'][0] == 'v' and p['static'] == 'n':
                break
            if p['static'] == 'x' or (p['static'] == 'n' and p['q'][0] == 'e'):
                nexc += 1
        nobody = (not views) or nexc >= st['maxe']
        caching = cache_on and st['minp'] <= 1
        if m_ == 'gettransactionx':
            k = st['arg']
            known = [m for m in views if k != 'x' and int(k) < m]
            if ret in ('SERVICEERR', 'OTHERERR', 'F'):
                if known and not error_justified and views[0] == known[0] and nfail < st['maxe']:
                    bad.append(('error_despite_answer', 'gettransaction raised/returned False although provider view %d holds it' % known[0]))
            else:
                it = x_items(ret)
                if ret[0] != 'x' or it is None or len(it) != 1 or k == 'x' or it[0][0] != int(k):
                    bad.append(('unclassified', 'gettransaction(%s) returned %s' % (k, ret)))
                elif caching and txs[int(k)]['height']:
                    for a in ('0', '1'):
                        if ref_touch(txs, int(k), a):
                            cached_views.setdefault(a, set())
            continue
        if m_ == 'getblock':
            h, parse, page, limit = [int(x) for x in st['arg'].split('.')]
            ks = [k for k in range(len(txs)) if txs[k]['height'] == h and h]
            bviews = [m for m in views if ks and max(ks) < m]          # providers that know the whole block
            if ret in ('SERVICEERR', 'OTHERERR', 'F'):
                first_ok = bool(bviews) and views and views[0] == bviews[0]
                if ret == 'F' and nobody_block(order, st, ks):
                    if any(p['static'] == 'x' or p['q'][0] == 'e' for p in order):
                        bad.append(('limit_returns_false', 'getblock returned False instead of raising'))
                elif first_ok and nfail < st['maxe'] and not mal and nexc < st['maxe'] and order and \
                        all(p['q'][0] == 'v' and p['static'] == 'n' for p in order[:1]):
                    bad.append(('error_despite_answer', 'getblock raised/returned %s although the first provider knows the block' % ret))
                continue
            if ret[0] != 'B' or ':' not in ret:
                bad.append(('unclassified', 'getblock returned %s' % ret))
                continue
            head, body = ret[1:].split(':', 1)
            bh, bc = head.split('c')
            items = body.split('.') if body else []
            exp = ks[max((page - 1) * limit, 0):][:max(limit, 0)]
            got = []
            okform = True
            for it in items:
                if parse:
                    xi = x_items('X' + it)
                    if not xi or xi[0][0] >= len(txs) or not xi[0][1].startswith('h%ds' % txs[xi[0][0]]['height']):
                        okform = False
                        break
                    got.append(xi[0][0])
                else:
                    if not it.startswith('i') or not it[1:].isdigit():
                        okform = False
                        break
                    got.append(int(it[1:]))
            if not okform:
                bad.append(('transaction_altered', 'getblock returned altered / unknown transactions: %s' % ret))
            elif int(bh) != h or int(bc) != len(ks):
                bad.append(('block_altered', 'getblock(%d) returned block %s with tx_count %s; the chain has %d transactions there'
                            % (h, bh, bc, len(ks))))
            elif got != exp:
                tag = block_hazard(steps, si, h, txs, page, limit) if caching or cache_on else None
                bad.append((tag or 'cached_answer_differs', 'getblock(%d, page=%d, limit=%d) returned transactions %s; the block '
                                                            'page is %s' % (h, page, limit, got, exp)))
            continue
        a, after, limit = st['arg'].split('.')
        limit = int(limit)
        known_views = set(cached_views.get(a, set())) if caching else set()
        if m_ == 'gettransactions':
            if ret in ('SERVICEERR', 'OTHERERR'):
                if not error_justified:
                    bad.append(('error_despite_answer', 'gettransactions raised %s although a provider answers before the error '
                                                        'limit (failing in front: %d, max_errors %d)' % (ret, nfail, st['maxe'])))
                continue
            it = x_items(ret)
            if ret[0] != 'X' or it is None:
                bad.append(('unclassified', 'gettransactions returned %s' % ret))
                continue
            ids = [k for k, _ in it]
            wrong = [k for k, rest in it if k >= len(txs) or not rest.startswith('h%ds' % txs[k]['height'])]
            if wrong:
                bad.append(('transaction_altered', 'returned transactions %s differ from the chain (block height / content)' % wrong))
                continue
            foreign_after = after != '-' and (after == 'x' or not ref_touch(txs, int(after), a))
            acceptable = []
            for m in views:
                acceptable.append(ref_txs(txs, m, a, after, limit))
            for m in known_views:
                acceptable.append(ref_txs(txs, m, a, after, limit, confirmed_only=True))
                for m2 in views:       # stored confirmed part continued by a provider of this call
                    acceptable.append(ref_txs(txs, max(m, m2), a, after, limit))
            acceptable = [x if x is not None else [] for x in acceptable]
            if foreign_after:
                # after_txid is not a transaction of this address: any chain-ordered selection of its transactions
                allmine = [k for k in range(len(txs)) if ref_touch(txs, k, a)]
                if not (all(k in allmine for k in ids) and ids == sorted(set(ids))):
                    bad.append(((caching and order_hazard(steps, si, a, txs)) or 'cached_answer_differs',
                                'gettransactions(after=%s, not of the address) returned %s' % (after, ids)))
            elif ids in acceptable:
                pass
            elif not views and not known_views and ids == []:
                pass
            else:
                tag = (caching and order_hazard(steps, si, a, txs)) or 'cached_answer_differs'
                bad.append((tag, 'gettransactions(%s, after=%s, limit=%d) returned %s; a provider / stored answer gives one of %s'
                            % (a, after, limit, ids, sorted(set(map(tuple, acceptable))))))
            if caching and views and ret[0] == 'X':
                cached_views.setdefault(a, set()).update(views)
        elif m_ == 'getutxosx':
            if ret in ('SERVICEERR', 'OTHERERR'):
                if not error_justified:
                    bad.append(('error_despite_answer', 'getutxos raised %s although a provider answers before the error limit' % ret))
                continue
            it = x_items(ret)
            if ret[0] != 'U' or it is None:
                bad.append(('unclassified', 'getutxos returned %s' % ret))
                continue
            if nobody and not mal:
                bad.append(('partial_answer_instead_of_error', 'getutxos returned %s although no provider answers before the '
                                                               'error limit (exceptions in front: %d, max_errors %d)'
                            % (ret, nexc, st['maxe'])))
                continue
            ids = [k for k, _ in it]
            invented = [k for k, rest in it if k >= len(txs) or txs[k]['dst'] != a or
                        rest != 'n%dv%dh%d' % (txs[k]['oidx'], txs[k]['value'], txs[k]['height'])]
            if invented:
                bad.append(('utxo_invented', 'getutxos returned outputs %s that are not outputs of the address in the chain' % invented))
                continue
            ok = False
            for i in range(len(ids) + 1):
                head, tail = ids[:i], ids[i:]
                if head != sorted(set(head)):
                    continue
                af = str(head[-1]) if head else after
                for m in views:
                    r = ref_utxos(txs, m, a, af, limit)
                    if (r if r is not None else []) == tail:
                        ok = True
            if after != '-' and (after == 'x' or not ref_touch(txs, int(after), a)):
                ok = ok or ids == sorted(set(ids))
            if not ok:
                tag = (caching and order_hazard(steps, si, a, txs)) or 'cached_answer_differs'
                bad.append((tag, 'getutxos(%s, after=%s, limit=%d) returned %s: not stored outputs in chain order followed by a '
                                 'provider answer' % (a, after, limit, ids)))
    return bad


def check_steps(c, out):
    """-> list of (class, message) for every step whose observation contradicts the property"""
    toks = c.req.split()
    if toks[1] in ('xfile', 'xoff'):
        return check_xsteps(c, out)
    if toks[1] == 'http':
        return check_http(c, out)
    net = toks[0]
    steps = [parse_step(s) for s in toks[2:]]
    obs = out.split(' ; ')
    bad = []
    if len(obs) != len(steps):
        return [('malformed_output', 'got %d step answers for %d steps' % (len(obs), len(steps)))]
    stored = {}          # (kind, key) -> set of acceptable cached tokens
    relabelled = set()
    seeded_bal = {}
    for st, o in zip(steps, obs):
        m, arg = st['method'], st['arg']
        if o.startswith('CRASH') or o == 'BADREQ':
            bad.append(('adapter', o[:100]))
            continue
        if m == 'seedaddr':
            a, lb, bal = arg.split('.')
            # Cache.store_address(balance=None) on a new row: the column default 0 (the harness's own seeding)
            stored.setdefault(('bal', a), set()).add('i' + bal if bal != 'N' else 'i0')
            continue
        f = o.split(' ')
        ret = f[0]
        fld = {x[:2]: x[2:] for x in f[1:] if len(x) > 2 and x[1] == '='}
        R = dict(x.split(':', 1) for x in fld['R='].split(',')) if fld.get('R=', '-') != '-' else {}
        calls = fld['C='].split('|')[1] if '|' in fld.get('C=', '') else '-'
        if m == 'cacheinfo':
            if ret != 'A-':
                bal = ret[1:].split('.')[0]
                if bal != 'N' and bal not in stored.get(('bal', arg), set()):
                    bad.append(('cached_balance_not_an_answer',
                                'cache holds balance %s for address %s; no provider answered that' % (bal, arg)))
            continue
        isbc = m in ('blockcount', 'init')
        order = sorted(st['provs'], key=lambda p: (-p['prio'], -p['tb']))
        beh = [(p['id'], behaviour(p, isbc)) for p in order]
        answers = [(pid, b[1]) for pid, b in beh if b[0] == 'answer']
        # number of unusable/failing providers in front of the first answer
        nfail = 0
        for pid, b in beh:
            if b[0] == 'answer':
                break
            if b[0] == 'fail':
                nfail += 1
        error_justified = (not answers) or nfail >= st['maxe'] or \
            (answers and not wellformed(m, answers[0][1], arg))
        # anything a later provider said that is malformed may also surface as a digest error when max_providers > 1
        if max(st['minp'], st['maxp']) > 1 and any(not wellformed(m, a, arg) for _, a in answers):
            error_justified = True
        if ret in ('INITERR', 'INITOTHERERR'):
            # the constructor asks for the block count; it may fail only when nobody usable answers it
            bcbeh = [behaviour(p, True) for p in order]
            nf = 0
            for b in bcbeh:
                if b[0] == 'answer':
                    break
                if b[0] == 'fail':
                    nf += 1
            anyans = any(b[0] == 'answer' for b in bcbeh)
            if anyans and nf < min(st['maxe'], 4) and all(b[1][0] == 'i' for b in bcbeh if b[0] == 'answer'):
                bad.append(('constructor_fails_despite_answer', 'Service() raised although a provider answers blockcount'))
            continue
        key = {'getbalance': ('bal', arg), 'getutxos': ('utxos', arg), 'gettransaction': ('tx', arg),
               'getrawtransaction': ('tx', arg), 'isspent': ('tx', arg), 'estimatefee': ('fee', _feeclass(arg)), 'blockcount': ('bc', ''),
               'init': ('bc', '')}.get(m)
        acceptable = set(shown(m, a, arg) for _, a in answers)
        if m == 'isspent':
            acceptable = set('F' if a in ('i0', 'N') else 'T' for _, a in answers)      # documented: returns bool
        cached = set()
        if key is not None:
            cached = set(stored.get(key, set()))
            if m == 'isspent':
                cached = {'T', 'F'} if cached else set()       # the stored transaction's own spent flag
            if m == 'getrawtransaction':
                cached = set('r' + t[1:].split('c')[0].split('u')[0] for t in cached if t[0] == 't' and t.endswith('@' + str(arg)))
        if ret in ('SERVICEERR', 'OTHERERR'):
            if not error_justified and not cached:
                bad.append(('error_despite_answer', '%s raised %s although provider %s answers before the error limit'
                            % (m, ret, answers[0][0] if answers else '?')))
            elif not error_justified and cached and m == 'getbalance':
                pass
        elif ret == 'ok':
            pass
        else:
            # a normal return: must be an answer of this call or a stored one
            if ret in acceptable or ret in cached:
                pass
            elif ret == 'F':
                bad.append(('limit_returns_false' if m != 'isspent' else 'isspent_unspent_at_limit',
                            '%s returned False instead of raising (failing providers in front: %d, max_errors %d)'
                            % (m, nfail, st['maxe'])))
            elif m == 'getbalance' and ret == 'i0':
                bad.append(('getbalance_fabricates_zero', 'getbalance returned 0; no provider answered 0'))
                stored.setdefault(('bal', arg), set()).add('i0')      # the same defect also writes the 0 to the cache
            elif m == 'getbalance' and ret[0] == 'i' and cached and \
                    any(ret == 'i%d' % (int(cv[1:]) + int(a[1:])) for cv in cached for _, a in answers if a[0] == 'i' and cv[0] == 'i'):
                bad.append(('getbalance_adds_to_cached', 'getbalance returned cached balance plus a provider answer: %s' % ret))
            elif m == 'estimatefee':
                mn, mx, dflt = FEE[net]
                if dflt is not None and ret == 'i%d' % dflt:
                    bad.append(('estimatefee_default_substituted', 'estimatefee returned the network default %s, which no '
                                                                   'provider answered' % ret))
                elif ret in ('i%d' % mn, 'i%d' % mx):
                    bad.append(('estimatefee_clamped', 'estimatefee returned the network bound %s instead of the provider answer' % ret))
                else:
                    bad.append(('unclassified', 'estimatefee returned %s; answers %s cached %s' % (ret, sorted(acceptable), sorted(cached))))
            elif m == 'gettransaction' and ret[0] == 't' and '@' in ret and \
                    any(a[0] == 't' and ret.split('@')[0] == a for _, a in answers):
                bad.append(('wrong_txid_relabelled', 'gettransaction(%s) returned %s: another transaction filed under the '
                                                     'requested id' % (arg, ret)))
                # consequences of the same defect: .results shows the relabelled object, the cache serves it later
                relabelled.add(ret)
                stored.setdefault(key, set()).add(ret)
            elif ret == 'N' and any(a == 'N' for _, a in answers):
                pass
            else:
                bad.append(('unclassified', '%s returned %s; provider answers %s, cached %s'
                            % (m, ret, sorted(acceptable), sorted(cached))))
        # bookkeeping visible to the caller: .results holds only what the named providers said
        if calls != '-' or isbc:
            said = {}
            for p in st['provs']:
                for t in (p['bc'], p['q']):
                    if t[0] == 'o':
                        said.setdefault(str(p['id']), set()).add(shown('', t[1:], arg))
            for pid, v in R.items():
                if m == 'getbalance' and v == 'i0' and cached:
                    continue      # the fake client answers 0 when asked for the balance of no address (see adapter)
                if v in relabelled:
                    continue
                if v not in said.get(pid, set()):
                    bad.append(('results_not_provider_answer', '.results[%s] = %s is not what that provider returned' % (pid, v)))
            if len(R) > max(st['minp'], st['maxp']) and calls != '-':
                bad.append(('too_many_providers', '%d results with max_providers %d' % (len(R), max(st['minp'], st['maxp']))))
        # priority order of the calls made for this query
        if calls != '-':
            pr = {str(p['id']): p['prio'] for p in st['provs']}
            seq = [pr[x] for x in calls.split(',') if x in pr]
            if m != 'blockcount' and any(seq[i] < seq[i + 1] for i in range(len(seq) - 1)):
                bad.append(('priority_order', 'providers called in order %s with priorities %s' % (calls, seq)))
        # remember what this call may legitimately have put into the cache
        if key is not None and ret not in ('SERVICEERR', 'OTHERERR', 'F'):
            for _, a in answers:
                if m == 'getutxos' and a[0] == 'L':
                    n_, b_ = a[1:].split('v')
                    stored.setdefault(('bal', arg), set()).add('i%d' % sum(int(b_) + j for j in range(int(n_))))
                elif m == 'gettransaction' and a[0] == 't':
                    stored.setdefault(key, set()).add(shown(m, a, arg))
                elif m in ('getbalance', 'estimatefee', 'blockcount', 'init') and a[0] == 'i':
                    stored.setdefault(key, set()).add(a)
        if key is not None and m in ('init', 'blockcount') or True:
            # every constructor call may cache a block count answer
            for p in st['provs']:
                if p['bc'][0] == 'o' and p['static'] == 'n':
                    stored.setdefault(('bc', ''), set()).add(p['bc'][1:])
    return bad


def _feeclass(arg):
    b = int(arg)
    return 'high' if b <= 1 else 'medium' if b <= 5 else 'low'


def prop_check(c, out):
    bad = check_steps(c, out)
    if not bad:
        return None
    return '; '.join('[%s] %s' % b for b in bad[:4])


def _class_pred(cid):
    def pred(c, io, mo):
        tags = [b[0] for b in check_steps(c, io)]
        return bool(tags) and tags[0] == cid and all(t in KNOWN_CLASSES for t in tags)
    return pred


KNOWN_CLASSES = {}
for _cid in ('limit_returns_false', 'getbalance_fabricates_zero', 'isspent_unspent_at_limit',
             'estimatefee_default_substituted', 'estimatefee_clamped', 'wrong_txid_relabelled',
             'cache_index_not_chain_order', 'cache_skips_refused_transaction', 'block_pages_unordered',
             'http_ok_status_body_not_an_answer'):
    KNOWN_CLASSES[_cid] = _class_pred(_cid)


def reproduce_known(entry, rundir):
    from core import run_impl
    rc, out, err = run_impl(IMPL, [entry['witness']['request']], rundir)
    return len(out) == 1 and strip_extras(out[0]) == entry['witness']['impl_answer']
