"""C18 — wire primitives (CompactSize, script numbers, pushes, script parse/serialize)."""
from core import Case

PROP = 'C18'
COQ_FILES = ['Extract/C18.v', 'Glue/WireGlue.v', 'Properties/C18.v']
DRIVER = 'c18'
IMPL = 'harness/impl/c18_impl.py'
ALLOWED_AXIOMS = []
ASSUMPTIONS = [
    'theorems are about coq/Model/Wire.v (lib_* mirrors encoding.py / scripts.py, core_* the protocol definition)',
    'tie to /repo: (a) int_to_varbyteint, varbyteint_to_int, varstr, data_pack, encode_num, decode_num are re-translated from the source '
    'on every run (translator/py2coq.py -> Gen/GenFuncs.v) and proved equal to the model (Glue/WireGlue.v, theorem source_is_model); '
    '(b) differential correspondence of every lib_* function against the public API on each run',
    'Signature.parse_bytes / Key() acceptance inside Script.parse are oracles (sig_ok, key_ok) in the model; '
    'of the script-type post-processing of parse_bytesio only the bare-multisig consistency errors are modelled',
]
RULE = ('boundary streams (every CompactSize / push / script-number form change), exhaustive small ranges, '
        'exhaustive command lists over a fixed alphabet up to a length bound, seeded random streams; '
        'a case is non-trivial when the implementation returns a value (not an error); distinct by request')


# ---------------------------------------------------------------- independent Python spec (property level)
def spec_cs(n):
    if n < 0 or n >= 1 << 64:
        return None
    if n < 253:
        return bytes([n])
    if n <= 0xffff:
        return b'\xfd' + n.to_bytes(2, 'little')
    if n <= 0xffffffff:
        return b'\xfe' + n.to_bytes(4, 'little')
    return b'\xff' + n.to_bytes(8, 'little')


def spec_num(z):
    if z == 0:
        return b''
    a, neg, r = abs(z), z < 0, bytearray()
    while a:
        r.append(a & 0xff)
        a >>= 8
    if r[-1] & 0x80:
        r.append(0x80 if neg else 0)
    elif neg:
        r[-1] |= 0x80
    return bytes(r)


def spec_push(d):
    n = len(d)
    if n < 76:
        return bytes([n]) + d
    if n <= 0xff:
        return b'\x4c' + bytes([n]) + d
    if n <= 0xffff:
        return b'\x4d' + n.to_bytes(2, 'little') + d
    return None


def hx(b):
    return b.hex() if b else '-'


def tok_of_cmds(cmds):
    return ','.join(('o%02x' % c) if isinstance(c, int) else 'd' + hx(c) for c in cmds) or '-'


def spec_ser(cmds):
    out = b''
    for c in cmds:
        if isinstance(c, int):
            out += bytes([c])
        else:
            p = spec_push(c)
            if p is None:
                return None
            out += p
    return out


def data_type(d):
    n = len(d)
    if d[:1] == b'\x30' and 69 <= n <= 74:
        return 'sig'
    if (d[:1] in (b'\x02', b'\x03') and n == 33) or (d[:1] == b'\x04' and n == 65):
        return 'key'
    if n in (20, 32, 64) or 1 <= n <= 4:
        return 'data'
    return 'other'


def inert(cmds):
    prev_ret = False
    for c in cmds:
        if isinstance(c, int):
            prev_ret = (c == 0x6a)
        else:
            t = data_type(c)
            if not (t == 'data' or (t == 'other' and prev_ret)):
                return False
            prev_ret = False
    return True


def whole_heur(first, dl):
    return (first == 0x30 and 69 <= dl <= 74) or (first in (2, 3) and dl == 33) or (first == 4 and dl == 65) or dl == 64


# ---------------------------------------------------------------- generators
OPS = [0x00, 0x4f, 0x51, 0x60, 0x6a, 0x75, 0x76, 0x87, 0x88, 0xa9, 0xac, 0xae, 0xb1, 0xff]
DLENS = [1, 2, 4, 5, 20, 32, 33, 64, 65, 75, 76, 255, 256, 520]
G = bytes.fromhex('0279be667ef9dcbbac55a06295ce870b07029bfcdb2dce28d959f2815b16f81798')


def nested_oracle_shape(d, depth=0):
    """does reading d as a script (plain opcode loop, recursively into pushed items) meet a signature-/key-shaped push?
    Acceptance of such pushes (Signature.parse_bytes / Key()) is an ORACLE of the model, so generated data stays clear of it
    at every nesting level, not only at the top."""
    i, n = 0, len(d)
    while i < n:
        b = d[i]
        i += 1
        if 1 <= b <= 75:
            ln = b
        elif b == 0x4c and i < n:
            ln = d[i]; i += 1
        elif b == 0x4d and i + 1 < n:
            ln = d[i] | (d[i + 1] << 8); i += 2
        elif b == 0x4e and i + 3 < n:
            ln = int.from_bytes(d[i:i + 4], 'little'); i += 4
        else:
            continue
        item = d[i:i + ln]
        i += ln
        if item and data_type(item) in ('sig', 'key'):
            return True
        if depth < 3 and len(item) > 4 and nested_oracle_shape(item, depth + 1):
            return True
    return False


def rand_data(rng, n):
    mode = rng.randrange(4)
    if mode == 0:
        return bytes([0x51]) * n
    if mode == 1:
        return bytes([rng.choice([0, 1, 0x4c, 0x75, 0xff])]) * n
    for _ in range(50):
        d = bytes(rng.randrange(256) for _ in range(n))
        # keep random items out of the signature-/key-shaped classes whose acceptance is an oracle in the model,
        # also where the item is re-read as a nested script
        if data_type(d) in ('sig', 'key'):
            d = b'\x55' + d[1:]
        if not nested_oracle_shape(d):
            return d
    return bytes([0x51]) * n


def script_cases(cmds, out):
    h = spec_ser(cmds)
    t = tok_of_cmds(cmds)
    out.append(Case('serialize', 'serialize ' + t, meta=('ser', cmds, h)))
    if h is not None:
        for entry in ('len', 'hex', 'half'):
            out.append(Case('parse_' + entry, 'parse %s %s' % (entry, hx(h)), meta=('rt', cmds, h, entry)))


def gen_cases(rng, tier):
    big = tier == 'thorough'
    cs = []
    # --- CompactSize
    vals = set(range(0, 70000 if big else 1200))
    for c in (0xfc, 0xfd, 0xffff, 0x10000, 0xffffffff, 0x100000000, 1 << 64, (1 << 63)):
        vals.update(range(c - (2000 if big else 300), c + (2000 if big else 300)))
    vals.update([-1, -2, (1 << 64) + 5, 1 << 70])
    for k in range(1, 66):
        vals.update([(1 << k) - 1, 1 << k, (1 << k) + 1])
    for _ in range(100000 if big else 3000):
        vals.add(rng.getrandbits(rng.randrange(1, 65)))
    for n in sorted(vals):
        cs.append(Case('cs_enc', 'cs_enc %d' % n, meta=('cs_enc', n)))
        e = spec_cs(n)
        if e is not None:
            tail = bytes(rng.randrange(256) for _ in range(rng.randrange(0, 4)))
            cs.append(Case('cs_dec_valid', 'cs_dec ' + hx(e + tail), meta=('cs_dec', n, len(e))))
    # lax reader on arbitrary / truncated / non-canonical input
    for _ in range(20000 if big else 2000):
        b = bytes([rng.choice([0, 1, 0xfc, 0xfd, 0xfe, 0xff, rng.randrange(256)])]) + \
            bytes(rng.randrange(256) for _ in range(rng.randrange(0, 10)))
        cs.append(Case('cs_dec_any', 'cs_dec ' + hx(b), meta=None))
    cs.append(Case('cs_dec_any', 'cs_dec -', meta=None))
    # --- varstr
    for n in list(range(0, 80)) + [252, 253, 254, 255, 256, 520, 65535, 65536] + ([70000] if big else []):
        for fill in (0, 0xab):
            cs.append(Case('varstr', 'varstr ' + hx(bytes([fill]) * n), meta=('varstr', bytes([fill]) * n)))
    # --- script numbers
    zs = set(range(-(1 << (16 if big else 12)), (1 << (16 if big else 12)) + 1))
    for k in (7, 8, 15, 16, 23, 24, 31, 32, 39, 40, 63, 64):
        for d in range(-3, 4):
            zs.update([(1 << k) + d, -(1 << k) + d])
    for _ in range(50000 if big else 2000):
        zs.add(rng.getrandbits(rng.randrange(1, 72)) * rng.choice([1, -1]))
    for z in sorted(zs):
        cs.append(Case('encode_num', 'encode_num %d' % z, meta=('enc', z)))
        cs.append(Case('decode_num_valid', 'decode_num ' + hx(spec_num(z)), meta=('dec', z)))
    for _ in range(20000 if big else 2000):
        b = bytes(rng.choice([0, 0x80, 0x7f, 0xff, rng.randrange(256)]) for _ in range(rng.randrange(0, 7)))
        cs.append(Case('decode_num_any', 'decode_num ' + hx(b), meta=None))
    # --- pushes
    for n in list(range(0, 522)) + [65534, 65535, 65536, 65537]:
        d = bytes(rng.randrange(256) for _ in range(n))
        cs.append(Case('data_pack', 'data_pack ' + hx(d), meta=('push', d)))
    # --- scripts: exhaustive short command lists over the alphabet, then random longer ones
    alpha = list(OPS) + [rand_data(rng, n) for n in DLENS] + [b'\x51' * 6, b'abcde', G, b'\x01\x02\x03\x04\x05\x06\x07']
    script_cases([], cs)
    for a in alpha:
        script_cases([a], cs)
    for a in alpha:
        for b in alpha:
            script_cases([a, b], cs)
    if big:
        for a in alpha:
            for b in alpha:
                for c in alpha[::2]:
                    script_cases([a, b, c], cs)
    for _ in range(20000 if big else 1500):
        n = rng.randrange(1, 40 if big else 16)
        cmds = []
        for _ in range(n):
            if rng.random() < 0.5:
                cmds.append(rng.choice(OPS) if rng.random() < 0.7 else rng.choice([0] + list(range(0x4f, 256))))
            else:
                ln = rng.choice(DLENS) if rng.random() < 0.7 else rng.randrange(1, 90)
                cmds.append(rand_data(rng, ln))
        script_cases(cmds, cs)
    # standard templates and every single-command / single-byte mutation of them (shortcuts keyed on a prefix,
    # a length or a trailing opcode show up here)
    h20, h32 = rand_data(rng, 20), rand_data(rng, 32)
    templates = [
        [0x76, 0xa9, h20, 0x88, 0xac], [0xa9, h20, 0x87], [0x00, h20], [0x00, h32], [0x51, h32],
        [0x6a, rand_data(rng, 20)], [0x6a, rand_data(rng, 40)], [G, 0xac], [0x51, G, 0x51, 0xae], [0x52, G, G, 0x52, 0xae],
        [0x52, h20, 0xb1, 0x75, 0x76, 0xa9, h20, 0x88, 0xac],
    ]
    sub_ops = [0x00, 0x51, 0x60, 0x6a, 0x75, 0x76, 0x87, 0x88, 0xa9, 0xaa, 0xac, 0xad, 0xae, 0xaf]
    for tpl in templates:
        script_cases(tpl, cs)
        for i in range(len(tpl)):
            for o in sub_ops:
                if tpl[i] != o:
                    script_cases(tpl[:i] + [o] + tpl[i + 1:], cs)
            script_cases(tpl[:i] + tpl[i + 1:], cs)
            script_cases(tpl[:i] + [0x75] + tpl[i:], cs)
            if not isinstance(tpl[i], int):
                for ln in (19, 21, 31, 33):
                    script_cases(tpl[:i] + [rand_data(rng, ln)] + tpl[i + 1:], cs)
        raw = spec_ser(tpl)
        for i in range(len(raw)):
            for v in {raw[i] ^ 1, (raw[i] + 1) % 256, 0x87, 0xad} - {raw[i]}:
                m = raw[:i] + bytes([v]) + raw[i + 1:]
                if data_type(m[1:]) in ('sig', 'key') or any(data_type(m[j:j + 33]) == 'key' for j in range(len(m))):
                    continue
                for entry in ('len', 'half'):
                    cs.append(Case('parse_mutated_' + entry, 'parse %s %s' % (entry, hx(m)), meta=None))
    # scripts of total length exactly 64 / 33 / 65 / 69..74 (whole-script heuristic) and 128/66/130 (parse(bytes))
    for total in (33, 64, 65, 66, 70, 128, 130, 140):
        for first in (0x51, 0x02, 0x04, 0x76):
            # (first byte 0x30 at 69..74 would be signature-shaped: Signature.parse_bytes is an oracle in the model)
            script_cases([first] + [0x51] * (total - 1), cs)
    return cs


def model_req(c):
    return c.req.replace('parse hex ', 'parse len ')


def is_trivial(c, out):
    return out.startswith('ERR') or out == 'BADREQ'


# ---------------------------------------------------------------- property-level verdict on the implementation
def prop_check(c, out):
    m = c.meta
    if out.startswith('CRASH') or out == 'BADREQ' or 'READERS-DIFFER' in out:
        return 'unexpected answer %r' % out[:120]
    if m is None:
        return None
    k = m[0]
    if k == 'cs_enc':
        e = spec_cs(m[1])
        exp = 'ERR' if e is None else hx(e)
        return None if out == exp else 'int_to_varbyteint(%d) = %s, protocol form is %s' % (m[1], out, exp)
    if k == 'cs_dec':
        exp = '%d %d' % (m[1], m[2])
        return None if out == exp else 'varbyteint_to_int of the canonical form of %d gives %s' % (m[1], out)
    if k == 'varstr':
        d = m[1]
        e = spec_cs(len(d))
        exp = hx(e + d)
        if d == b'\x00':
            return None     # encoding.varstr special case, recorded under C06 (single_zero_byte_item)
        return None if out == exp else 'varstr of %d bytes = %s…, expected %s…' % (len(d), out[:20], exp[:20])
    if k == 'enc':
        exp = hx(spec_num(m[1]))
        return None if out == exp else 'encode_num(%d) = %s, CScriptNum::serialize gives %s' % (m[1], out, exp)
    if k == 'dec':
        return None if out == str(m[1]) else 'decode_num(encode(%d)) = %s' % (m[1], out)
    if k == 'push':
        p = spec_push(m[1])
        exp = 'ERR' if p is None else hx(p)
        return None if out == exp else 'data_pack of %d bytes = %s…, shortest push is %s…' % (len(m[1]), out[:12], exp[:12])
    if k == 'ser':
        exp = 'ERR' if m[2] is None else hx(m[2])
        return None if out == exp else 'Script(cmds).serialize() = %s…, expected %s…' % (out[:40], exp[:40])
    if k == 'rt':
        cmds, h, entry = m[1], m[2], m[3]
        # canonical items: the empty data item is OP_0
        want = tok_of_cmds([0 if (not isinstance(x, int) and len(x) == 0) else x for x in cmds]) + ' ' + hx(h)
        if out == want:
            return None
        return 'Script.parse[%s](%s…) gives %s…, expected items/bytes %s…' % (entry, hx(h)[:40], out[:60], want[:60])
    return None


def _rt_class(c):
    m = c.meta
    if not m or m[0] != 'rt':
        return None
    cmds, h, entry = m[1], m[2], m[3]
    if any(isinstance(x, int) and 1 <= x <= 0x4e for x in cmds):
        return 'not_wf'
    dl = len(h) // 2 if entry == 'half' else len(h)
    if h and whole_heur(h[0], dl):
        return 'whole_script_heuristic'
    if not inert(cmds):
        return 'subscript_reparse'
    return None


# 'outside_domain' is not a finding: command lists that are not well-formed (e.g. an opcode in the push range given as
# an opcode) are outside the domain the property quantifies over; the class only filters them out of the verdict
DOMAIN_CLASSES = ('outside_domain',)
KNOWN_CLASSES = {
    'whole_script_heuristic': lambda c, io, mo: _rt_class(c) == 'whole_script_heuristic',
    'subscript_reparse': lambda c, io, mo: _rt_class(c) == 'subscript_reparse',
    'outside_domain': lambda c, io, mo: _rt_class(c) == 'not_wf',
}


def reproduce_known(entry, rundir):
    from core import run_impl
    rc, out, err = run_impl(IMPL, [entry['witness']['request']], rundir)
    return len(out) == 1 and out[0] == entry['witness']['impl_answer']


# ---------------------------------------------------------------- extraction cross-check (see core.standard_check 2b)
GOLDEN_HEADER = """From Coq Require Import ZArith List. From Coq.Strings Require Import Byte.
From Verif Require Import Lib.Bytes Model.Wire. Import ListNotations. Open Scope Z_scope."""


def _coq_bytes(h):
    b = b'' if h == '-' else bytes.fromhex(h)
    return '[' + '; '.join('x%02x' % x for x in b) + ']'


def _coq_z(n):
    return '(%d)' % n


def golden(c, mo):
    t = c.req.split(' ')
    if t[0] == 'cs_enc':
        return 'lib_cs_enc %s = %s' % (_coq_z(int(t[1])), 'None' if mo == 'ERR' else 'Some ' + _coq_bytes(mo))
    if t[0] == 'cs_dec' and len(t[1]) <= 40:
        v, k = mo.split(' ')[:2]
        return 'lib_cs_dec %s = (%s, %s%%nat)' % (_coq_bytes(t[1]), _coq_z(int(v)), k)
    if t[0] == 'encode_num':
        return 'lib_encode_num %s = %s' % (_coq_z(int(t[1])), _coq_bytes(mo))
    if t[0] == 'decode_num':
        return 'lib_decode_num %s = %s' % (_coq_bytes(t[1]), _coq_z(int(mo)))
    if t[0] == 'data_pack' and len(t[1]) <= 600:
        return 'lib_data_pack %s = %s' % (_coq_bytes(t[1]), 'None' if mo == 'ERR' else 'Some ' + _coq_bytes(mo))
    return None
