"""C18 — wire primitives (CompactSize, script numbers, pushes, script parse/serialize)."""
from core import Case

PROP = 'C18'
COQ_FILES = ['Extract/C18.v', 'Glue/WireGlue.v', 'Properties/C18.v']
DRIVER = 'c18'
IMPL = 'harness/impl/c18_impl.py'
ALLOWED_AXIOMS = []
ASSUMPTIONS = [
    'theorems are about coq/Model/Wire.v (lib_* mirrors encoding.py / scripts.py, core_* the protocol definition)',
    'tie to /repo: (a) int_to_varbyteint, varbyteint_to_int, varstr, data_pack, encode_num, decode_num are re-translated from the source '
    'on every run (translator/py2coq.py -> Gen/GenFuncs.v) and proved equal to the model (Glue/WireGlue.v, theorem source_is_model); '
    '(b) differential correspondence of every lib_* function against the public API on each run',
    'Signature.parse_bytes / Key() acceptance inside Script.parse are oracles (sig_ok, key_ok) in the model; '
    'of the script-type post-processing of parse_bytesio only the bare-multisig consistency errors are modelled',
]
RULE = ('boundary streams (every CompactSize / push / script-number form change), exhaustive small ranges, '
        'exhaustive command lists over a fixed alphabet up to a length bound, seeded random streams; '
        'argument forms of the helpers (text: ASCII / Latin-1 / beyond Latin-1 with lengths across 252/253 and 65535/65536 counted in '
        'bytes and in characters; bytearray / memoryview / list / hex text; bool, int subclass, float, Decimal, Fraction, decimal text) '
        'judged against the documented normalisation (spec_norm) and put to the model in normalised form; '
        'a case is non-trivial when the implementation returns a value (not an error); distinct by request')


# ---------------------------------------------------------------- independent Python spec (property level)
def spec_cs(n):
    if n < 0 or n >= 1 << 64:
        return None
    if n < 253:
        return bytes([n])
    if n <= 0xffff:
        return b'\xfd' + n.to_bytes(2, 'little')
    if n <= 0xffffffff:
        return b'\xfe' + n.to_bytes(4, 'little')
    return b'\xff' + n.to_bytes(8, 'little')


def spec_num(z):
    if z == 0:
        return b''
    a, neg, r = abs(z), z < 0, bytearray()
    while a:
        r.append(a & 0xff)
        a >>= 8
    if r[-1] & 0x80:
        r.append(0x80 if neg else 0)
    elif neg:
        r[-1] |= 0x80
    return bytes(r)


def spec_push(d):
    n = len(d)
    if n < 76:
        return bytes([n]) + d
    if n <= 0xff:
        return b'\x4c' + bytes([n]) + d
    if n <= 0xffff:
        return b'\x4d' + n.to_bytes(2, 'little') + d
    return None


def hx(b):
    return b.hex() if b else '-'

# documented normalisation of the helpers' text arguments (encoding.normalize_var): str -> ISO-8859-1 when every character
# fits, else UTF-8; a text that neither codec can encode (lone surrogate) is refused.  Written from the documentation.
def spec_norm(text):
    if all(ord(ch) < 256 for ch in text):
        return bytes(ord(ch) for ch in text)
    if any(0xd800 <= ord(ch) <= 0xdfff for ch in text):
        return None
    out = bytearray()
    for ch in text:
        cp = ord(ch)
        if cp < 0x80:
            out.append(cp)
        elif cp < 0x800:
            out += bytes([0xc0 | cp >> 6, 0x80 | cp & 0x3f])
        elif cp < 0x10000:
            out += bytes([0xe0 | cp >> 12, 0x80 | (cp >> 6) & 0x3f, 0x80 | cp & 0x3f])
        else:
            out += bytes([0xf0 | cp >> 18, 0x80 | (cp >> 12) & 0x3f, 0x80 | (cp >> 6) & 0x3f, 0x80 | cp & 0x3f])
    return bytes(out)


def read_cs_strict(b):
    """own CompactSize reader: (value, rest) for a canonical prefix, None otherwise"""
    if not b:
        return None
    f = b[0]
    if f < 253:
        return f, b[1:]
    w, lo = {253: (2, 253), 254: (4, 0x10000), 255: (8, 0x100000000)}[f]
    if len(b) < 1 + w:
        return None
    v = int.from_bytes(b[1:1 + w], 'little')
    return (v, b[1 + w:]) if v >= lo else None


def txt_tok(text):
    return hx(text.encode('utf-8', 'surrogatepass'))


# forms a helper may refuse (not documented for it) but must never answer WRONGLY for; the other forms must be served
MAY_REFUSE = {
    'varstr_a': ('memoryview',),
    'cs_enc_a': ('float', 'decstr', 'decimal', 'fraction'),
    'cs_dec_a': ('bytearray', 'memoryview', 'hexstr'),
    'data_pack_a': ('str', 'memoryview', 'hexstr'),
    'encode_num_a': ('float', 'decstr', 'decimal', 'fraction'),
    'decode_num_a': ('memoryview', 'hexstr'),
    'serialize_a': ('hexstr', 'str', 'memoryview'),
}



def tok_of_cmds(cmds):
    return ','.join(('o%02x' % c) if isinstance(c, int) else 'd' + hx(c) for c in cmds) or '-'


def spec_ser(cmds):
    out = b''
    for c in cmds:
        if isinstance(c, int):
            out += bytes([c])
        else:
            p = spec_push(c)
            if p is None:
                return None
            out += p
    return out


def data_type(d):
    n = len(d)
    if d[:1] == b'\x30' and 69 <= n <= 74:
        return 'sig'
    if (d[:1] in (b'\x02', b'\x03') and n == 33) or (d[:1] == b'\x04' and n == 65):
        return 'key'
    if n in (20, 32, 64) or 1 <= n <= 4:
        return 'data'
    return 'other'


def inert(cmds):
    prev_ret = False
    for c in cmds:
        if isinstance(c, int):
            prev_ret = (c == 0x6a)
        else:
            t = data_type(c)
            if not (t == 'data' or (t == 'other' and prev_ret)):
                return False
            prev_ret = False
    return True


def whole_heur(first, dl):
    return (first == 0x30 and 69 <= dl <= 74) or (first in (2, 3) and dl == 33) or (first == 4 and dl == 65) or dl == 64


# ---------------------------------------------------------------- generators
OPS = [0x00, 0x4f, 0x51, 0x60, 0x6a, 0x75, 0x76, 0x87, 0x88, 0xa9, 0xac, 0xae, 0xb1, 0xff]
DLENS = [1, 2, 4, 5, 20, 32, 33, 64, 65, 75, 76, 255, 256, 520]
G = bytes.fromhex('0279be667ef9dcbbac55a06295ce870b07029bfcdb2dce28d959f2815b16f81798')


def nested_oracle_shape(d, depth=0):
    """does reading d as a script (plain opcode loop, recursively into pushed items) meet a signature-/key-shaped push?
    Acceptance of such pushes (Signature.parse_bytes / Key()) is an ORACLE of the model, so generated data stays clear of it
    at every nesting level, not only at the top."""
    i, n = 0, len(d)
    while i < n:
        b = d[i]
        i += 1
        if 1 <= b <= 75:
            ln = b
        elif b == 0x4c and i < n:
            ln = d[i]; i += 1
        elif b == 0x4d and i + 1 < n:
            ln = d[i] | (d[i + 1] << 8); i += 2
        elif b == 0x4e and i + 3 < n:
            ln = int.from_bytes(d[i:i + 4], 'little'); i += 4
        else:
            continue
        item = d[i:i + ln]
        i += ln
        if item and data_type(item) in ('sig', 'key'):
            return True
        if depth < 3 and len(item) > 4 and nested_oracle_shape(item, depth + 1):
            return True
    return False


def rand_data(rng, n):
    mode = rng.randrange(4)
    if mode == 0:
        return bytes([0x51]) * n
    if mode == 1:
        return bytes([rng.choice([0, 1, 0x4c, 0x75, 0xff])]) * n
    for _ in range(50):
        d = bytes(rng.randrange(256) for _ in range(n))
        # keep random items out of the signature-/key-shaped classes whose acceptance is an oracle in the model,
        # also where the item is re-read as a nested script
        if data_type(d) in ('sig', 'key'):
            d = b'\x55' + d[1:]
        if not nested_oracle_shape(d):
            return d
    return bytes([0x51]) * n


def script_cases(cmds, out):
    h = spec_ser(cmds)
    t = tok_of_cmds(cmds)
    out.append(Case('serialize', 'serialize ' + t, meta=('ser', cmds, h)))
    if h is not None:
        for entry in ('len', 'hex', 'half'):
            out.append(Case('parse_' + entry, 'parse %s %s' % (entry, hx(h)), meta=('rt', cmds, h, entry)))


def gen_cases(rng, tier):
    big = tier == 'thorough'
    cs = []
    # --- CompactSize
    vals = set(range(0, 70000 if big else 1200))
    for c in (0xfc, 0xfd, 0xffff, 0x10000, 0xffffffff, 0x100000000, 1 << 64, (1 << 63)):
        vals.update(range(c - (2000 if big else 300), c + (2000 if big else 300)))
    vals.update([-1, -2, (1 << 64) + 5, 1 << 70])
    for k in range(1, 66):
        vals.update([(1 << k) - 1, 1 << k, (1 << k) + 1])
    for _ in range(100000 if big else 3000):
        vals.add(rng.getrandbits(rng.randrange(1, 65)))
    for n in sorted(vals):
        cs.append(Case('cs_enc', 'cs_enc %d' % n, meta=('cs_enc', n)))
        e = spec_cs(n)
        if e is not None:
            tail = bytes(rng.randrange(256) for _ in range(rng.randrange(0, 4)))
            cs.append(Case('cs_dec_valid', 'cs_dec ' + hx(e + tail), meta=('cs_dec', n, len(e))))
    # lax reader on arbitrary / truncated / non-canonical input
    for _ in range(20000 if big else 2000):
        b = bytes([rng.choice([0, 1, 0xfc, 0xfd, 0xfe, 0xff, rng.randrange(256)])]) + \
            bytes(rng.randrange(256) for _ in range(rng.randrange(0, 10)))
        cs.append(Case('cs_dec_any', 'cs_dec ' + hx(b), meta=None))
    cs.append(Case('cs_dec_any', 'cs_dec -', meta=None))
    # --- varstr
    for n in list(range(0, 80)) + [252, 253, 254, 255, 256, 520, 65535, 65536] + ([70000] if big else []):
        for fill in (0, 0xab):
            cs.append(Case('varstr', 'varstr ' + hx(bytes([fill]) * n), meta=('varstr', bytes([fill]) * n)))
    # --- argument forms of the helpers: text (ASCII / Latin-1 / beyond Latin-1) across the CompactSize form changes counted in
    # BYTES and in CHARACTERS, buffers other than bytes, int-likes.  Oracle-side normalisation is spec_norm.
    texts = ['', 'a', 'abc', '\x00', '\x00\x00', '\x7f', '\x80', '\xe9', '\xff', 'caf\xe9', '\u0142', '\u20ac', '\U0001f600',
             'Satoshi \u4e2d\u672c\u806a', '\xe9\u20ac', 'a\u0100', '\u00ff\u0100', '\ud800', 'a\udfffb']
    for ch, w in (('a', 1), ('\xe9', 1), ('\u0142', 2), ('\u20ac', 3), ('\U0001f600', 4)):
        ns = {1, 2, 75, 76, 200, 252, 253, 254, 255, 256, 65535, 65536}       # characters
        for bl in (252, 253, 254, 255, 256, 65534, 65535, 65536, 65537, 65538):   # bytes
            ns.update([bl // w, bl // w + 1])
        if not big:
            ns = {n for n in ns if n < 300} | set(rng.sample(sorted(n for n in ns if n >= 300), 3))
        for n in sorted(ns):
            texts.append(ch * n)
    for tail in ('\u20ac', '\u0142', '\U0001f600', '\xe9\u0142'):
        tw = len(spec_norm('a' + tail)) - 1
        for bl in (252, 253, 254, 65535, 65536):
            if bl > 300 and not big and rng.random() < 0.5:
                continue
            for pad in ('a', '\xe9'):                   # Latin-1 characters widen to 2 bytes once the text goes to UTF-8
                pw = len(spec_norm(pad + '\u20ac')) - 3
                k = (bl - tw) // pw
                texts.append(pad * k + tail)
                texts.append(tail + pad * (k + 1))
        for nc in (252, 253):
            texts.append('a' * (nc - len(tail)) + tail)
    for _ in range(400 if big else 60):
        n = rng.choice([rng.randrange(0, 40), rng.randrange(80, 130), rng.randrange(240, 270)])
        pool = rng.choice(['ab\xe9\xff', 'a\u0142\u20ac', '\xe9\u20ac\U0001f600z', 'abc', '\x00a\u0142'])
        texts.append(''.join(rng.choice(pool) for _ in range(n)))
    seen_t = set()
    for tx in texts:
        if tx in seen_t:
            continue
        seen_t.add(tx)
        p = spec_norm(tx)
        cs.append(Case('varstr_text', 'varstr_a str ' + txt_tok(tx), meta=('varstr_a', 'str', p)))
        if len(tx) < 600:
            cs.append(Case('data_pack_text', 'data_pack_a str ' + txt_tok(tx), meta=('data_pack_a', 'str', p)))
    for n in list(range(0, 6)) + [75, 76, 252, 253, 255, 256, 520] + ([65535, 65536] if big else [65535 + rng.randrange(2)]):
        d = bytes(rng.randrange(1, 256) for _ in range(n))
        for form in ('bytearray', 'memoryview'):
            cs.append(Case('varstr_buffer', 'varstr_a %s %s' % (form, hx(d)), meta=('varstr_a', form, d)))
            cs.append(Case('data_pack_buffer', 'data_pack_a %s %s' % (form, hx(d)), meta=('data_pack_a', form, d)))
        if n:
            cs.append(Case('data_pack_buffer', 'data_pack_a hexstr ' + hx(d), meta=('data_pack_a', 'hexstr', d)))
    nums = [0, 1, 2, 75, 76, 127, 128, 252, 253, 254, 255, 256, 65535, 65536, 65537, 0xffffffff, 0x100000000, (1 << 53) + 1,
            (1 << 64) - 1, 1 << 64, -1]
    nums += [rng.getrandbits(rng.randrange(1, 65)) for _ in range(200 if big else 30)]
    for n in nums:
        for form in ('intsub', 'float', 'decstr', 'decimal', 'fraction') + (('bool',) if n in (0, 1) else ()):
            cs.append(Case('cs_enc_form', 'cs_enc_a %s %d' % (form, n), meta=('cs_enc_a', form, n)))
        e = spec_cs(n)
        if e is not None:
            tail = bytes(rng.randrange(256) for _ in range(rng.randrange(0, 3)))
            for form in ('list', 'bytearray', 'memoryview', 'hexstr'):
                cs.append(Case('cs_dec_form', 'cs_dec_a %s %s' % (form, hx(e + tail)), meta=('cs_dec_a', form, n, len(e))))
    for z in [0, 1, -1, 127, 128, -128, 255, 256, 32767, 32768, -32768, (1 << 31) - 1, 1 << 31, -(1 << 31), (1 << 53) + 1] + \
            [rng.getrandbits(rng.randrange(1, 66)) * rng.choice([1, -1]) for _ in range(200 if big else 30)]:
        for form in ('intsub', 'float', 'decstr', 'decimal', 'fraction') + (('bool',) if z in (0, 1) else ()):
            cs.append(Case('encode_num_form', 'encode_num_a %s %d' % (form, z), meta=('encode_num_a', form, z)))
        if z:
            for form in ('bytearray', 'memoryview', 'hexstr'):
                cs.append(Case('decode_num_form', 'decode_num_a %s %s' % (form, hx(spec_num(z))), meta=('decode_num_a', form, z)))
    for cmds in ([b'ab'], [0x76, 0xa9, b'\x11' * 20, 0x88, 0xac], [0x6a, b'\x42' * 75], [0x6a, b'\x42' * 76], [b'\x07' * 255, 0x75],
                 [b'\x07' * 256, 0x51, b'\x09' * 520], [0x00, b'\x33' * 32]):
        for form in ('bytearray', 'memoryview', 'hexstr'):
            cs.append(Case('serialize_form', 'serialize_a %s %s' % (form, tok_of_cmds(cmds)), meta=('serialize_a', form, cmds)))
    # --- script numbers
    zs = set(range(-(1 << (16 if big else 12)), (1 << (16 if big else 12)) + 1))
    for k in (7, 8, 15, 16, 23, 24, 31, 32, 39, 40, 63, 64):
        for d in range(-3, 4):
            zs.update([(1 << k) + d, -(1 << k) + d])
    for _ in range(50000 if big else 2000):
        zs.add(rng.getrandbits(rng.randrange(1, 72)) * rng.choice([1, -1]))
    for z in sorted(zs):
        cs.append(Case('encode_num', 'encode_num %d' % z, meta=('enc', z)))
        cs.append(Case('decode_num_valid', 'decode_num ' + hx(spec_num(z)), meta=('dec', z)))
    for _ in range(20000 if big else 2000):
        b = bytes(rng.choice([0, 0x80, 0x7f, 0xff, rng.randrange(256)]) for _ in range(rng.randrange(0, 7)))
        cs.append(Case('decode_num_any', 'decode_num ' + hx(b), meta=None))
    # --- pushes
    for n in list(range(0, 522)) + [65534, 65535, 65536, 65537]:
        d = bytes(rng.randrange(256) for _ in range(n))
        cs.append(Case('data_pack', 'data_pack ' + hx(d), meta=('push', d)))
    # --- scripts: exhaustive short command lists over the alphabet, then random longer ones
    alpha = list(OPS) + [rand_data(rng, n) for n in DLENS] + [b'\x51' * 6, b'abcde', G, b'\x01\x02\x03\x04\x05\x06\x07']
    script_cases([], cs)
    for a in alpha:
        script_cases([a], cs)
    for a in alpha:
        for b in alpha:
            script_cases([a, b], cs)
    if big:
        for a in alpha:
            for b in alpha:
                for c in alpha[::2]:
                    script_cases([a, b, c], cs)
    for _ in range(20000 if big else 1500):
        n = rng.randrange(1, 40 if big else 16)
        cmds = []
        for _ in range(n):
            if rng.random() < 0.5:
                cmds.append(rng.choice(OPS) if rng.random() < 0.7 else rng.choice([0] + list(range(0x4f, 256))))
            else:
                ln = rng.choice(DLENS) if rng.random() < 0.7 else rng.randrange(1, 90)
                cmds.append(rand_data(rng, ln))
        script_cases(cmds, cs)
    # standard templates and every single-command / single-byte mutation of them (shortcuts keyed on a prefix,
    # a length or a trailing opcode show up here)
    h20, h32 = rand_data(rng, 20), rand_data(rng, 32)
    templates = [
        [0x76, 0xa9, h20, 0x88, 0xac], [0xa9, h20, 0x87], [0x00, h20], [0x00, h32], [0x51, h32],
        [0x6a, rand_data(rng, 20)], [0x6a, rand_data(rng, 40)], [G, 0xac], [0x51, G, 0x51, 0xae], [0x52, G, G, 0x52, 0xae],
        [0x52, h20, 0xb1, 0x75, 0x76, 0xa9, h20, 0x88, 0xac],
    ]
    sub_ops = [0x00, 0x51, 0x60, 0x6a, 0x75, 0x76, 0x87, 0x88, 0xa9, 0xaa, 0xac, 0xad, 0xae, 0xaf]
    for tpl in templates:
        script_cases(tpl, cs)
        for i in range(len(tpl)):
            for o in sub_ops:
                if tpl[i] != o:
                    script_cases(tpl[:i] + [o] + tpl[i + 1:], cs)
            script_cases(tpl[:i] + tpl[i + 1:], cs)
            script_cases(tpl[:i] + [0x75] + tpl[i:], cs)
            if not isinstance(tpl[i], int):
                for ln in (19, 21, 31, 33):
                    script_cases(tpl[:i] + [rand_data(rng, ln)] + tpl[i + 1:], cs)
        raw = spec_ser(tpl)
        for i in range(len(raw)):
            for v in {raw[i] ^ 1, (raw[i] + 1) % 256, 0x87, 0xad} - {raw[i]}:
                m = raw[:i] + bytes([v]) + raw[i + 1:]
                if data_type(m[1:]) in ('sig', 'key') or any(data_type(m[j:j + 33]) == 'key' for j in range(len(m))):
                    continue
                for entry in ('len', 'half'):
                    cs.append(Case('parse_mutated_' + entry, 'parse %s %s' % (entry, hx(m)), meta=None))
    # scripts of total length exactly 64 / 33 / 65 / 69..74 (whole-script heuristic) and 128/66/130 (parse(bytes))
    for total in (33, 64, 65, 66, 70, 128, 130, 140):
        for first in (0x51, 0x02, 0x04, 0x76):
            # (first byte 0x30 at 69..74 would be signature-shaped: Signature.parse_bytes is an oracle in the model)
            script_cases([first] + [0x51] * (total - 1), cs)
    return cs


def model_req(c):
    """the model takes bytes / integers: an argument-form request is put to it in normalised form"""
    m = c.meta
    if m and m[0] in MAY_REFUSE:
        k = m[0]
        if k in ('varstr_a', 'data_pack_a'):
            return 'cs_enc -1' if m[2] is None else '%s %s' % (k[:-2], hx(m[2]))     # refused text: the model's ERR
        if k in ('cs_enc_a', 'encode_num_a'):
            return '%s %d' % (k[:-2], m[2])
        if k == 'cs_dec_a':
            return 'cs_dec ' + c.req.split(' ')[2]
        if k == 'decode_num_a':
            return 'decode_num ' + c.req.split(' ')[2]
        if k == 'serialize_a':
            return 'serialize ' + c.req.split(' ')[2]
    return c.req.replace('parse hex ', 'parse len ')


def same(c, io, mo):
    m = c.meta
    if m and m[0] in MAY_REFUSE and m[1] in MAY_REFUSE[m[0]] and io == 'ERR':
        return True           # a refusal of a form the helper is not documented for: nothing to compare
    return io == mo


def is_trivial(c, out):
    return out.startswith('ERR') or out == 'BADREQ'


# ---------------------------------------------------------------- property-level verdict on the implementation
def prop_check(c, out):
    m = c.meta
    if out.startswith('CRASH') or out == 'BADREQ' or 'READERS-DIFFER' in out:
        return 'unexpected answer %r' % out[:120]
    if m is None:
        return None
    k = m[0]
    if k in MAY_REFUSE:
        form = m[1]
        if out == 'ERR' and form in MAY_REFUSE[k]:
            return None
        if k == 'varstr_a':
            p = m[2]
            if p is None:
                return None if out == 'ERR' else 'varstr of a text no codec can encode answers %s…' % out[:30]
            if p == b'\x00':
                return None     # encoding.varstr special case, recorded under C06 (single_zero_byte_item)
            if out == 'ERR':
                return 'varstr(%s of %d payload bytes) is refused' % (form, len(p))
            raw = b'' if out == '-' else bytes.fromhex(out)
            r = read_cs_strict(raw)
            if r is None:
                return 'varstr(%s): result %s… does not start with a canonical CompactSize' % (form, out[:20])
            if r[0] != len(r[1]):
                return 'varstr(%s): CompactSize prefix says %d bytes but %d payload bytes follow (%s…)' % (form, r[0], len(r[1]), out[:20])
            if r[1] != p:
                return 'varstr(%s): payload written differs from the normalised argument (%d vs %d bytes)' % (form, len(r[1]), len(p))
            return None
        if k == 'data_pack_a':
            p = m[2]
            e = None if p is None else spec_push(p)
            exp = 'ERR' if e is None else hx(e)
            return None if out == exp else 'data_pack(%s of %d bytes) = %s…, shortest push is %s…' % (form, len(p or b''), out[:12], exp[:12])
        if k == 'cs_enc_a':
            e = spec_cs(m[2])
            if form in ('float',) and float(m[2]) != m[2]:
                return None if out == 'ERR' else 'int_to_varbyteint(float(%d)) = %s: a value that is not the integer was encoded' % (m[2], out)
            exp = 'ERR' if e is None else hx(e)
            return None if out == exp else 'int_to_varbyteint(%s %d) = %s, protocol form is %s' % (form, m[2], out, exp)
        if k == 'cs_dec_a':
            exp = '%d %d' % (m[2], m[3])
            return None if out == exp else 'varbyteint_to_int(%s of the canonical form of %d) gives %s' % (form, m[2], out)
        if k == 'encode_num_a':
            if form in ('float',) and float(m[2]) != m[2]:
                return None if out == 'ERR' else 'encode_num(float(%d)) = %s: a value that is not the integer was encoded' % (m[2], out)
            exp = hx(spec_num(m[2]))
            return None if out == exp else 'encode_num(%s %d) = %s, CScriptNum::serialize gives %s' % (form, m[2], out, exp)
        if k == 'decode_num_a':
            return None if out == str(m[2]) else 'decode_num(%s of encode(%d)) = %s' % (form, m[2], out)
        if k == 'serialize_a':
            e = spec_ser(m[2])
            exp = 'ERR' if e is None else hx(e)
            return None if out == exp else 'Script(%s items).serialize() = %s…, expected %s…' % (form, out[:40], exp[:40])
    if k == 'cs_enc':
        e = spec_cs(m[1])
        exp = 'ERR' if e is None else hx(e)
        return None if out == exp else 'int_to_varbyteint(%d) = %s, protocol form is %s' % (m[1], out, exp)
    if k == 'cs_dec':
        exp = '%d %d' % (m[1], m[2])
        return None if out == exp else 'varbyteint_to_int of the canonical form of %d gives %s' % (m[1], out)
    if k == 'varstr':
        d = m[1]
        e = spec_cs(len(d))
        exp = hx(e + d)
        if d == b'\x00':
            return None     # encoding.varstr special case, recorded under C06 (single_zero_byte_item)
        return None if out == exp else 'varstr of %d bytes = %s…, expected %s…' % (len(d), out[:20], exp[:20])
    if k == 'enc':
        exp = hx(spec_num(m[1]))
        return None if out == exp else 'encode_num(%d) = %s, CScriptNum::serialize gives %s' % (m[1], out, exp)
    if k == 'dec':
        return None if out == str(m[1]) else 'decode_num(encode(%d)) = %s' % (m[1], out)
    if k == 'push':
        p = spec_push(m[1])
        exp = 'ERR' if p is None else hx(p)
        return None if out == exp else 'data_pack of %d bytes = %s…, shortest push is %s…' % (len(m[1]), out[:12], exp[:12])
    if k == 'ser':
        exp = 'ERR' if m[2] is None else hx(m[2])
        return None if out == exp else 'Script(cmds).serialize() = %s…, expected %s…' % (out[:40], exp[:40])
    if k == 'rt':
        cmds, h, entry = m[1], m[2], m[3]
        # canonical items: the empty data item is OP_0
        want = tok_of_cmds([0 if (not isinstance(x, int) and len(x) == 0) else x for x in cmds]) + ' ' + hx(h)
        if out == want:
            return None
        return 'Script.parse[%s](%s…) gives %s…, expected items/bytes %s…' % (entry, hx(h)[:40], out[:60], want[:60])
    return None


def _rt_class(c):
    m = c.meta
    if not m or m[0] != 'rt':
        return None
    cmds, h, entry = m[1], m[2], m[3]
    if any(isinstance(x, int) and 1 <= x <= 0x4e for x in cmds):
        return 'not_wf'
    dl = len(h) // 2 if entry == 'half' else len(h)
    if h and whole_heur(h[0], dl):
        return 'whole_script_heuristic'
    if not inert(cmds):
        return 'subscript_reparse'
    return None


# 'outside_domain' is not a finding: command lists that are not well-formed (e.g. an opcode in the push range given as
# an opcode) are outside the domain the property quantifies over; the class only filters them out of the verdict
DOMAIN_CLASSES = ('outside_domain',)
KNOWN_CLASSES = {
    'whole_script_heuristic': lambda c, io, mo: _rt_class(c) == 'whole_script_heuristic',
    'subscript_reparse': lambda c, io, mo: _rt_class(c) == 'subscript_reparse',
    'outside_domain': lambda c, io, mo: _rt_class(c) == 'not_wf',
}


def reproduce_known(entry, rundir):
    from core import run_impl
    rc, out, err = run_impl(IMPL, [entry['witness']['request']], rundir)
    return len(out) == 1 and out[0] == entry['witness']['impl_answer']


# ---------------------------------------------------------------- extraction cross-check (see core.standard_check 2b)
GOLDEN_HEADER = """From Coq Require Import ZArith List. From Coq.Strings Require Import Byte.
From Verif Require Import Lib.Bytes Model.Wire. Import ListNotations. Open Scope Z_scope."""


def _coq_bytes(h):
    b = b'' if h == '-' else bytes.fromhex(h)
    return '[' + '; '.join('x%02x' % x for x in b) + ']'


def _coq_z(n):
    return '(%d)' % n


def golden(c, mo):
    t = c.req.split(' ')
    if t[0] == 'cs_enc':
        return 'lib_cs_enc %s = %s' % (_coq_z(int(t[1])), 'None' if mo == 'ERR' else 'Some ' + _coq_bytes(mo))
    if t[0] == 'cs_dec' and len(t[1]) <= 40:
        v, k = mo.split(' ')[:2]
        return 'lib_cs_dec %s = (%s, %s%%nat)' % (_coq_bytes(t[1]), _coq_z(int(v)), k)
    if t[0] == 'encode_num':
        return 'lib_encode_num %s = %s' % (_coq_z(int(t[1])), _coq_bytes(mo))
    if t[0] == 'decode_num':
        return 'lib_decode_num %s = %s' % (_coq_bytes(t[1]), _coq_z(int(mo)))
    if t[0] == 'data_pack' and len(t[1]) <= 600:
        return 'lib_data_pack %s = %s' % (_coq_bytes(t[1]), 'None' if mo == 'ERR' else 'Some ' + _coq_bytes(mo))
    return None
