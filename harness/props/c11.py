"""C11 — checksummed text encodings (Base58Check, Bech32/Bech32m) are canonical; corruption is rejected."""
import hashlib, json, os
from core import Case, REPO

PROP = 'C11'
COQ_FILES = ['Proofs/Base58Fixed.v', 'Extract/C11.v', 'Glue/Bech32Glue.v', 'Properties/C11.v']
TIE_FILES = ['Properties/TieEncoding.v']
DRIVER = 'c11'
IMPL = 'harness/impl/c11_impl.py'
ALLOWED_AXIOMS = []
ASSUMPTIONS = [
    'theorems are about coq/Model/Base58.v and coq/Model/Bech32.v (lib_* mirrors encoding.py / keys.py after fixes '
    'C11-1..3, spec_* the Base58Check / BIP173 / BIP350 texts); alphabets, BECH32M_CONST and the network prefix '
    'tables are regenerated from /repo on every run (coq/Gen); _bech32_polymod and convertbits are additionally '
    're-translated from the source text and proved equal to the model functions (coq/Glue/Bech32Glue.v)',
    'tie to /repo: differential correspondence of every lib_* function against the public API on each run',
    'Bech32/Bech32m: decode(encode) identity, accepted => canonical re-encoding, convertbits 8->5->8 and its exact '
    'pad=False rejection condition are theorems for all inputs; the encoder side is stated for the input '
    'convention of pubkeyhash_to_addr_bech32 (enc_input: bare program of 20/32/40 bytes, else header + program; '
    'program lengths 18/30/38 excluded - known finding bech32_enc_header_ambiguity) and under the hypothesis that the produced string has at '
    'most 90 characters; detection theorems cover ONE substituted data-part character and ONE adjacent '
    'transposition of data-part characters (plus mixed case, over-length, foreign character); insertions, '
    'deletions, a data character replaced by the separator, errors in the human-readable part and multi-character '
    'errors are covered by the exhaustive single-edit sweeps (testing) only',
    'Base58Check rejection of corrupted strings rests on a 32-bit hash: the theorem is accept-soundness '
    '(accepted => checksum equals H(H(body))[:4]) for an arbitrary H; the exhaustive single-edit sweeps are testing',
    'the float comparison in change_base (expected_length == len(output)) is not modelled; the run checks on the '
    'interpreter that it is never true for input lengths 1..300000',
    'Key(wif) and Address.parse are checked at property level only (independent oracle), they are not modelled in Coq; of '
    'HDKey(xkey), HDKey.from_wif and bip38_decrypt / Key(enc, password=) / HDKey(enc, password=) the Base58Check guard '
    '(decode, exact length 82 / 43, checksum over everything before the last four bytes) is modelled (Proofs/Base58Fixed.v, '
    'theorems fixed_length_accept_canonical / fixed_length_other_length_refused) and tied one-way: whatever the importer '
    'accepts the modelled guard accepts; version-byte lookup, key validity and decryption are property level only; '
    'addr_bech32_to_pubkeyhash with prefix= / include_witver=False / as_hex and addr_to_pubkeyhash with as_hex / encoding= '
    'are property level only (the model has the include_witver=True form); SHA-256 transcription validated under crypto checks',
]
RULE = ('valid strings of every kind built by an independent encoder (P2PKH/P2SH for every network of networks.json, '
        'bech32 v0 20/32, bech32m v1..16 lengths 2..40, WIF, extended keys for every table prefix, BIP38); for a '
        'sample every single-character substitution at every position (all alphabet alternatives + 0 O I l), '
        'deletion, insertion, adjacent transposition, case changes, leading-character removal/addition, wrong '
        'checksum constant; payload-level constructions through every Base58Check entry point (addresses, Key(wif), HDKey(xkey), '
        'HDKey.from_wif, Key/HDKey(bip38, password), bip38_decrypt): valid payload with bytes appended / prepended / inserted '
        '(checksum recomputed, checksum of the valid part kept, both), one byte short, each checksum byte altered; the Bech32 grid '
        'witness version 0..31 x both constants x program lengths 1..41 through addr_bech32_to_pubkeyhash with every optional '
        'argument, addr_to_pubkeyhash, deserialize_address, Address.parse; a case is non-trivial when the implementation accepts the string; distinct by request')

# ---------------------------------------------------------------- independent oracle (protocol texts)
B58 = '123456789ABCDEFGHJKLMNPQRSTUVWXYZabcdefghijkmnopqrstuvwxyz'
CHARSET = 'qpzry9x8gf2tvdw0s3jn54khce6mua7l'
BECH32M = 0x2bc830a3


def dsha(b):
    return hashlib.sha256(hashlib.sha256(b).digest()).digest()


def o_b58enc(b):
    n = int.from_bytes(b, 'big')
    s = ''
    while n:
        n, r = divmod(n, 58)
        s = B58[r] + s
    return '1' * (len(b) - len(b.lstrip(b'\0'))) + s


def o_b58dec(s):
    """strict: alphabet only; one zero byte per leading '1'; shortest body."""
    n = 0
    for c in s:
        i = B58.find(c)
        if i < 0 or len(c.encode('latin-1', 'replace')) != 1:
            return None
        n = n * 58 + i
    z = len(s) - len(s.lstrip('1'))
    return b'\0' * z + n.to_bytes((n.bit_length() + 7) // 8, 'big')


def o_b58check(payload):
    return o_b58enc(payload + dsha(payload)[:4])


def o_b58check_dec(s):
    b = o_b58dec(s)
    if b is None or len(b) < 4 or dsha(b[:-4])[:4] != b[-4:]:
        return None
    return b[:-4]


def o_polymod(values):
    gen = [0x3b6a57b2, 0x26508e6d, 0x1ea119fa, 0x3d4233dd, 0x2a1462b3]
    chk = 1
    for v in values:
        b = chk >> 25
        chk = ((chk & 0x1ffffff) << 5) ^ v
        for i in range(5):
            if (b >> i) & 1:
                chk ^= gen[i]
    return chk


def o_hrp_expand(h):
    return [ord(x) >> 5 for x in h] + [0] + [ord(x) & 31 for x in h]


def o_regroup(data, frm, to, pad):
    """bit-string regrouping (BIP173 'convertbits'), written on bit strings."""
    if any(v < 0 or v >> frm for v in data):
        return None
    bits = ''.join(format(v, '0%db' % frm) for v in data)
    rem = len(bits) % to
    if pad:
        if rem:
            bits += '0' * (to - rem)
    else:
        if rem >= frm or (rem and '1' in bits[-rem:]):
            return 'ERR'
        bits = bits[:len(bits) - rem]
    return [int(bits[i:i + to], 2) for i in range(0, len(bits), to)]


def o_segwit_enc(hrp, witver, prog):
    data = [witver] + o_regroup(list(prog), 8, 5, True)
    const = 1 if witver == 0 else BECH32M
    pm = o_polymod(o_hrp_expand(hrp) + data + [0] * 6) ^ const
    return hrp + '1' + ''.join(CHARSET[d] for d in data + [(pm >> 5 * (5 - i)) & 31 for i in range(6)])


def o_segwit_dec(s):
    """BIP173/BIP350 segwit address decoding for an arbitrary hrp: (hrp, witver, program) or None."""
    if any(ord(c) < 33 or ord(c) > 126 for c in s) or (s.lower() != s and s.upper() != s):
        return None
    s = s.lower()
    pos = s.rfind('1')
    if pos < 1 or pos + 7 > len(s) or len(s) > 90:
        return None
    if any(c not in CHARSET for c in s[pos + 1:]):
        return None
    hrp, data = s[:pos], [CHARSET.find(c) for c in s[pos + 1:]]
    pm = o_polymod(o_hrp_expand(hrp) + data)
    data = data[:-6]
    if not data:
        return None
    prog = o_regroup(data[1:], 5, 8, False)
    if prog is None or prog == 'ERR' or len(prog) < 2 or len(prog) > 40 or data[0] > 16:
        return None
    if data[0] == 0 and len(prog) not in (20, 32):
        return None
    if pm != (1 if data[0] == 0 else BECH32M):
        return None
    return hrp, data[0], bytes(prog)


_NW = None


def networks():
    global _NW
    if _NW is None:
        _NW = json.load(open(os.path.join(REPO, 'bitcoinlib', 'data', 'networks.json')))
    return _NW


def ver_sets():
    nw = networks()
    p2pkh, p2sh, hrps, wifs, xk = {}, {}, {}, {}, {}
    for name, d in nw.items():
        p2pkh.setdefault(bytes.fromhex(d['prefix_address']), []).append(name)
        p2sh.setdefault(bytes.fromhex(d['prefix_address_p2sh']), []).append(name)
        hrps.setdefault(d['prefix_bech32'], []).append(name)
        wifs.setdefault(bytes.fromhex(d['prefix_wif']), []).append(name)
        for row in d['prefixes_wif']:
            xk.setdefault(bytes.fromhex(row[0]), []).append((name, row[2]))
    return p2pkh, p2sh, hrps, wifs, xk


def hs(s):
    b = s.encode('latin-1') if isinstance(s, str) else bytes(s)
    return b.hex() if b else '-'


def unhs(h):
    return '' if h == '-' else bytes.fromhex(h).decode('latin-1')


def valid_b58_addr(s):
    """(version, hash) when s is the canonical Base58Check form of a 21-byte payload, else None."""
    p = o_b58check_dec(s)
    if p is None or len(p) != 21:
        return None
    return p[:1], p[1:]


# ---------------------------------------------------------------- generators
LOOKALIKES = '0OIl'
G1 = '0279be667ef9dcbbac55a06295ce870b07029bfcdb2dce28d959f2815b16f81798'
G2 = '02c6047f9441ed7d6d3045406e95c07cd85c778e4b8cef3ca7abac09b95c709ee5'
G3 = '02f9308a019258c31049344f85f89d5229b531c845836f99b08601f113bce036f9'
PUBS = {1: G1, 2: G2, 3: G3}
# BIP38 test vectors (no EC multiply, compressed / uncompressed; EC multiply) with their passphrases
BIP38 = [('6PRVWUbkzzsbcVac2qwfssoUJAN1Xhrg6bNk8J7Nzm5H7kxEbn2Nh2ZoGg', 'TestingOneTwoThree'),
         ('6PYNKZ1EAgYgmQfmNVamxyXVWHzK5s6DGhwP4J5o44cvXdoY7sRzhtpUeo', 'TestingOneTwoThree'),
         ('6PfQu77ygVyJLZjfvMLyhLMQbYnu5uguoJJ4kMCLqWwPEdfpwANVS76gTX', 'TestingOneTwoThree')]


def mutants(s, alphabet, rng, full):
    """single-character edits of s: (tag, string)."""
    out = []
    alts = alphabet + ''.join(c for c in LOOKALIKES if c not in alphabet)
    for i, c in enumerate(s):
        cand = [a for a in alts if a != c]
        if not full:
            cand = rng.sample(cand, 3) + [a for a in LOOKALIKES if a != c and a not in alphabet]
            if c.lower() != c.upper():
                cand.append(c.swapcase())
        for a in dict.fromkeys(cand):
            out.append(('sub', s[:i] + a + s[i + 1:]))
        out.append(('del', s[:i] + s[i + 1:]))
        if i + 1 < len(s) and s[i] != s[i + 1]:
            out.append(('swap', s[:i] + s[i + 1] + s[i] + s[i + 2:]))
        for a in (rng.sample(alts, 2) + [c]):
            out.append(('ins', s[:i] + a + s[i:]))
    out.append(('ins', s + rng.choice(alphabet)))
    out.append(('case', s.upper()))
    out.append(('case', s.lower()))
    out.append(('case', s.swapcase()))
    out.append(('case', s[:len(s) // 2] + s[len(s) // 2:].swapcase()))
    out.append(('lead', s[1:]))
    out.append(('lead', s[0] + s))
    out.append(('lead', '1' + s))
    out.append(('lead', s.lstrip('1')))
    out.append(('lead', ' ' + s))
    out.append(('lead', s + ' '))
    return [(t, m) for t, m in out if m != s and all(ord(ch) < 256 for ch in m)]


def rbytes(rng, n):
    return bytes(rng.randrange(256) for _ in range(n))


def payload_forms(P, rng, full):
    """Base58 strings built at PAYLOAD level from the valid payload P (version + data, no checksum), which character
    damage never produces: extra bytes appended / prepended / inserted (checksum recomputed over the whole, checksum of
    the valid part left in place, or both), one byte short, right length with each checksum byte altered."""
    cs = dsha(P)[:4]
    out = []
    junk = [b'\0', b'\1', rbytes(rng, 1), rbytes(rng, 2), rbytes(rng, 4), b'\0' * 4]
    if not full:
        junk = [junk[0], junk[rng.randrange(1, 3)], junk[rng.randrange(3, 6)]]
    for J in junk:
        i = rng.randrange(1, len(P)) if len(P) > 1 else 0
        out += [('app_keepsum', o_b58enc(P + cs + J)), ('app_resum', o_b58check(P + J)),
                ('app_bothsums', o_b58check(P + cs + J)), ('app_sumtwice', o_b58enc(P + J + cs + dsha(P + J)[:4])),
                ('pre_resum', o_b58check(J + P)), ('pre_keepsum', o_b58enc(J + P + cs)),
                ('ins_resum', o_b58check(P[:i] + J + P[i:])), ('ins_keepsum', o_b58enc(P[:i] + J + P[i:] + cs))]
    out += [('short_resum', o_b58check(P[:-1])), ('short_resum', o_b58check(P[1:])), ('short_keepsum', o_b58enc(P[:-1] + cs)),
            ('short_sum', o_b58enc(P + cs[:3])), ('short_sum', o_b58enc(P + cs[1:])), ('no_sum', o_b58enc(P))]
    for j in range(4):
        for x in ((1, 0x80, 0xff) if full else (rng.choice([1, 0x80, 0xff, rng.randrange(1, 256)]),)):
            out.append(('sum_byte%d' % j, o_b58enc(P + cs[:j] + bytes([cs[j] ^ x]) + cs[j + 1:])))
    out += [('sum_other', o_b58enc(P + bytes(4))), ('sum_other', o_b58enc(P + cs[::-1])),
            ('sum_other', o_b58enc(P + hashlib.sha256(P).digest()[:4])), ('sum_other', o_b58enc(P + dsha(P)[-4:])),
            ('sum_other', o_b58enc(P + dsha(P[1:])[:4]))]
    return out


def gen_cases(rng, tier):
    big = tier == 'thorough'
    cs = []
    p2pkh, p2sh, hrps, wifs, xk = ver_sets()

    def add(kind, req, meta):
        cs.append(Case(kind, req, meta=meta))

    def addr_views(s, tag, views=('addr58', 'a2p', 'deser', 'parse')):
        h = hs(s)
        for v in views:
            if v == 'deser':
                add('deser:' + tag, 'deser none ' + h, ('deser', s, None))
            else:
                add(v + ':' + tag, v + ' ' + h, (v, s))

    add('floatguard', 'floatguard 300000', ('floatguard',))

    # --- raw Base58: every payload length 0..40 and 78, 0..8 leading zero bytes
    for n in list(range(0, 41)) + [78, 82]:
        for z in range(0, 9 if n >= 8 else n + 1):
            for _ in range(3 if big else 1):
                b = b'\0' * z + (bytes([rng.randrange(1, 256)]) + rbytes(rng, n - z - 1) if n > z else b'')
                add('b58enc', 'b58enc ' + hs(b), ('b58enc', b))
                s = o_b58enc(b)
                for ml in (0, 25, n, n + 3):
                    add('b58dec', 'b58dec %s %d' % (hs(s), ml), ('b58dec', s, ml))
    for s in ['', '1', '11', '2', 'z', 'I', 'O', '0', 'l', 'i', 'o', '1I', 'I1', '1 ', ' 1', '1\n', '\xe9', 'Z' * 40, '1' * 30,
              '11I1', '1121', 'ab cd', 'AbCd0', '+', '/']:
        for ml in (0, 1, 25):
            add('b58dec', 'b58dec %s %d' % (hs(s), ml), ('b58dec', s, ml))
    for _ in range(3000 if big else 400):
        s = ''.join(rng.choice(B58 + ('0OIl' if rng.random() < 0.3 else '')) for _ in range(rng.randrange(1, 60)))
        if rng.random() < 0.3:
            s = '1' * rng.randrange(1, 5) + s
        add('b58dec', 'b58dec %s %d' % (hs(s), rng.choice([0, 0, 25, 40])), ('b58dec', s, None))

    # --- Base58Check addresses: P2PKH / P2SH on every network
    valid58 = []
    for name, d in networks().items():
        for fld in ('prefix_address', 'prefix_address_p2sh'):
            v = bytes.fromhex(d[fld])
            for j in range(4 if big else 2):
                h = rbytes(rng, 20)
                if j == 1:
                    h = b'\0' * rng.randrange(1, 4) + h[4:] + b'\1' * 4
                    h = h[:20]
                valid58.append(o_b58check(v + h))
                add('enc58', 'enc58 %s %s' % (hs(v), hs(h)), ('enc58', v, h))
    valid58 = list(dict.fromkeys(valid58))
    for s in valid58:
        addr_views(s, 'valid')
        add('deser:valid', 'deser b58 ' + hs(s), ('deser', s, 'b58'))
        add('deser:valid', 'deser bech32 ' + hs(s), ('deser', s, 'bech32'))
        add('reenc:valid', 'reenc ' + hs(s), ('reenc', s))
    # version bytes no network uses, payloads of other lengths (20, 22, 33, 34 bytes), empty payload
    for _ in range(60 if big else 12):
        v = bytes([rng.choice([x for x in range(256) if bytes([x]) not in p2pkh and bytes([x]) not in p2sh])])
        addr_views(o_b58check(v + rbytes(rng, 20)), 'unknown_version')
    for n in (0, 1, 4, 19, 21, 22, 32, 33, 34, 78):
        for v in (b'\x00', b'\x05', b'\x6f', b'\x80'):
            addr_views(o_b58check(v + rbytes(rng, n)), 'other_length')
            addr_views(o_b58check(v + b'\0' * min(n, 3) + rbytes(rng, max(0, n - 3))), 'other_length')
    addr_views(o_b58check(b''), 'other_length')
    # full single-edit sweep for a sample (all views), lighter sweep for the rest
    nfull = 8 if big else 3
    order = sorted(valid58, key=lambda s: (not s.startswith('1'), s))       # make sure leading-'1' addresses are swept
    pick = order[:2] + rng.sample(order[2:], max(0, nfull - 2))
    for s in valid58:
        full = s in pick
        if not full and not big and rng.random() < 0.5:
            continue
        for t, m in mutants(s, B58, rng, full):
            addr_views(m, t, ('addr58', 'a2p', 'deser', 'parse') if full and t != 'ins' else ('deser', rng.choice(['addr58', 'a2p', 'parse'])))
    # multi-character damage
    for _ in range(3000 if big else 300):
        s = list(rng.choice(valid58))
        for _ in range(rng.randrange(2, 5)):
            s[rng.randrange(len(s))] = rng.choice(B58 + LOOKALIKES)
        addr_views(''.join(s), 'multi', ('deser', 'addr58'))

    # payload-level constructions (what no character edit produces) through every address entry point
    pl = [bytes.fromhex(networks()['bitcoin']['prefix_address']) + rbytes(rng, 20),
          bytes.fromhex(networks()['bitcoin']['prefix_address_p2sh']) + rbytes(rng, 20)]
    pl += [o_b58check_dec(x) for x in rng.sample(valid58, 6 if big else 2)]
    for n, P in enumerate(pl):
        for t, m in payload_forms(P, rng, big or n == 0):
            addr_views(m, 'payload_' + t)
            add('a2px:payload_' + t, 'a2px %s %s %s' % (hs(m), rng.choice('-01'), rng.choice(['none', 'b58', 'none'])), ('a2px', m))
            if big or n < 2:
                add('deser:payload_' + t, 'deser b58 ' + hs(m), ('deser', m, 'b58'))
                add('reenc:payload_' + t, 'reenc ' + hs(m), ('reenc', m))

    # --- Bech32 / Bech32m
    valid32 = []
    hrp_list = list(hrps) + ['xyz', 'a', 'b1c', 'bc1']
    for hrp in hrp_list:
        for wv, n in ((0, 20), (0, 32), (1, 32)):
            valid32.append((hrp, wv, rbytes(rng, n)))
    for wv in range(1, 17):
        for n in range(2, 41):
            if big or (wv + n) % 4 == 0 or n in (2, 20, 32, 40) and wv in (1, 2, 16):
                valid32.append((rng.choice(['bc', 'tb', 'ltc']), wv, rbytes(rng, n)))
    valid32.append(('bc', 0, b'\0' * 20))
    valid32.append(('bc', 1, b'\xff' * 32))
    for hrp, wv, prog in valid32:
        s = o_segwit_enc(hrp, wv, prog)
        if len(s) > 90:
            continue
        std = (hrp in hrps) and ((wv == 0) or (wv == 1 and len(prog) == 32))
        tag = 'valid' if std else ('valid_unusual' if hrp in hrps else 'unknown_hrp')
        for v in ('bech32dec', 'a2p', 'parse', 'reenc'):
            add(v + ':' + tag, v + ' ' + hs(s), (v, s))
        add('deser:' + tag, 'deser none ' + hs(s), ('deser', s, None))
        add('deser:' + tag, 'deser bech32 ' + hs(s), ('deser', s, 'bech32'))
        add('deser:' + tag, 'deser b58 ' + hs(s), ('deser', s, 'b58'))
        add('bech32chk', 'bech32chk ' + hs(s), ('bech32chk', s))
        up = s.upper()
        for v in ('bech32dec', 'parse'):
            add(v + ':upper', v + ' ' + hs(up), (v, up))
        add('deser:upper', 'deser none ' + hs(up), ('deser', up, None))
        if len(prog) in (20, 32, 40):
            add('bech32enc', 'bech32enc %s %s %d 1' % (hs(prog), hs(hrp), wv), ('bech32enc', prog, hrp, wv, 1))
        hdr = bytes([0x50 + wv if wv else 0, len(prog)]) + prog
        add('bech32enc_hdr', 'bech32enc %s %s %d 1' % (hs(hdr), hs(hrp), rng.choice([0, wv])), ('bech32enc_hdr', prog, hrp, wv))
        # wrong checksum constant / wrong variant
        data = [wv] + o_regroup(list(prog), 8, 5, True)
        for const in (BECH32M if wv == 0 else 1, 0, 2, BECH32M ^ 1):
            pm = o_polymod(o_hrp_expand(hrp) + data + [0] * 6) ^ const
            w = hrp + '1' + ''.join(CHARSET[d] for d in data + [(pm >> 5 * (5 - i)) & 31 for i in range(6)])
            add('bech32dec:wrong_const', 'bech32dec ' + hs(w), ('bech32dec', w))
            add('deser:wrong_const', 'deser none ' + hs(w), ('deser', w, None))
    # invalid program shapes with a correct checksum: v0 with other lengths, 1 / 41 bytes, version 17..31, bad padding
    for _ in range(400 if big else 80):
        wv = rng.choice([0, 0, 1, 17, 31, rng.randrange(32)])
        n = rng.choice([0, 1, 19, 21, 31, 33, 41, 42, rng.randrange(0, 45)])
        data = [wv] + o_regroup(list(rbytes(rng, n)), 8, 5, True)
        if rng.random() < 0.4 and len(data) > 1:
            data[-1] |= 1                               # non-zero padding bits (when there are any)
        if rng.random() < 0.2:
            data.append(0)                              # a whole extra padding group
        hrp = 'bc'
        const = rng.choice([1, BECH32M])
        pm = o_polymod(o_hrp_expand(hrp) + data + [0] * 6) ^ const
        w = hrp + '1' + ''.join(CHARSET[d] for d in data + [(pm >> 5 * (5 - i)) & 31 for i in range(6)])
        if len(w) <= 95:
            add('bech32dec:shape', 'bech32dec ' + hs(w), ('bech32dec', w))
            add('deser:shape', 'deser none ' + hs(w), ('deser', w, None))
    # the whole grid witness version 0..31 x both checksum constants x program length 1..41, through every entry point and
    # every optional argument (include_witver, prefix=, as_hex; addr_to_pubkeyhash with and without encoding=)
    lens = list(range(1, 42)) if big else [1, 2, 20, 32, 40, 41]
    for wv in range(32):
        for const in (1, BECH32M):
            for n in lens + ([] if big else [rng.randrange(3, 40), rng.randrange(3, 40)]):
                hrp = rng.choice(['bc', 'bc', 'tb', 'ltc'])
                data = [wv] + o_regroup(list(rbytes(rng, n)), 8, 5, True)
                pm = o_polymod(o_hrp_expand(hrp) + data + [0] * 6) ^ const
                w = hrp + '1' + ''.join(CHARSET[d] for d in data + [(pm >> 5 * (5 - i)) & 31 for i in range(6)])
                if len(w) > 92:
                    continue
                if rng.random() < 0.15:
                    w = w.upper()
                h = hs(w)
                combos = [(iw, ah) for iw in '-01' for ah in '-01']
                for iw, ah in (combos if big else [('-', '-'), ('0', rng.choice('01')), ('1', rng.choice('-01')), rng.choice(combos)]):
                    pfx = rng.choice(['-', '-', hrp, hrp, 'bc', 'tb'])
                    add('b32:grid', 'b32 %s %s %s %s' % (h, hs(pfx) if pfx != '-' else '-', iw, ah), ('b32', w))
                add('a2px:grid', 'a2px %s %s none' % (h, rng.choice('-01')), ('a2px', w))
                add('a2px:grid', 'a2px %s %s bech32' % (h, rng.choice('-01')), ('a2px', w))
                add('a2p:grid', 'a2p ' + h, ('a2p', w))
                add('bech32dec:grid', 'bech32dec ' + h, ('bech32dec', w))
                add('deser:grid', 'deser none ' + h, ('deser', w, None))
                add('deser:grid', 'deser bech32 ' + h, ('deser', w, 'bech32'))
                add('parse:grid', 'parse ' + h, ('parse', w))
    for w in ['', '1', 'bc1', '1qqqqqq', 'bc1qqqqqq', 'bc1' + 'q' * 88, 'bc1' + 'q' * 87, '\x7f1qqqqqqq', ' bc1qqqqqqq',
              'bc1qw508d6qejxtdg4y5r3zarvary0c5xw7kv8f3t4 ', 'bc1QW508d6qejxtdg4y5r3zarvary0c5xw7kv8f3t4']:
        add('bech32dec:shape', 'bech32dec ' + hs(w), ('bech32dec', w))
        add('deser:shape', 'deser none ' + hs(w), ('deser', w, None))
    # single-edit sweeps
    std32 = [o_segwit_enc(h, w, p) for h, w, p in valid32 if h in hrps]
    pick = [std32[0], std32[2]] + rng.sample(std32, (6 if big else 2))
    for s in pick:
        for t, m in mutants(s, CHARSET, rng, True):
            add('bech32dec:' + t, 'bech32dec ' + hs(m), ('bech32dec', m))
            add('deser:' + t, 'deser none ' + hs(m), ('deser', m, None))
            if t in ('sub', 'case', 'lead'):
                add('a2p:' + t, 'a2p ' + hs(m), ('a2p', m))
    for s in rng.sample(std32, min(len(std32), 60 if big else 12)):
        for t, m in mutants(s, CHARSET, rng, False):
            add('deser:' + t, 'deser none ' + hs(m), ('deser', m, None))
    for _ in range(2000 if big else 200):
        s = list(rng.choice(std32))
        for _ in range(rng.randrange(2, 5)):
            s[rng.randrange(len(s))] = rng.choice(CHARSET + '1bio')
        add('deser:multi', 'deser none ' + hs(''.join(s)), ('deser', ''.join(s), None))

    # --- convertbits
    for n in range(0, 45):
        d = list(rbytes(rng, n))
        add('convertbits', 'convertbits 8 5 1 ' + (','.join(map(str, d)) or '-'), ('cb', d, 8, 5, True))
        d5 = o_regroup(d, 8, 5, True)
        add('convertbits', 'convertbits 5 8 0 ' + (','.join(map(str, d5)) or '-'), ('cb', d5, 5, 8, False))
    for _ in range(2000 if big else 300):
        d = [rng.randrange(32) for _ in range(rng.randrange(0, 70))]
        add('convertbits', 'convertbits 5 8 0 ' + (','.join(map(str, d)) or '-'), ('cb', d, 5, 8, False))
    for d, f, t, p in (([32], 5, 8, False), ([-1], 5, 8, False), ([256], 8, 5, True), ([1, 2, 300, 4], 8, 5, True)):
        add('convertbits', 'convertbits %d %d %d %s' % (f, t, p, ','.join(map(str, d))), ('cb', d, f, t, p))

    # --- WIF private keys through Key(...)   (property level only)
    wif_valid = []
    for v, names in wifs.items():
        for comp in (True, False):
            k = rbytes(rng, 32)
            wif_valid.append(o_b58check(v + k + (b'\1' if comp else b'')))
    for s in wif_valid:
        add('key:valid', 'key ' + hs(s), ('key', s))
    for s in rng.sample(wif_valid, len(wif_valid) if big else 3):
        for t, m in mutants(s, B58, rng, big and s == wif_valid[0]):
            add('key:' + t, 'key ' + hs(m), ('key', m))
    # valid Base58Check strings that are not WIF keys: unknown version, other lengths
    for _ in range(40 if big else 10):
        v = rng.choice(list(wifs))
        add('key:other_length', 'key ' + hs(o_b58check(v + rbytes(rng, rng.choice([31, 33, 34, 35])))), ('key', None))

    for n, s in enumerate(rng.sample(wif_valid, len(wif_valid) if big else 3) + [wif_valid[0], wif_valid[1]]):
        for t, m in payload_forms(o_b58check_dec(s), rng, big or n == 0):
            add('key:payload_' + t, 'key ' + hs(m), ('key', m))

    # --- extended keys through HDKey(...) and HDKey.from_wif(...)   (property level only)
    xk_valid = []
    for v, rows in xk.items():
        priv = rows[0][1] == 'private'
        sec = rng.choice([1, 2, 3])
        keyb = (b'\0' + sec.to_bytes(32, 'big')) if priv else bytes.fromhex(PUBS[sec])
        depth = rng.randrange(0, 6)
        payload = v + bytes([depth]) + (rbytes(rng, 4) if depth else b'\0' * 4) + \
            (rng.randrange(1 << 32) if depth else 0).to_bytes(4, 'big') + rbytes(rng, 32) + keyb
        xk_valid.append(o_b58check(payload))
    for s in xk_valid:
        add('hdkey:valid', 'hdkey ' + hs(s), ('hdkey', s))
        add('hdfromwif:valid', 'hdfromwif ' + hs(s), ('hdfromwif', s))
    for s in rng.sample(xk_valid, len(xk_valid) if big else 3):
        ms = mutants(s, B58, rng, False)
        if not big:
            ms = [x for x in ms if x[0] in ('case', 'lead')] + rng.sample(ms, 250)
        for t, m in ms:
            v = rng.choice(['hdkey', 'hdfromwif'])
            add(v + ':' + t, v + ' ' + hs(m), (v, m))
        # damage confined to the checksum characters
        for a in rng.sample(B58, 6):
            if a != s[-1]:
                for v in ('hdkey', 'hdfromwif'):
                    add(v + ':sub_tail', v + ' ' + hs(s[:-1] + a), (v, s[:-1] + a))

    btc = [x for x in xk_valid if o_b58check_dec(x)[:4] in (bytes.fromhex('0488ade4'), bytes.fromhex('0488b21e'))]
    for n, s in enumerate(btc[:2] + rng.sample(xk_valid, len(xk_valid) if big else 2)):
        for t, m in payload_forms(o_b58check_dec(s), rng, big or n < 2):
            for v in ('hdkey', 'hdfromwif'):
                add(v + ':payload_' + t, v + ' ' + hs(m), (v, m))

    # --- BIP38 strings at payload level: Key(s, password=), HDKey(s, password=) and bip38_decrypt(s, password) itself
    for n, (s, pw) in enumerate(BIP38[: (3 if big else 2)]):
        if big or n == 1:
            add('bip38fn:valid', 'bip38fn %s %s' % (hs(s), hs(pw)), ('bip38fn', s))
        if n == 1:
            add('bip38hd:valid', 'bip38hd %s %s' % (hs(s), hs(pw)), ('bip38hd', s))
        for t, m in payload_forms(o_b58check_dec(s), rng, big or n == 1):
            for v in ('bip38', 'bip38fn', 'bip38hd'):
                add(v + ':payload_' + t, '%s %s %s' % (v, hs(m), hs(pw)), (v, m))

    # --- BIP38 strings (property level only; scrypt makes each call slow)
    for s, pw in BIP38[: (3 if big else 2)]:
        add('bip38:valid', 'bip38 %s %s' % (hs(s), hs(pw)), ('bip38', s))
        for a in rng.sample(B58, 3 if big else 2):
            if a != s[-1]:
                add('bip38:sub_tail', 'bip38 %s %s' % (hs(s[:-1] + a), hs(pw)), ('bip38', s[:-1] + a))
        i = rng.randrange(2, len(s) - 6)
        m = s[:i] + rng.choice([a for a in B58 if a != s[i]]) + s[i + 1:]
        add('bip38:sub', 'bip38 %s %s' % (hs(m), hs(pw)), ('bip38', m))
    return cs


MODELLED = ('b58enc', 'b58dec', 'addr58', 'a2p', 'enc58', 'deser', 'bech32dec', 'bech32enc', 'bech32chk',
            'convertbits')
# Which variant of the code the model mirrors (switches of coq/Model/Base58.v, Bech32.v):
#   fold=0 (fix C11-1: no lower-casing retry), canon=1 (fix C11-2: canonical form + length), lowpfx=1 (fix C11-7),
#   p2tr_any = fixes/C05-1 merged? (deserialize_address reports 'p2tr' for every v1..16 program) -- detected from
#   the source text so that the check is green before and after that independent patch is merged.
def _p2tr_any():
    try:
        src = open(os.path.join(REPO, 'bitcoinlib', 'keys.py'), encoding='utf8').read()
    except OSError:
        return False
    i = src.find("witness_type = 'segwit' if not witver else 'taproot'")
    return i >= 0 and 'if witver:' in src[i:i + 200]


FLAGS = {'b58dec': '0', 'addr58': '0 1', 'a2p': '0 1', 'deser': '0 1 1 ' + ('1' if _p2tr_any() else '0')}


# importers whose Base58Check guard is modelled (Proofs/Base58Fixed.v lib_fixed_check): decoded length the guard demands
FIXED_LEN = {'hdkey': 82, 'hdfromwif': 82, 'bip38': 43, 'bip38fn': 43, 'bip38hd': 43}


def model_req(c):
    t = c.req.split(' ')
    if t[0] in FIXED_LEN:
        return 'fixedchk %d %s' % (FIXED_LEN[t[0]], t[1])
    if t[0] not in MODELLED:
        return 'skip'
    if t[0] in FLAGS:
        return ' '.join([t[0], FLAGS[t[0]]] + t[1:])
    return c.req


def same(c, io, mo):
    k = c.req.split(' ')[0]
    if k in FIXED_LEN:
        # the importer does more than the guard (version bytes, key validity, decryption): it may refuse what the guard
        # lets through, but whatever it accepts the modelled guard accepts, and the key it holds is in the guarded payload
        if io.startswith('ERR'):
            return True
        return mo.startswith('OK ') and (k.startswith('bip38') or io.split(' ')[2] in mo)
    if k not in MODELLED:
        return True
    return io == mo


def is_trivial(c, out):
    return out.startswith('ERR') or out in ('BADREQ', '-')


# ---------------------------------------------------------------- property-level verdict on the implementation
def _parse_info(out):
    t = out.split(' ')
    d = {'encoding': t[0]}
    for kv in t[1:]:
        k, _, v = kv.partition('=')
        d[k] = v
    return d


def _expect_addr(s, enc=None):
    """what the property says about string s as an address: dict or None (must be rejected)."""
    p2pkh, p2sh, hrps, wifs, xk = ver_sets()
    if enc in (None, 'b58'):
        a = valid_b58_addr(s)
        if a is not None:
            v, h = a
            if v in p2sh:
                return dict(encoding='base58', pfx=v, pkh=h, st='p2sh', nets=p2sh[v], wv='None', canon=s)
            if v in p2pkh:
                return dict(encoding='base58', pfx=v, pkh=h, st='p2pkh', nets=p2pkh[v], wv='None', canon=s)
            return None
    if enc in (None, 'bech32'):
        r = o_segwit_dec(s)
        if r is not None and r[0] in hrps:
            hrp, wv, prog = r
            return dict(encoding='bech32', pfx=hrp.encode(), pkh=prog, st=None, nets=hrps[hrp], wv=str(wv),
                        canon=s.lower())
    return None


def _meta(c):
    """meta of a case; rebuilt from the request line for replayed cases (which carry none)."""
    if c.meta is not None:
        return c.meta
    t = c.req.split(' ')
    k = t[0]
    try:
        if k == 'floatguard':
            return ('floatguard',)
        if k == 'b58enc':
            return ('b58enc', b'' if t[1] == '-' else bytes.fromhex(t[1]))
        if k == 'b58dec':
            return ('b58dec', unhs(t[1]), int(t[2]))
        if k in ('addr58', 'a2p', 'bech32dec', 'bech32chk', 'parse', 'reenc', 'hdkey', 'hdfromwif', 'bip38', 'bip38fn', 'bip38hd',
                 'b32', 'a2px'):
            return (k, unhs(t[1]))
        if k == 'key':
            return ('key', None if c.kind == 'key:other_length' else unhs(t[1]))
        if k == 'deser':
            return ('deser', unhs(t[2]), None if t[1] == 'none' else t[1])
        if k == 'enc58':
            return ('enc58', bytes.fromhex(t[1]), b'' if t[2] == '-' else bytes.fromhex(t[2]))
        if k == 'convertbits':
            return ('cb', [] if t[4] == '-' else [int(x) for x in t[4].split(',')], int(t[1]), int(t[2]), t[3] == '1')
        if k == 'bech32enc':
            b = b'' if t[1] == '-' else bytes.fromhex(t[1])
            if c.kind == 'bech32enc_hdr':
                return ('bech32enc_hdr', b[2:], unhs(t[2]), b[0] - 0x50 if b[0] else 0)
            return ('bech32enc', b, unhs(t[2]), int(t[3]), int(t[4]))
    except Exception:
        return None
    return None


def prop_check(c, out):
    m = _meta(c)
    if out.startswith('CRASH') or out == 'BADREQ':
        return 'unexpected answer %r' % out[:120]
    if m is None:
        return None
    k = m[0]
    acc = not out.startswith('ERR')
    if k == 'floatguard':
        return None if out == '-' else 'change_base float guard can fire for lengths ' + out[:80]
    if k == 'b58enc':
        exp = hs(o_b58enc(m[1]))
        return None if out == exp else 'base58encode(%s) = %s, expected %s' % (m[1].hex(), unhs(out), unhs(exp))
    if k == 'b58dec':
        s, ml = m[1], int(c.req.split(' ')[2])
        b = o_b58dec(s)
        if not acc:
            return None
        if b is None:
            return 'change_base accepts %r, which is not a base58 string' % s
        exp = b.rjust(ml, b'\0')
        return None if out == hs(exp) else 'change_base(%r, 58, 256, %d) = %s, the strict decoding is %s' % (s, ml, out, hs(exp))
    if k == 'enc58':
        exp = hs(o_b58check(m[1] + m[2]))
        return None if out == exp else 'pubkeyhash_to_addr_base58 gives %s, Base58Check form is %s' % (unhs(out), unhs(exp))
    if k == 'addr58':
        a = valid_b58_addr(m[1])
        if acc:
            if a is None:
                return 'addr_base58_to_pubkeyhash accepts %r, not the canonical Base58Check form of a 21-byte payload' % m[1]
            return None if out == hs(a[1]) else 'addr_base58_to_pubkeyhash(%r) = %s, payload is %s' % (m[1], out, a[1].hex())
        return None if a is None else 'valid address %r rejected (%s)' % (m[1], out)
    if k == 'a2p':
        a = valid_b58_addr(m[1])
        r = o_segwit_dec(m[1])
        if acc:
            if a is not None:
                return None if out == hs(a[1]) else 'addr_to_pubkeyhash(%r) = %s' % (m[1], out)
            if r is not None:
                return None if out == hs(r[2]) else 'addr_to_pubkeyhash(%r) = %s' % (m[1], out)
            return 'addr_to_pubkeyhash accepts %r, neither canonical Base58Check(21 bytes) nor a valid segwit address' % m[1]
        # A valid segwit address of an unusual program length whose characters all lie in the base58 alphabet and
        # decode to 25 bytes is refused with the AssertionError of the base58 path (no fall-through to bech32):
        # refusing a valid string is outside C11's statement; only the standard kinds must be accepted here.
        std = a is not None or (r is not None and (r[1] == 0 or (r[1] == 1 and len(r[2]) == 32)))
        return None if not std else 'valid address %r rejected (%s)' % (m[1], out)
    if k == 'bech32dec':
        r = o_segwit_dec(m[1])
        if acc:
            if r is None:
                return 'addr_bech32_to_pubkeyhash accepts %r, invalid by BIP173/BIP350' % m[1]
            exp = bytes([0x50 + r[1] if r[1] else 0, len(r[2])]) + r[2]
            return None if out == hs(exp) else 'addr_bech32_to_pubkeyhash(%r) = %s, expected %s' % (m[1], out, exp.hex())
        return None if r is None else 'valid segwit address %r rejected' % m[1]
    if k in ('b32', 'a2px'):
        t = c.req.split(' ')
        s = m[1]
        r = o_segwit_dec(s)
        if k == 'b32':
            pfx, iw, ah = (None if t[2] == '-' else unhs(t[2])), t[3] == '1', t[4] == '1'
            what = 'addr_bech32_to_pubkeyhash(%r, prefix=%r, include_witver=%s, as_hex=%s)' % (s, pfx, t[3], t[4])
            if pfx is not None and r is not None and pfx != r[0]:
                r = None                       # a valid address of another human-readable part than the one asked for
            exp = None if r is None else ((bytes([0x50 + r[1] if r[1] else 0, len(r[2])]) if iw else b'') + r[2])
        else:
            ah, enc = t[2] == '1', t[3]
            what = 'addr_to_pubkeyhash(%r, as_hex=%s, encoding=%s)' % (s, t[2], enc)
            a = valid_b58_addr(s) if enc in ('none', 'b58') else None
            exp = a[1] if a is not None else (r[2] if (r is not None and enc in ('none', 'bech32')) else None)
        if not acc:
            std = exp is not None and (r is None or r[1] == 0 or (r[1] == 1 and len(r[2]) == 32))
            return None if not std else 'valid address rejected: %s = %s' % (what, out)
        if exp is None:
            return '%s accepts a string that is not a valid, canonical address (witness version 0..16, program 2..40 bytes, ' \
                   'v0: 20/32, Bech32 for v0 and Bech32m otherwise): %s' % (what, out[:90])
        want = 'OK %s %s' % ('str' if ah else 'bytes', exp.hex())
        return None if out == want else '%s = %s, expected %s' % (what, out[:100], want[:100])
    if k == 'bech32chk':
        s = m[1].lower()
        pos = s.rfind('1')
        exp = o_polymod(o_hrp_expand(s[:pos]) + [CHARSET.find(ch) for ch in s[pos + 1:]])
        return None if out == str(exp) else 'addr_bech32_checksum = %s, expected %d' % (out, exp)
    if k == 'cb':
        exp = o_regroup(m[1], m[2], m[3], m[4])
        exp = 'None' if exp is None else ('ERR' if exp == 'ERR' else (','.join(map(str, exp)) or '-'))
        return None if out == exp else 'convertbits(%s.., %d, %d, pad=%s) = %s, expected %s' % (m[1][:6], m[2], m[3], m[4], out[:40], exp[:40])
    if k in ('bech32enc', 'bech32enc_hdr'):
        prog, hrp, wv = m[1], m[2], m[3]
        ok_shape = 0 <= wv <= 16 and 2 <= len(prog) <= 40 and (wv != 0 or len(prog) in (20, 32))
        if not ok_shape:
            return None
        exp = o_segwit_enc(hrp, wv, prog)
        if not acc:
            return None
        return None if out == hs(exp) else 'pubkeyhash_to_addr_bech32 gives %s for v%d/%d bytes, BIP350 form is %s' % (unhs(out), wv, len(prog), exp)
    if k == 'deser':
        s, enc = m[1], m[2]
        e = _expect_addr(s, enc)
        if not acc:
            if e is None:
                return None
            if enc is None or e['encoding'] == ('base58' if enc == 'b58' else 'bech32'):
                return 'valid address %r rejected by deserialize_address (%s)' % (s, out)
            return None
        if e is None:
            return 'deserialize_address accepts %r: not a canonical, correctly checksummed encoding with a known prefix (%s)' % (s, out[:90])
        d = _parse_info(out)
        bad = []
        if d['encoding'] != e['encoding']:
            bad.append('encoding')
        if d['pkh'] != hs(e['pkh']):
            bad.append('hash')
        if d['pfx'].lower() != hs(e['pfx']).lower() and unhs(d['pfx']).lower() != e['pfx'].decode('latin-1'):
            bad.append('prefix')
        if d['net'] not in e['nets']:
            bad.append('network=%s' % d['net'])
        if d['wv'] != e['wv']:
            bad.append('witver')
        if e['st'] and d['st'] != e['st']:
            bad.append('script_type')
        return None if not bad else 'deserialize_address(%r) reports wrong %s (%s)' % (s, ','.join(bad), out[:90])
    if k in ('parse', 'reenc'):
        s = m[1]
        e = _expect_addr(s)
        if not acc:
            if e is None:
                return None
            r = o_segwit_dec(s)
            unusual = r is not None and not ((r[1] == 0) or (r[1] == 1 and len(r[2]) == 32))
            if unusual or s != e['canon']:
                return None          # refusing a valid but unusual / upper-case form is not a C11 failure
            return 'valid address %r rejected by %s (%s)' % (s, k, out)
        if e is None:
            return '%s accepts %r: not a canonical, correctly checksummed encoding with a known prefix' % (k, s)
        got = unhs(out.split(' ')[1])
        return None if got == e['canon'] else '%s(%r) re-encodes to %r' % (k, s, got)
    if k == 'key':
        s = m[1]
        if s is None:
            return None if not acc else 'Key() accepts a Base58Check string whose payload is not 33/34 bytes (%s)' % out[:60]
        p = o_b58check_dec(s)
        wifs = ver_sets()[3]
        ok = p is not None and p[:1] in wifs and (len(p) == 33 or (len(p) == 34 and p[-1] == 1))
        if acc and not ok:
            # a damaged WIF may still be a valid key in another textual format (never for these alphabets)
            return 'Key() accepts %r, which is not a canonical WIF with correct checksum' % s
        if acc:
            t = out.split(' ')
            if unhs(t[1]) != s or t[2] != p[1:33].hex():
                return 'Key(%r) re-exports %r / key %s' % (s, unhs(t[1]), t[2])
            return None
        # without a network argument a version shared by several non-default networks is refused (ambiguous)
        clear = ok and any(n in ('bitcoin', 'testnet') for n in wifs[p[:1]])
        return None if not clear else 'valid WIF %r rejected (%s)' % (s, out)
    if k in ('hdkey', 'hdfromwif'):
        s = m[1]
        p = o_b58check_dec(s)
        xk = ver_sets()[4]
        ok = p is not None and len(p) == 78 and p[:4] in xk
        if acc and not ok:
            return '%s accepts %r, which is not a canonical extended key with correct checksum' % (k, s[:20] + '..' + s[-8:])
        if acc:
            t = out.split(' ')
            kb = p[46:78].hex() if p[45] == 0 else p[45:78].hex()
            if t[2] != kb:
                return '%s(%r) holds key %s' % (k, s[:16] + '..', t[2])
            return None
        clear = ok and any(n in ('bitcoin', 'testnet') for n, _ in xk[p[:4]])
        return None if not clear else 'valid extended key %r rejected (%s)' % (s[:16] + '..', out)
    if k in ('bip38', 'bip38fn', 'bip38hd'):
        p = o_b58check_dec(m[1])
        ok = p is not None and len(p) == 39 and p[:2] in (b'\x01\x42', b'\x01\x43')
        if acc and not ok:
            return '%s accepts %r, which is not the Base58Check form of a 39-byte BIP38 payload with a correct checksum' % (
                {'bip38': 'Key(s, password=)', 'bip38fn': 'bip38_decrypt', 'bip38hd': 'HDKey(s, password=)'}[k], m[1])
        return None
    return None


# ---------------------------------------------------------------- known classes (decided from the case alone)
def _cls(c):
    m = _meta(c)
    if not m:
        return None
    k = m[0]
    p2pkh, p2sh, hrps, wifs, xk = ver_sets()
    if k == 'deser':
        s = m[1]
        a = valid_b58_addr(s) if m[2] in (None, 'b58') else None
        if a is not None and a[0] not in p2pkh and a[0] not in p2sh:
            return 'unknown_prefix_accepted'
        r = o_segwit_dec(s) if (m[2] in (None, 'bech32') and a is None) else None
        if r is not None and r[0] not in hrps:
            return 'unknown_prefix_accepted'
    if k in ('parse', 'reenc'):
        r = o_segwit_dec(m[1])
        if r is not None and r[0] in hrps and len(r[2]) not in (20, 32, 40):
            return 'bech32_enc_header_ambiguity'
        a = valid_b58_addr(m[1])
        if k == 'reenc' and ((a is not None and a[0] not in p2pkh and a[0] not in p2sh) or
                             (a is None and r is not None and r[0] not in hrps)):
            return 'unknown_prefix_accepted'      # reenc goes through deserialize_address
    if k == 'bech32enc_hdr' and len(m[1]) in (18, 30, 38):
        return 'bech32_enc_header_ambiguity'
    return None


KNOWN_CLASSES = {
    'unknown_prefix_accepted': lambda c, io, mo: _cls(c) == 'unknown_prefix_accepted',
    'bech32_enc_header_ambiguity': lambda c, io, mo: _cls(c) == 'bech32_enc_header_ambiguity',
}


def reproduce_known(entry, rundir):
    from core import run_impl
    rc, out, err = run_impl(IMPL, [entry['witness']['request']], rundir)
    return len(out) == 1 and out[0] == entry['witness']['impl_answer']
