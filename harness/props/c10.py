"""C10 — multisig cosigner wallets agree on scripts; exactly m distinct signers suffice."""
import hashlib, hmac, itertools
from core import Case

PROP = 'C10'
COQ_FILES = ['Extract/C10.v', 'Properties/C10.v']
DRIVER = 'c10'
IMPL = 'harness/impl/c10_impl.py'
ALLOWED_AXIOMS = []
IMPL_TIMEOUT = 6000
ASSUMPTIONS = [
    'theorems are about coq/Model/Multisig.v: lib_cosigner_order / lib_wallet_redeemscript / lib_script_hash mirror '
    'Wallet.create and Wallet._new_key_multisig; ms_sign_input / ms_verify_run / ms_channel mirror Transaction.sign, '
    'Input.verify (with its public_key side effect), Input.__init__ (signature de-duplication) and the three hand-off '
    'channels transaction_import(object), transaction_import(as_dict()), transaction_import_raw(raw_hex())',
    'tie to /repo: differential correspondence on every run with REAL cosigner wallets (one sqlite file each, network '
    'bitcoinlib_test); the cosigners\' master and child public keys given to the model are derived in the harness '
    'with its own BIP32 (hmac + pure-Python secp256k1), not by the library',
    'a signature of participant b is valid exactly for the key of participant b (cosigner keys pairwise distinct); '
    'Input.verify\'s "try previous signature" branch is dead under that assumption and is not modelled; ECDSA '
    'unforgeability is not claimed',
    'address strings: the model yields the script hash; Base58Check / Bech32 text encoding of it is done by the harness '
    '(hashlib) and is the subject of C11/C05',
    'Python object identity is not modelled: a Signature object that the fall-back loop of Transaction.sign places into two '
    'positions shares its public_key attribute; the tags of such duplicated signatures are excluded from the comparison',
    'sha256 / hash160 in the extracted model are the executable Gallina transcriptions of Crypto/ (validated against '
    'hashlib by the crypto self-test); same_address_all_cosigners is proved for arbitrary hash functions',
]
RULE = ('every m-of-n (n <= 3 quick, n <= 5 thorough), three wallet kinds, every cosigner holding its own private key '
        'in its own wallet, supplied-key permutations (exhaustive agreement cases n <= 3), signing orders x hand-off '
        'chains over {object, dict, raw} (sampled quick, exhaustive n <= 3 thorough), 1 and 2 inputs, repeated signers, '
        'unsigned hand-off, sort_keys off; a ceremony is non-trivial when all wallets were created and at least one '
        'observation was produced; distinct by request')

NET_P2SH = 0x95
NET_HRP = 'blt'
COIN = 9999999
KINDS = {'L': 'legacy', 'P': 'p2sh-segwit', 'S': 'segwit'}

# ---------------------------------------------------------------- independent secp256k1 / BIP32 / encoders
P = 2 ** 256 - 2 ** 32 - 977
N = 0xFFFFFFFFFFFFFFFFFFFFFFFFFFFFFFFEBAAEDCE6AF48A03BBFD25E8CD0364141
G = (0x79BE667EF9DCBBAC55A06295CE870B07029BFCDB2DCE28D959F2815B16F81798,
     0x483ADA7726A3C4655DA4FBFC0E1108A8FD17B448A68554199C47D08FFB10D4B8)


def _add(a, b):
    if a is None:
        return b
    if b is None:
        return a
    if a[0] == b[0]:
        if (a[1] + b[1]) % P == 0:
            return None
        l = 3 * a[0] * a[0] * pow(2 * a[1], -1, P) % P
    else:
        l = (b[1] - a[1]) * pow(b[0] - a[0], -1, P) % P
    x = (l * l - a[0] - b[0]) % P
    return (x, (l * (a[0] - x) - a[1]) % P)


def _mul(k, pt=G):
    r = None
    while k:
        if k & 1:
            r = _add(r, pt)
        pt = _add(pt, pt)
        k >>= 1
    return r


def pub_of(d):
    x, y = _mul(d)
    return bytes([2 + (y & 1)]) + x.to_bytes(32, 'big')


def bip32_master(seed):
    i = hmac.new(b'Bitcoin seed', seed, hashlib.sha512).digest()
    return int.from_bytes(i[:32], 'big'), i[32:]


def bip32_ckd(d, c, idx, hard):
    if hard:
        data = b'\0' + d.to_bytes(32, 'big') + (idx + 0x80000000).to_bytes(4, 'big')
    else:
        data = pub_of(d) + idx.to_bytes(4, 'big')
    i = hmac.new(c, data, hashlib.sha512).digest()
    return (int.from_bytes(i[:32], 'big') + d) % N, i[32:]


def derive(seed, path):
    d, c = bip32_master(seed)
    for (idx, hard) in path:
        d, c = bip32_ckd(d, c, idx, hard)
    return pub_of(d)


def account_path(kind):
    if kind == 'L':
        return [(45, True)]
    return [(48, True), (COIN, True), (0, True), (1 if kind == 'P' else 2, True)]


def child_path(kind, cpath, idx):
    if kind == 'L':
        return [(45, True), (cpath, False), (0, False), (idx, False)]
    return account_path(kind) + [(0, False), (idx, False)]


def path_text(kind, cpath, idx):
    return '/'.join(('%d\'' % i) if h else str(i) for i, h in child_path(kind, cpath, idx))


B58 = '123456789ABCDEFGHJKLMNPQRSTUVWXYZabcdefghijkmnopqrstuvwxyz'


def b58check(payload):
    raw = payload + hashlib.sha256(hashlib.sha256(payload).digest()).digest()[:4]
    n = int.from_bytes(raw, 'big')
    s = ''
    while n:
        n, r = divmod(n, 58)
        s = B58[r] + s
    return '1' * (len(raw) - len(raw.lstrip(b'\0'))) + s


BECH = 'qpzry9x8gf2tvdw0s3jn54khce6mua7l'


def _polymod(values):
    gen = [0x3b6a57b2, 0x26508e6d, 0x1ea119fa, 0x3d4233dd, 0x2a1462b3]
    chk = 1
    for v in values:
        b = chk >> 25
        chk = (chk & 0x1ffffff) << 5 ^ v
        for i in range(5):
            chk ^= gen[i] if ((b >> i) & 1) else 0
    return chk


def bech32_v0(hrp, prog):
    acc, bits, data = 0, 0, [0]
    for b in prog:
        acc = (acc << 8) | b
        bits += 8
        while bits >= 5:
            bits -= 5
            data.append((acc >> bits) & 31)
    if bits:
        data.append((acc << (5 - bits)) & 31)
    hx = [ord(c) >> 5 for c in hrp] + [0] + [ord(c) & 31 for c in hrp]
    pm = _polymod(hx + data + [0] * 6) ^ 1
    chk = [(pm >> 5 * (5 - i)) & 31 for i in range(6)]
    return hrp + '1' + ''.join(BECH[d] for d in data + chk)


def address_of_hash(kind, h):
    return bech32_v0(NET_HRP, h) if kind == 'S' else b58check(bytes([NET_P2SH]) + h)


def h160(b):
    return hashlib.new('ripemd160', hashlib.sha256(b).digest()).digest()


def spec_script(m, pubs):
    """BIP11 template over the BIP67 (lexicographic) order."""
    ks = sorted(pubs)
    return bytes([80 + m]) + b''.join(bytes([len(k)]) + k for k in ks) + bytes([80 + len(ks), 0xae])


def spec_address(kind, script):
    if kind == 'L':
        return address_of_hash(kind, h160(script))
    w = hashlib.sha256(script).digest()
    if kind == 'S':
        return address_of_hash(kind, w)
    return address_of_hash(kind, h160(b'\x00\x20' + w))


# ---------------------------------------------------------------- cases
def seed_of(rng):
    return bytes(rng.randrange(256) for _ in range(32))


def make_case(kind_tag, k, m, n, sort, wallets_spec, n_addr, inputs, chains, seeds, cpath=0, given=None):
    """wallets_spec: per wallet a list of (who, priv) in supplied order."""
    masters0 = [derive(s, []) for s in seeds]
    accounts = [derive(s, account_path(k)) for s in seeds]
    wl = []
    for spec in wallets_spec:
        wl.append(','.join('%d:%d:%s' % (who, 1 if pr else 0, (masters0[who] if pr else accounts[who]).hex())
                           for who, pr in spec))
    childs = [[derive(s, child_path(k, cpath, j)) for s in seeds] for j in range(n_addr)]
    addrs = ';'.join(','.join(c.hex() for c in row) for row in childs)
    req = 'cer %s %d %d %s %d %d %s %s %s %s %s' % (
        k, m, 1 if sort else 0, '-' if given is None else str(given), COIN, cpath, ';'.join(wl), addrs, inputs,
        ';'.join(chains) if chains else '-', ','.join(s.hex() for s in seeds))
    meta = dict(k=k, m=m, n=n, sort=sort, wallets=wallets_spec, childs=childs, inputs=inputs, chains=chains,
                cpath=cpath, n_addr=n_addr)
    return Case(kind_tag, req, meta=meta)


def holder_wallets(n, perms):
    return [[(who, who == w) for who in perms[w]] for w in range(n)]


def all_chains(n, channels='odr', with_send=True):
    """every signing order of all n wallets x every channel sequence"""
    out = []
    snd = '.p' if with_send else ''
    for order in itertools.permutations(range(n)):
        for chs in itertools.product(channels, repeat=n - 1):
            c = 'c%d.s%s' % (order[0], snd)
            for ch, w in zip(chs, order[1:]):
                c += '.%s%d.s%s' % (ch, w, snd)
            out.append(c)
    return out


def special_chains(n, rng):
    a, b = rng.sample(range(n), 2)
    out = ['c%d.%s%d.s.p' % (a, ch, b) for ch in 'odr']                      # unsigned hand-off first
    out += ['c%d.s.%s%d.s.%s%d.s.p' % (a, c1, b, c2, a) for c1 in 'od' for c2 in 'od']   # back to a wallet that signed
    out += ['c%d.s.s.p.o%d.p.s.s.p' % (a, b)]                               # signing twice in one wallet
    return out


def gen_cases(rng, tier):
    big = tier == 'thorough'
    cs = []
    mn = [(m, n) for n in (2, 3) for m in range(1, n + 1)]
    # 1. agreement: every holder x every permutation of the supplied keys, no chains
    for k in 'LPS':
        for n in ((2, 3, 4) if big else (2, 3)):
            seeds = [seed_of(rng) for _ in range(n)]
            perms = list(itertools.permutations(range(n)))
            if n == 4:
                perms = rng.sample(perms, 8)
            if big or n == 2:
                ws = [[(who, who == h) for who in p] for h in range(n) for p in perms]
            else:   # every permutation once, every holder twice
                ws = [[(who, who == (i % n)) for who in p] for i, p in enumerate(perms)]
            cs.append(make_case('agree', k, max(1, n - 1), n, True, ws, 2, '0', [], seeds, cpath=rng.randrange(n)))
    # 2. ceremonies: all m-of-n, three kinds, random supply orders, chains
    for k in 'LPS':
        for (m, n) in mn:
            seeds = [seed_of(rng) for _ in range(n)]
            perms = [rng.sample(range(n), n) for _ in range(n)]
            chains = all_chains(n)
            if not big:
                fixed = [c for c in chains if c.count('r') == 0][:2]
                chains = fixed + rng.sample(chains, min(len(chains), 5 if n == 3 else 4))
            sp = special_chains(n, rng)
            chains = chains + (sp if big else rng.sample(sp, 4))
            cs.append(make_case('ceremony', k, m, n, True, holder_wallets(n, perms), 1, '0', chains, seeds,
                                cpath=rng.randrange(n)))
    # 3. two inputs (same address / two addresses): object and dict chains
    for ki, k in enumerate('LPS'):
        for (m, n) in ([(2, 3), (2, 2), (3, 3), (1, 3)] if big else [(2, 3)]):
            for inputs in (('00', '01') if big else (('01', '00', '01')[ki],)):
                seeds = [seed_of(rng) for _ in range(n)]
                perms = [rng.sample(range(n), n) for _ in range(n)]
                chains = all_chains(n, 'od', with_send=False)
                if not big:
                    chains = rng.sample(chains, 4)
                chains = [c + '.p' for c in chains]
                cs.append(make_case('two_inputs', k, m, n, True, holder_wallets(n, perms), 2, inputs, chains, seeds))
    # 4. sort_keys off: same supply order everywhere (chains), different orders (observation only)
    for ki, k in enumerate('LPS'):
        n, m = 3, 2
        if big or ki != 1:
            seeds = [seed_of(rng) for _ in range(n)]
            p = rng.sample(range(n), n)
            cs.append(make_case('unsorted_same', k, m, n, False, holder_wallets(n, [p] * n), 1, '0',
                                rng.sample(all_chains(n, 'od'), 4 if big else 2), seeds))
        if big or ki == 1:
            seeds = [seed_of(rng) for _ in range(n)]
            cs.append(make_case('unsorted_diff', k, m, n, False, holder_wallets(n, [[0, 1, 2], [2, 0, 1], [1, 0, 2]]), 1,
                                '0', [], seeds))
    # 5. watch-only wallets (cosigner_id given), agreement only
    for k in 'LPS':
        n = 3
        seeds = [seed_of(rng) for _ in range(n)]
        ws = [[(who, False) for who in p] for p in ([0, 1, 2], [2, 1, 0])]
        cs.append(make_case('watch_only', k, 2, n, True, ws, 1, '0', [], seeds, given=rng.randrange(n)))
    if big:
        # larger n: all m, sampled chains (includes the over-signed dict class at 2-of-5)
        for k in 'LPS':
            for n in (4, 5):
                for m in range(1, n + 1):
                    seeds = [seed_of(rng) for _ in range(n)]
                    perms = [rng.sample(range(n), n) for _ in range(n)]
                    chains = rng.sample(all_chains(n, 'od'), 10) + rng.sample(all_chains(n), 10)
                    cs.append(make_case('ceremony_big', k, m, n, True, holder_wallets(n, perms), 1, '0', chains, seeds,
                                        cpath=rng.randrange(n)))
    return cs


def meta_of_req(req):
    """rebuild the case description from the request line (replay files carry only the request)"""
    t = req.split(' ')
    wallets = [[(int(e.split(':')[0]), e.split(':')[1] == '1') for e in w.split(',')] for w in t[7].split(';')]
    childs = [[bytes.fromhex(x) for x in a.split(',')] for a in t[8].split(';')]
    return dict(k=t[1], m=int(t[2]), n=len(t[11].split(',')), sort=t[3] == '1', wallets=wallets, childs=childs,
                inputs=t[9], chains=[] if t[10] == '-' else t[10].split(';'), cpath=int(t[6]), n_addr=len(childs))


def _ensure_meta(c):
    if c.meta is None:
        c.meta = meta_of_req(c.req)
    return c.meta


def model_req(c):
    return c.req.rsplit(' ', 1)[0]


def is_trivial(c, out):
    return out.startswith('CRASH') or out == 'BADREQ' or 'ERR' in out.split(' X:')[0]


# ---------------------------------------------------------------- parsing answers
def parse_answer(out):
    if not out.startswith('W:'):
        return None
    try:
        w, rest = out[2:].split(' A:', 1)
        a, x = rest.split(' X:', 1)
    except ValueError:
        return None
    wp = [e.split('/') for e in w.split(';')]
    ap = [[tuple(cell.split('/', 3)) for cell in row.split(',')] if row != 'ERR' else None for row in a.split(';')]
    xp = [] if x == '-' else [ch.split(',') for ch in x.split(';')]
    return wp, ap, xp


def _mask_dups(chain_obs):
    """A signature that Transaction.sign's fall-back loop puts into two positions is ONE Python object: its
    public_key attribute is shared by both positions.  The model keeps two records, so the tag of a signer that
    occurs more than once within an input is not compared (signer, order, verdicts still are)."""
    out = []
    for ob in chain_obs:
        if '=' not in ob:
            out.append(ob)
            continue
        sg, v = ob.split('=')
        ins = []
        for inp in sg.split('|'):
            toks = [] if inp == '_' else inp.split('+')
            bys = [t.split(':')[0] for t in toks]
            ins.append('+'.join(t if bys.count(t.split(':')[0]) == 1 else t.split(':')[0] + ':*' for t in toks) or '_')
        out.append('|'.join(ins) + '=' + v)
    return out


def same(c, io, mo):
    _ensure_meta(c)
    pi, pm = parse_answer(io), parse_answer(mo)
    if pi is None or pm is None:
        return io == mo
    if pi[0] != pm[0] or len(pi[1]) != len(pm[1]) or len(pi[2]) != len(pm[2]):
        return False
    if any(_mask_dups(a) != _mask_dups(b) for a, b in zip(pi[2], pm[2])):
        return False
    k = c.meta['k']
    for ri, rm in zip(pi[1], pm[1]):
        if ri is None or rm is None or len(ri) != len(rm):
            return False
        for (red_i, addr_i, own_i, path_i), (red_m, hash_m, own_m, path_m) in zip(ri, rm):
            if red_i != red_m or own_i != own_m or not ('/' + path_m).endswith('/' + path_i):
                return False
            if hash_m in ('ERR', '-') or addr_i != address_of_hash(k, bytes.fromhex(hash_m)):
                return False
    return True


# ---------------------------------------------------------------- property-level oracle (from the statement)
def walk_chain(chain, wallets):
    """yield (op, signers_before, signers_after) for every op that yields an observation"""
    signers = set()
    cur = None
    out = []
    for o in chain.split('.'):
        before = set(signers)
        if o[0] == 'c':
            cur = int(o[1:])
            continue
        if o == 's':
            for who, pr in wallets[cur]:
                if pr:
                    signers.add(who)
        elif o[0] in 'odr':
            cur = int(o[1:])
        out.append((o, before, set(signers)))
    return out


def chain_failures(c, io):
    """(chain, position, text, class) for every observation that contradicts the property statement"""
    m = _ensure_meta(c)
    p = parse_answer(io)
    fails = []
    if p is None:
        return [(None, 0, 'unexpected answer %r' % io[:160], None)]
    for chain, obs in zip(m['chains'], p[2]):
        steps = walk_chain(chain, m['wallets'])
        cls = classify_chain(chain, m)
        if len(obs) != len(steps) or any(o.startswith('EXC') for o in obs):
            fails.append((chain, len(obs), 'ceremony raised / stopped early: %s' % ','.join(obs)[-80:], cls))
            continue
        for pos, ((o, before, after), ob) in enumerate(zip(steps, obs)):
            want = len(after) >= m['m']
            if o == 'p':
                got = ob == 'P1'
                if got != want:
                    fails.append((chain, pos, 'send() pushed=%s with %d distinct signer(s) of %d required'
                                  % (got, len(after), m['m']), cls))
                    break
            else:
                got = ob.split('=')[1]
                if got not in ('0', '1'):
                    fails.append((chain, pos, 'verified and verify() differ (%s)' % ob, cls))
                    break
                if (got == '1') != want:
                    fails.append((chain, pos, 'after %s: verified=%s with %d distinct signer(s) of %d required'
                                  % (o, got, len(after), m['m']), cls))
                    break
    return fails


def classify_chain(chain, m):
    """decided from the case alone: which recorded class (if any) the chain belongs to"""
    nin = len(m['inputs'])
    for (o, before, after) in walk_chain(chain, m['wallets']):
        if o[0] == 'r' and 0 < len(before) < m['m']:
            return 'raw_handoff_partial'
        if o[0] == 'd' and ((nin >= 2 and 0 < len(before) < m['m']) or len(before) > m['m']):
            return 'dict_handoff_untagged'
    return None


def prop_check(c, io):
    m = _ensure_meta(c)
    if io.startswith('CRASH') or io == 'BADREQ':
        return 'unexpected answer %r' % io[:160]
    p = parse_answer(io)
    if p is None:
        return 'unexpected answer %r' % io[:160]
    wp, ap, xp = p
    if any(r is None for r in ap) or any(w[0] == 'ERR' for w in wp):
        return 'a cosigner wallet could not be created: %s' % io[:120]
    # (a) all cosigner wallets derive the same redeem script and address for the same path
    same_supply = all(w == m['wallets'][0] for w in m['wallets'])
    if m['sort'] or same_supply:
        for j in range(m['n_addr']):
            cells = set((r[j][0], r[j][1]) for r in ap)
            if len(cells) != 1:
                return 'cosigner wallets disagree on redeem script / address for address index %d: %s' % (j, sorted(cells)[:2])
            if m['sort']:
                sc = spec_script(m['m'], m['childs'][j])
                red, addr = next(iter(cells))
                if red != sc.hex():
                    return 'redeem script is not the BIP67-ordered BIP11 script of the cosigners\' child keys (index %d)' % j
                if addr != spec_address(m['k'], sc):
                    return 'address %s is not the %s address of the redeem script' % (addr, KINDS[m['k']])
            paths = set(r[j][3] for r in ap)
            want = '/' + path_text(m['k'], m['cpath'], j)
            # a wallet that holds only account-level public keys reports the path relative to them
            if len(paths) != 1 or not all(want.endswith('/' + p_) for p_ in paths):
                return 'key path differs between cosigner wallets or from the documented structure: %s' % sorted(paths)
    # (b) valid and pushed exactly when at least m distinct cosigners have signed
    f = chain_failures(c, io)
    if f:
        return '%s [chain %s, step %d]' % (f[0][2], f[0][0], f[0][1])
    return None


def _known(cls):
    def pred(c, io, mo):
        f = chain_failures(c, io)
        return bool(f) and all(x[3] is not None for x in f) and any(x[3] == cls for x in f) and \
            prop_check_agreement_only(c, io) is None
    return pred


def prop_check_agreement_only(c, io):
    saved = _ensure_meta(c)['chains']
    c.meta['chains'] = []
    try:
        return prop_check(c, io)
    finally:
        c.meta['chains'] = saved


KNOWN_CLASSES = {
    'raw_handoff_partial': _known('raw_handoff_partial'),
    'dict_handoff_untagged': _known('dict_handoff_untagged'),
}


def reproduce_known(entry, rundir):
    from core import run_impl
    rc, out, err = run_impl(IMPL, [entry['witness']['request']], rundir)
    return len(out) == 1 and out[0] == entry['witness']['impl_answer']


# ---------------------------------------------------------------- extraction cross-check
GOLDEN_HEADER = """From Coq Require Import ZArith List Bool. From Coq.Strings Require Import Byte.
From Verif Require Import Lib.Bytes Model.Wire Model.Multisig. Import ListNotations. Open Scope Z_scope."""


def _coq_bytes(b):
    return '[' + '; '.join('x%02x' % x for x in b) + ']'


def _coq_sig(tok):
    by, tag = tok.split(':')
    return '{| sg_by := %s; sg_tag := %s |}' % (by, 'None' if tag == '-' else 'Some %s' % tag)


def golden(c, mo):
    p = parse_answer(mo)
    if p is None:
        return None
    m = _ensure_meta(c)
    wp, ap, xp = p
    lhs, rhs = [], []
    # wallet 0, address 0: redeem script from the supplied and derived keys
    toks = c.req.split(' ')
    w0 = toks[7].split(';')[0].split(',')
    ks = []
    for e in w0:
        who, pr, hexm = e.split(':')
        ks.append('({| co_master := %s; co_private := %s; co_who := %s |}, %s)' % (
            _coq_bytes(bytes.fromhex(hexm)), 'true' if pr == '1' else 'false', who, _coq_bytes(m['childs'][0][int(who)])))
    red = ap[0][0][0]
    lhs.append('lib_wallet_redeemscript [%s] %d %s' % ('; '.join(ks), m['m'], 'true' if m['sort'] else 'false'))
    rhs.append('None' if red == 'ERR' else 'Some ' + _coq_bytes(bytes.fromhex(red)))
    # first chain: the whole observation list
    if m['chains'] and xp and len(m['inputs']) == 1:
        chain = m['chains'][0]
        ops = chain.split('.')
        w0i = int(ops[0][1:])
        owners = ap[w0i][0][2].split('.')
        cur = w0i
        mops = []
        for o in ops[1:]:
            if o == 's':
                pr = [who for who, p_ in m['wallets'][cur] if p_]
                mops.append('MSign (%s)' % ('Some %d' % pr[0] if len(pr) == 1 else 'None'))
            elif o == 'p':
                mops.append('MSend')
            else:
                cur = int(o[1:])
                mops.append('MHand %s' % {'o': 'HObject', 'd': 'HDict', 'r': 'HRaw'}[o[0]])
        obs = []
        for ob in xp[0]:
            if ob in ('P0', 'P1'):
                obs.append('ObPushed %s' % ('true' if ob == 'P1' else 'false'))
            elif ob == 'EXC':
                obs.append('ObRaise')
            else:
                sg, v = ob.split('=')
                ins = ['[' + ('' if s == '_' else '; '.join(_coq_sig(t) for t in s.split('+'))) + ']' for s in sg.split('|')]
                obs.append('ObState %s [%s]' % ('true' if v == '1' else 'false', '; '.join(ins)))
        lhs.append('ms_run %d%%nat (ms_init [[%s]]) [%s]' % (m['m'], '; '.join(owners), '; '.join(mops)))
        rhs.append('[%s]' % '; '.join(obs))
    if len(lhs) == 1:
        return '%s = %s' % (lhs[0], rhs[0])
    return '(%s, %s) = (%s, %s)' % (lhs[0], lhs[1], rhs[0], rhs[1])
