"""C10 — multisig cosigner wallets agree on scripts; exactly m distinct signers suffice."""
import hashlib, hmac, itertools, random
from core import Case

PROP = 'C10'
COQ_FILES = ['Extract/C10.v', 'Properties/C10.v']
DRIVER = 'c10'
IMPL = 'harness/impl/c10_impl.py'
ALLOWED_AXIOMS = []
IMPL_TIMEOUT = 6000
ESCALATE_CAP = 90
ASSUMPTIONS = [
    'theorems are about coq/Model/Multisig.v: lib_cosigner_order / lib_wallet_redeemscript / lib_script_hash mirror '
    'Wallet.create and Wallet._new_key_multisig; ms_sign_input / ms_verify_run / ms_channel mirror Transaction.sign, '
    'Input.verify (with its public_key side effect), Input.__init__ (signature de-duplication) and the three hand-off '
    'channels transaction_import(object), transaction_import(as_dict()), transaction_import_raw(raw_hex())',
    'tie to /repo: differential correspondence on every run with REAL cosigner wallets (one sqlite file each, network '
    'bitcoinlib_test); the cosigners\' master and child public keys given to the model are derived in the harness '
    'with its own BIP32 (hmac + pure-Python secp256k1), not by the library',
    'a signature of participant b is valid exactly for the key of participant b (cosigner keys pairwise distinct); '
    'Input.verify\'s "try previous signature" branch is dead under that assumption and is not modelled; ECDSA '
    'unforgeability is not claimed',
    'address strings: the model yields the script hash; Base58Check / Bech32 text encoding of it is done by the harness '
    '(hashlib) and is the subject of C11/C05',
    'Python object identity is not modelled: a Signature object that the fall-back loop of Transaction.sign places into two '
    'positions shares its public_key attribute; the tags of such duplicated signatures are excluded from the comparison',
    'sha256 / hash160 in the extracted model are the executable Gallina transcriptions of Crypto/ (validated against '
    'hashlib by the crypto self-test); same_address_all_cosigners is proved for arbitrary hash functions',
    'committed fields: lib_create_fields mirrors the locktime / sequence / change rules of Wallet.transaction_create for '
    'an explicit integer fee (automatic fee estimation, the random split of several change outputs and their minimum '
    'size are not modelled: only number and sum of the change outputs are compared); ms_channel_fields mirrors what '
    'transaction_import(object / dict) and transaction_import_raw rebuild; outpoints, script codes and destinations are '
    'abstract names in the model, the bytes are checked by the property-level oracle of the harness',
    'property-level oracle: own BIP144 parser, own legacy / BIP143 signature hash, own secp256k1 ECDSA verification and '
    'OP_CHECKMULTISIG evaluation, network constants frozen in harness/props/c10.py (Bitcoin Core / Litecoin / Dogecoin '
    'chainparams; bitcoinlib_test is the library\'s own offline network); the unspent outputs are handed to every '
    'cosigner wallet by utxos_update(utxos=...) (two per address, 1 coin + 0.01 per row + 0.0001 per ordinal, so that no '
    'two inputs carry the same amount; 10 confirmations) or, for the select_inputs cases, come from the offline '
    'provider (1 coin each); block height 1',
]
RULE = ('every m-of-n (n <= 3 quick, n <= 5 thorough), three wallet kinds, every cosigner holding its own private key '
        'in its own wallet, supplied-key permutations (exhaustive agreement cases n <= 3), keys supplied as HDKey objects / '
        'WIF strings, master or account level, private or public; networks bitcoinlib_test, bitcoin, testnet, litecoin, '
        'dogecoin; address rows beyond index 0 and on the change branch; cosigner_id given or derived; signing orders x '
        'hand-off chains over {object, dict, raw} (sampled quick, exhaustive n <= 3 thorough); every chain with its own '
        'spend: replace_by_fee, locktime (none / height / time), anti_fee_sniping per wallet, fee, 1-3 outputs of four '
        'script types, 0-3 change outputs, 1-3 inputs from 1-3 address rows, explicit or selected inputs (min_confirms at '
        'and above the boundary); the spent outputs sit at output indices 0, 1, 2, 3, 255..257, 65535..65537, 2^24-1..2^24+1, '
        '0x01020304, 2^31-1, 2^31, 2^32-2 of their funding transactions (every byte of the 4-byte index), one funding transaction '
        'per output / per address row / for all outputs, funding txids starting / ending with zero bytes (handed to the wallets '
        'through utxos_update(utxos=...)); repeated signers, unsigned hand-off, sort_keys off; after the create op and after '
        'EVERY sign / hand-off / send the serialised transaction is parsed and compared field by field; a ceremony is '
        'non-trivial when all wallets were created and at least one observation was produced; distinct by request')

NET_P2SH = 0x95
NET_HRP = 'blt'
COIN = 9999999
KINDS = {'L': 'legacy', 'P': 'p2sh-segwit', 'S': 'segwit'}

# ---------------------------------------------------------------- independent secp256k1 / BIP32 / encoders
P = 2 ** 256 - 2 ** 32 - 977
N = 0xFFFFFFFFFFFFFFFFFFFFFFFFFFFFFFFEBAAEDCE6AF48A03BBFD25E8CD0364141
G = (0x79BE667EF9DCBBAC55A06295CE870B07029BFCDB2DCE28D959F2815B16F81798,
     0x483ADA7726A3C4655DA4FBFC0E1108A8FD17B448A68554199C47D08FFB10D4B8)


def _jdbl(p):
    x, y, z = p
    if not y:
        return (0, 0, 0)
    ys = y * y % P
    s4 = 4 * x * ys % P
    m3 = 3 * x * x % P
    nx = (m3 * m3 - 2 * s4) % P
    return (nx, (m3 * (s4 - nx) - 8 * ys * ys) % P, 2 * y * z % P)


def _jadd(p, q):
    if not p[2]:
        return q
    if not q[2]:
        return p
    z1s, z2s = p[2] * p[2] % P, q[2] * q[2] % P
    u1, u2 = p[0] * z2s % P, q[0] * z1s % P
    s1, s2 = p[1] * z2s * q[2] % P, q[1] * z1s * p[2] % P
    if u1 == u2:
        return _jdbl(p) if s1 == s2 else (0, 0, 0)
    h, r = (u2 - u1) % P, (s2 - s1) % P
    h2 = h * h % P
    h3, v = h * h2 % P, u1 * h2 % P
    nx = (r * r - h3 - 2 * v) % P
    return (nx, (r * (v - nx) - s1 * h3) % P, h * p[2] * q[2] % P)


def _affine(p):
    if not p[2]:
        return None
    zi = pow(p[2], -1, P)
    return (p[0] * zi * zi % P, p[1] * zi * zi * zi % P)


def _jmul(k, pt):
    r = (0, 0, 0)
    q = (pt[0], pt[1], 1)
    while k:
        if k & 1:
            r = _jadd(r, q)
        q = _jdbl(q)
        k >>= 1
    return r


def _mul(k, pt=G):
    return _affine(_jmul(k % N, pt))


def point_of(pub):
    """SEC1 compressed / uncompressed public key -> affine point (None when not on the curve)"""
    if len(pub) == 33 and pub[0] in (2, 3):
        x = int.from_bytes(pub[1:], 'big')
        y = pow((x * x * x + 7) % P, (P + 1) // 4, P)
        if (y * y - x * x * x - 7) % P:
            return None
        return (x, y if (y & 1) == (pub[0] & 1) else P - y)
    if len(pub) == 65 and pub[0] == 4:
        x, y = int.from_bytes(pub[1:33], 'big'), int.from_bytes(pub[33:], 'big')
        return (x, y) if (y * y - x * x * x - 7) % P == 0 else None
    return None


_VERIFY_CACHE = {}


def ecdsa_verify(pub, z, r, s_):
    """SEC1 4.1.4"""
    key = (pub, z, r, s_)
    if key in _VERIFY_CACHE:
        return _VERIFY_CACHE[key]
    ok = False
    q = point_of(pub)
    if q is not None and 0 < r < N and 0 < s_ < N:
        w = pow(s_, -1, N)
        pt = _affine(_jadd(_jmul(z * w % N, G), _jmul(r * w % N, q)))
        ok = pt is not None and pt[0] % N == r
    _VERIFY_CACHE[key] = ok
    return ok


def pub_of(d):
    x, y = _mul(d)
    return bytes([2 + (y & 1)]) + x.to_bytes(32, 'big')


def bip32_master(seed):
    i = hmac.new(b'Bitcoin seed', seed, hashlib.sha512).digest()
    return int.from_bytes(i[:32], 'big'), i[32:]


def bip32_ckd(d, c, idx, hard):
    if hard:
        data = b'\0' + d.to_bytes(32, 'big') + (idx + 0x80000000).to_bytes(4, 'big')
    else:
        data = pub_of(d) + idx.to_bytes(4, 'big')
    i = hmac.new(c, data, hashlib.sha512).digest()
    return (int.from_bytes(i[:32], 'big') + d) % N, i[32:]


def derive(seed, path):
    d, c = bip32_master(seed)
    for (idx, hard) in path:
        d, c = bip32_ckd(d, c, idx, hard)
    return pub_of(d)


def account_path(kind, coin=COIN):
    if kind == 'L':
        return [(45, True)]
    return [(48, True), (coin, True), (0, True), (1 if kind == 'P' else 2, True)]


def child_path(kind, cpath, idx, change=0, coin=COIN):
    if kind == 'L':
        return [(45, True), (cpath, False), (change, False), (idx, False)]
    return account_path(kind, coin) + [(change, False), (idx, False)]


def path_text(kind, cpath, idx, change=0, coin=COIN):
    return '/'.join(('%d\'' % i) if h else str(i) for i, h in child_path(kind, cpath, idx, change, coin))


_ACCT_CACHE = {}


def derive_child(seed, kind, cpath, idx, change=0, coin=COIN):
    """child public key; the private key of the last hardened level is kept per (seed, kind, coin)"""
    key = (seed, kind, coin)
    if key not in _ACCT_CACHE:
        d, c = bip32_master(seed)
        for (i, hard) in account_path(kind, coin):
            d, c = bip32_ckd(d, c, i, hard)
        _ACCT_CACHE[key] = (d, c)
    d, c = _ACCT_CACHE[key]
    for (i, hard) in child_path(kind, cpath, idx, change, coin)[len(account_path(kind, coin)):]:
        d, c = bip32_ckd(d, c, i, hard)
    return pub_of(d)


B58 = '123456789ABCDEFGHJKLMNPQRSTUVWXYZabcdefghijkmnopqrstuvwxyz'


def b58check(payload):
    raw = payload + hashlib.sha256(hashlib.sha256(payload).digest()).digest()[:4]
    n = int.from_bytes(raw, 'big')
    s = ''
    while n:
        n, r = divmod(n, 58)
        s = B58[r] + s
    return '1' * (len(raw) - len(raw.lstrip(b'\0'))) + s


BECH = 'qpzry9x8gf2tvdw0s3jn54khce6mua7l'


def _polymod(values):
    gen = [0x3b6a57b2, 0x26508e6d, 0x1ea119fa, 0x3d4233dd, 0x2a1462b3]
    chk = 1
    for v in values:
        b = chk >> 25
        chk = (chk & 0x1ffffff) << 5 ^ v
        for i in range(5):
            chk ^= gen[i] if ((b >> i) & 1) else 0
    return chk


def bech32_v0(hrp, prog):
    acc, bits, data = 0, 0, [0]
    for b in prog:
        acc = (acc << 8) | b
        bits += 8
        while bits >= 5:
            bits -= 5
            data.append((acc >> bits) & 31)
    if bits:
        data.append((acc << (5 - bits)) & 31)
    hx = [ord(c) >> 5 for c in hrp] + [0] + [ord(c) & 31 for c in hrp]
    pm = _polymod(hx + data + [0] * 6) ^ 1
    chk = [(pm >> 5 * (5 - i)) & 31 for i in range(6)]
    return hrp + '1' + ''.join(BECH[d] for d in data + chk)


def address_of_hash(kind, h):
    return bech32_v0(NET_HRP, h) if kind == 'S' else b58check(bytes([NET_P2SH]) + h)


def h160(b):
    return hashlib.new('ripemd160', hashlib.sha256(b).digest()).digest()


def spec_script(m, pubs):
    """BIP11 template over the BIP67 (lexicographic) order."""
    ks = sorted(pubs)
    return bytes([80 + m]) + b''.join(bytes([len(k)]) + k for k in ks) + bytes([80 + len(ks), 0xae])


def spec_address(kind, script):
    if kind == 'L':
        return address_of_hash(kind, h160(script))
    w = hashlib.sha256(script).digest()
    if kind == 'S':
        return address_of_hash(kind, w)
    return address_of_hash(kind, h160(b'\x00\x20' + w))


# ---------------------------------------------------------------- networks (frozen: chainparams of the coins)
#            name              p2pkh  p2sh  bech32 hrp  BIP44 coin type
NETWORKS = {'bitcoinlib_test': (0x90, 0x95, 'blt', 9999999),      # the library's own offline network
            'bitcoin':         (0x00, 0x05, 'bc', 0),
            'testnet':         (0x6f, 0xc4, 'tb', 1),
            'litecoin':        (0x30, 0x32, 'ltc', 2),
            'dogecoin':        (0x1e, 0x16, None, 3)}
UTXO_VALUE = 100000000       # the offline provider: two unspent outputs of 1 coin per address, 10 confirmations,
UTXO_CONFIRMS = 10           # block height 1
BLOCKCOUNT = 1
DUST = 1000
SEQ_FINAL, SEQ_LOCKTIME, SEQ_RBF = 0xffffffff, 0xfffffffe, 0xfffffffd


def net_address_of_hash(nw, kind, h):
    p2pkh, p2sh, hrp, _ = NETWORKS[nw]
    return bech32_v0(hrp, h) if kind == 'S' else b58check(bytes([p2sh]) + h)


def net_spec_address(nw, kind, script):
    if kind == 'L':
        return net_address_of_hash(nw, kind, h160(script))
    w = hashlib.sha256(script).digest()
    if kind == 'S':
        return net_address_of_hash(nw, kind, w)
    return net_address_of_hash(nw, kind, h160(b'\x00\x20' + w))


def spec_spk(kind, script):
    """scriptPubKey of the address of a redeem script: P2SH, P2SH-P2WSH, P2WSH (BIP16 / BIP141)"""
    if kind == 'L':
        return b'\xa9\x14' + h160(script) + b'\x87'
    w = hashlib.sha256(script).digest()
    if kind == 'S':
        return b'\x00\x20' + w
    return b'\xa9\x14' + h160(b'\x00\x20' + w) + b'\x87'


def destination(nw, typ, h):
    """(address text, scriptPubKey) of an external destination; typ: k p2pkh, s p2sh, w p2wpkh, W p2wsh"""
    p2pkh, p2sh, hrp, _ = NETWORKS[nw]
    if typ == 'k':
        return b58check(bytes([p2pkh]) + h[:20]), b'\x76\xa9\x14' + h[:20] + b'\x88\xac'
    if typ == 's':
        return b58check(bytes([p2sh]) + h[:20]), b'\xa9\x14' + h[:20] + b'\x87'
    if typ == 'w':
        return bech32_v0(hrp, h[:20]), b'\x00\x14' + h[:20]
    return bech32_v0(hrp, h[:32]), b'\x00\x20' + h[:32]


# ---------------------------------------------------------------- independent transaction reader (BIP144) and
#                                                                  signature hashes (legacy, BIP143)
def _varint(b, o):
    v = b[o]
    if v < 0xfd:
        return v, o + 1
    if v == 0xfd:
        return int.from_bytes(b[o + 1:o + 3], 'little'), o + 3
    if v == 0xfe:
        return int.from_bytes(b[o + 1:o + 5], 'little'), o + 5
    return int.from_bytes(b[o + 1:o + 9], 'little'), o + 9


def _ser_varint(n):
    if n < 0xfd:
        return bytes([n])
    if n <= 0xffff:
        return b'\xfd' + n.to_bytes(2, 'little')
    if n <= 0xffffffff:
        return b'\xfe' + n.to_bytes(4, 'little')
    return b'\xff' + n.to_bytes(8, 'little')


_PARSE_CACHE = {}


def parse_tx(hexs):
    """dict(version, locktime, segwit, ins [(txid as shown, n, scriptSig, sequence)], outs [(value, script)], wit);
    None when the bytes are not one well-formed transaction"""
    if hexs in _PARSE_CACHE:
        return _PARSE_CACHE[hexs]
    r = None
    try:
        b = bytes.fromhex(hexs)
        o = 4
        ver = int.from_bytes(b[0:4], 'little')
        segwit = b[4] == 0 and b[5] == 1
        if segwit:
            o = 6
        nin, o = _varint(b, o)
        ins = []
        for _ in range(nin):
            txid = b[o:o + 32][::-1].hex()
            n = int.from_bytes(b[o + 32:o + 36], 'little')
            l, o = _varint(b, o + 36)
            ins.append((txid, n, b[o:o + l], int.from_bytes(b[o + l:o + l + 4], 'little')))
            o += l + 4
        nout, o = _varint(b, o)
        outs = []
        for _ in range(nout):
            v = int.from_bytes(b[o:o + 8], 'little')
            l, o = _varint(b, o + 8)
            outs.append((v, b[o:o + l]))
            o += l
        wit = []
        if segwit:
            for _ in range(nin):
                cnt, o = _varint(b, o)
                items = []
                for _ in range(cnt):
                    l, o = _varint(b, o)
                    items.append(b[o:o + l])
                    o += l
                wit.append(items)
        lt = int.from_bytes(b[o:o + 4], 'little')
        if o + 4 == len(b) and nin > 0:
            r = dict(version=ver, locktime=lt, segwit=segwit, ins=ins, outs=outs, wit=wit)
    except (IndexError, ValueError):
        r = None
    _PARSE_CACHE[hexs] = r
    return r


def dsha(b):
    return hashlib.sha256(hashlib.sha256(b).digest()).digest()


def sighash_legacy(tx, idx, code, hashtype=1):
    b = tx['version'].to_bytes(4, 'little') + _ser_varint(len(tx['ins']))
    for j, (txid, n, _, seq) in enumerate(tx['ins']):
        sc = code if j == idx else b''
        b += bytes.fromhex(txid)[::-1] + n.to_bytes(4, 'little') + _ser_varint(len(sc)) + sc + seq.to_bytes(4, 'little')
    b += _ser_varint(len(tx['outs']))
    for v, spk in tx['outs']:
        b += v.to_bytes(8, 'little') + _ser_varint(len(spk)) + spk
    return dsha(b + tx['locktime'].to_bytes(4, 'little') + hashtype.to_bytes(4, 'little'))


def sighash_bip143(tx, idx, code, value, hashtype=1):
    prevouts = b''.join(bytes.fromhex(t)[::-1] + n.to_bytes(4, 'little') for t, n, _, _ in tx['ins'])
    seqs = b''.join(q.to_bytes(4, 'little') for _, _, _, q in tx['ins'])
    outs = b''.join(v.to_bytes(8, 'little') + _ser_varint(len(spk)) + spk for v, spk in tx['outs'])
    txid, n, _, seq = tx['ins'][idx]
    return dsha(tx['version'].to_bytes(4, 'little') + dsha(prevouts) + dsha(seqs) + bytes.fromhex(txid)[::-1] +
                n.to_bytes(4, 'little') + _ser_varint(len(code)) + code + value.to_bytes(8, 'little') +
                seq.to_bytes(4, 'little') + dsha(outs) + tx['locktime'].to_bytes(4, 'little') +
                hashtype.to_bytes(4, 'little'))


def script_pushes(sc):
    """the data pushed by a push-only script (OP_0 pushes the empty string); None when something else occurs"""
    out = []
    o = 0
    try:
        while o < len(sc):
            op = sc[o]
            o += 1
            if op == 0:
                out.append(b'')
                continue
            if op <= 75:
                l = op
            elif op == 76:
                l = sc[o]
                o += 1
            elif op == 77:
                l = int.from_bytes(sc[o:o + 2], 'little')
                o += 2
            else:
                return None
            if o + l > len(sc):
                return None
            out.append(sc[o:o + l])
            o += l
    except IndexError:
        return None
    return out


def parse_der_sig(sig):
    """DER signature followed by the hash type byte -> (r, s, hashtype) or None"""
    try:
        if len(sig) < 9 or sig[0] != 0x30 or sig[1] != len(sig) - 3 or sig[2] != 2:
            return None
        lr = sig[3]
        if sig[4 + lr] != 2:
            return None
        ls = sig[5 + lr]
        if 6 + lr + ls != len(sig) - 1:
            return None
        return int.from_bytes(sig[4:4 + lr], 'big'), int.from_bytes(sig[6 + lr:6 + lr + ls], 'big'), sig[-1]
    except IndexError:
        return None


def multisig_input_defect(kind, tx, idx, redeem, value, m, keys_in_script):
    """None when input idx of the serialised transaction satisfies the m-of-n script `redeem` (BIP11/BIP16/BIP141:
    OP_0 <sig>*m <script>; every signature must match a later key than the one before), else what is wrong"""
    scriptsig = tx['ins'][idx][2]
    if kind == 'L':
        items = script_pushes(scriptsig)
        if items is None:
            return 'scriptSig is not push-only'
    else:
        if not tx['segwit'] or idx >= len(tx['wit']):
            return 'no witness data'
        items = tx['wit'][idx]
        want_ss = b'' if kind == 'S' else bytes([34]) + b'\x00\x20' + hashlib.sha256(redeem).digest()
        if scriptsig != want_ss:
            return 'scriptSig %s is not %s' % (scriptsig.hex() or '(empty)', want_ss.hex() or 'empty')
    if len(items) < 2 or items[0] != b'':
        return 'unlocking data does not start with the OP_CHECKMULTISIG dummy'
    if items[-1] != redeem:
        return 'script in the unlocking data is not the redeem script of the address being spent'
    sigs = items[1:-1]
    if len(sigs) != m:
        return '%d signature(s) for a %d-of-%d script' % (len(sigs), m, len(keys_in_script))
    ki = 0
    for sg in sigs:
        d = parse_der_sig(sg)
        if d is None:
            return 'signature is not DER + hash type'
        r, s_, ht = d
        if ht != 1:
            return 'hash type %d' % ht
        z = sighash_legacy(tx, idx, redeem) if kind == 'L' else sighash_bip143(tx, idx, redeem, value)
        z = int.from_bytes(z, 'big')
        while ki < len(keys_in_script) and not ecdsa_verify(keys_in_script[ki], z, r, s_):
            ki += 1
        if ki == len(keys_in_script):
            return 'a signature matches none of the remaining keys (wrong order, wrong key, or made over other fields)'
        ki += 1
    return None


# ---------------------------------------------------------------- cases
def seed_of(rng):
    return bytes(rng.randrange(256) for _ in range(32))


def make_case(kind_tag, k, m, n, sort, wallets_spec, n_addr, inputs, chains, seeds, cpath=0, given=None):
    """wallets_spec: per wallet a list of (who, priv) in supplied order."""
    masters0 = [derive(s, []) for s in seeds]
    accounts = [derive(s, account_path(k)) for s in seeds]
    wl = []
    for spec in wallets_spec:
        wl.append(','.join('%d:%d:%s' % (who, 1 if pr else 0, (masters0[who] if pr else accounts[who]).hex())
                           for who, pr in spec))
    childs = [[derive(s, child_path(k, cpath, j)) for s in seeds] for j in range(n_addr)]
    addrs = ';'.join(','.join(c.hex() for c in row) for row in childs)
    req = 'cer %s %d %d %s %d %d %s %s %s %s %s' % (
        k, m, 1 if sort else 0, '-' if given is None else str(given), COIN, cpath, ';'.join(wl), addrs, inputs,
        ';'.join(chains) if chains else '-', ','.join(s.hex() for s in seeds))
    meta = dict(k=k, m=m, n=n, sort=sort, wallets=wallets_spec, childs=childs, inputs=inputs, chains=chains,
                cpath=cpath, n_addr=n_addr)
    return Case(kind_tag, req, meta=meta)


def holder_wallets(n, perms):
    return [[(who, who == w) for who in perms[w]] for w in range(n)]


def all_chains(n, channels='odr', with_send=True):
    """every signing order of all n wallets x every channel sequence"""
    out = []
    snd = '.p' if with_send else ''
    for order in itertools.permutations(range(n)):
        for chs in itertools.product(channels, repeat=n - 1):
            c = 'c%d.s%s' % (order[0], snd)
            for ch, w in zip(chs, order[1:]):
                c += '.%s%d.s%s' % (ch, w, snd)
            out.append(c)
    return out


def special_chains(n, rng):
    a, b = rng.sample(range(n), 2)
    out = ['c%d.%s%d.s.p' % (a, ch, b) for ch in 'odr']                      # unsigned hand-off first
    out += ['c%d.s.%s%d.s.%s%d.s.p' % (a, c1, b, c2, a) for c1 in 'od' for c2 in 'od']   # back to a wallet that signed
    out += ['c%d.s.s.p.o%d.p.s.s.p' % (a, b)]                               # signing twice in one wallet
    return out


def gen_cases_v1(rng, tier):
    """the first-generation stream: every spend created with default parameters (request kind cer)"""
    big = tier == 'thorough'
    cs = []
    mn = [(m, n) for n in (2, 3) for m in range(1, n + 1)]
    # 1. agreement: every holder x every permutation of the supplied keys, no chains
    for k in 'LPS':
        for n in ((2, 3, 4) if big else (2, 3)):
            seeds = [seed_of(rng) for _ in range(n)]
            perms = list(itertools.permutations(range(n)))
            if n == 4:
                perms = rng.sample(perms, 8)
            if big or n == 2:
                ws = [[(who, who == h) for who in p] for h in range(n) for p in perms]
            else:   # every permutation once, every holder twice
                ws = [[(who, who == (i % n)) for who in p] for i, p in enumerate(perms)]
            cs.append(make_case('agree', k, max(1, n - 1), n, True, ws, 2, '0', [], seeds, cpath=rng.randrange(n)))
    # 2. ceremonies: all m-of-n, three kinds, random supply orders, chains
    for k in 'LPS':
        for (m, n) in mn:
            seeds = [seed_of(rng) for _ in range(n)]
            perms = [rng.sample(range(n), n) for _ in range(n)]
            chains = all_chains(n)
            if not big:
                fixed = [c for c in chains if c.count('r') == 0][:2]
                chains = fixed + rng.sample(chains, min(len(chains), 5 if n == 3 else 4))
            sp = special_chains(n, rng)
            chains = chains + (sp if big else rng.sample(sp, 4))
            cs.append(make_case('ceremony', k, m, n, True, holder_wallets(n, perms), 1, '0', chains, seeds,
                                cpath=rng.randrange(n)))
    # 3. two inputs (same address / two addresses): object and dict chains
    for ki, k in enumerate('LPS'):
        for (m, n) in ([(2, 3), (2, 2), (3, 3), (1, 3)] if big else [(2, 3)]):
            for inputs in (('00', '01') if big else (('01', '00', '01')[ki],)):
                seeds = [seed_of(rng) for _ in range(n)]
                perms = [rng.sample(range(n), n) for _ in range(n)]
                chains = all_chains(n, 'od', with_send=False)
                if not big:
                    chains = rng.sample(chains, 4)
                chains = [c + '.p' for c in chains]
                cs.append(make_case('two_inputs', k, m, n, True, holder_wallets(n, perms), 2, inputs, chains, seeds))
    # 4. sort_keys off: same supply order everywhere (chains), different orders (observation only)
    for ki, k in enumerate('LPS'):
        n, m = 3, 2
        if big or ki != 1:
            seeds = [seed_of(rng) for _ in range(n)]
            p = rng.sample(range(n), n)
            cs.append(make_case('unsorted_same', k, m, n, False, holder_wallets(n, [p] * n), 1, '0',
                                rng.sample(all_chains(n, 'od'), 4 if big else 2), seeds))
        if big or ki == 1:
            seeds = [seed_of(rng) for _ in range(n)]
            cs.append(make_case('unsorted_diff', k, m, n, False, holder_wallets(n, [[0, 1, 2], [2, 0, 1], [1, 0, 2]]), 1,
                                '0', [], seeds))
    # 5. watch-only wallets (cosigner_id given), agreement only
    for k in 'LPS':
        n = 3
        seeds = [seed_of(rng) for _ in range(n)]
        ws = [[(who, False) for who in p] for p in ([0, 1, 2], [2, 1, 0])]
        cs.append(make_case('watch_only', k, 2, n, True, ws, 1, '0', [], seeds, given=rng.randrange(n)))
    if big:
        # larger n: all m, sampled chains (includes the over-signed dict class at 2-of-5)
        for k in 'LPS':
            for n in (4, 5):
                for m in range(1, n + 1):
                    seeds = [seed_of(rng) for _ in range(n)]
                    perms = [rng.sample(range(n), n) for _ in range(n)]
                    chains = rng.sample(all_chains(n, 'od'), 10) + rng.sample(all_chains(n), 10)
                    cs.append(make_case('ceremony_big', k, m, n, True, holder_wallets(n, perms), 1, '0', chains, seeds,
                                        cpath=rng.randrange(n)))
    return cs


# ---------------------------------------------------------------- cases of the second generation (request kind cer2)
PRIVATE_FORMS = 'MmRr'
PUBLIC_FORMS = 'Aa'
DEST_TYPES = 'kswW'


VSTEP = (1000000, 10000)     # amounts of the unspent outputs handed to the wallets: 1 coin + 0.01 * row + 0.0001 * ordinal


def utxo_value(vstep, row, ordinal):
    return UTXO_VALUE + vstep[0] * row + vstep[1] * ordinal


def spend_total(vstep, rows_txt):
    used = {}
    tot = 0
    for ch in rows_txt:
        r = int(ch)
        tot += utxo_value(vstep, r, used.get(r, 0))
        used[r] = used.get(r, 0) + 1
    return tot


# Where the spent outputs sit in their funding transactions.  The offline provider (and the old streams) only ever fund output 0
# of a funding transaction of their own; the wallets are handed outputs at these indices instead (every byte position of the
# 4-byte index, both neighbours of each carry), several outputs of ONE funding transaction, and funding txids that start /
# end with zero bytes.  The model speaks of outpoints by (row, ordinal); the oracle reads them from the serialised spend.
FUND_INDEX = [0, 1, 2, 3, 255, 256, 257, 65535, 65536, 65537, 16777215, 16777216, 16777217, 0x01020304, 0x7fffffff, 0x80000000,
              0xfffffffe]


def funding_of(seed, nrows):
    """-> (output indices at position 2 * row + ordinal, funding-txid mode); drawn from the case's first seed so that
    the other streams of a run are not disturbed"""
    r = random.Random(seed)
    mode = r.choice(['h', 'h', 's', 's', 'r', 'r'])
    tag = '' if mode == 'h' else str(r.randrange(100))
    zeros = r.choice(['', '', 'z', 't', 'b'])
    if mode == 's':
        on = r.sample(FUND_INDEX[:-3] + [4, 5, 6, 7, 8, 9], 2 * nrows)
    else:
        on = [r.choice(FUND_INDEX) for _ in range(2 * nrows)]
        for row in range(nrows):                # the two outputs of a row never share an outpoint
            while on[2 * row + 1] == on[2 * row]:
                on[2 * row + 1] = r.choice(FUND_INDEX)
    if r.random() < 0.12:
        on = [0] * (2 * nrows) if mode == 'h' else on      # the old shape stays in the population
    elif not any(on):
        on[0] = 1
    return on, mode + tag + zeros


def make_case2(kind_tag, k, m, sort, wallets_spec, rows, chains, spends, seeds, cpath=0, given=None,
               nw='bitcoinlib_test', afs=None, dests=None, vstep=VSTEP, funding='auto'):
    """wallets_spec: per wallet [(who, form)] in supplied order; rows: [(change, address_index)];
    spends: per chain dict(rows, rbf, lock, fee, vals, nch, sel); dests: [(type letter, hash bytes)];
    funding: 'auto' | None (every output is output 0 of its own funding transaction) | (indices, txid mode)"""
    coin = NETWORKS[nw][3]
    n = len(seeds)
    masters0 = [derive(s_, []) for s_ in seeds]
    accounts = [derive(s_, account_path(k, coin)) for s_ in seeds]
    wl = []
    for spec in wallets_spec:
        wl.append(','.join('%d:%s:%s' % (who, f, (masters0[who] if f in 'Mm' else accounts[who]).hex()) for who, f in spec))
    childs = [[derive_child(s_, k, cpath, idx, ch, coin) for s_ in seeds] for (ch, idx) in rows]
    addrs = ';'.join('%d/%d/%s' % (ch, idx, ','.join(c.hex() for c in row)) for (ch, idx), row in zip(rows, childs))
    if given is None:
        gtxt = '-'
    elif isinstance(given, int):
        gtxt = str(given)
    else:
        gtxt = ','.join('-' if g is None else str(g) for g in given)
    afs = afs if afs is not None else '1' * len(wallets_spec)
    dests = dests or [('k', bytes.fromhex('f2ab63bf20d1fe53da6c9d0d873cc4996846a957'))]
    sp_txt = ';'.join('%s/%d/%d/%d/%s/%d/%s' % (sp['rows'], sp['rbf'], sp['lock'], sp['fee'],
                                                 '+'.join(str(v) for v in sp['vals']), sp['nch'], sp['sel'])
                      for sp in spends)
    opts = 'nw=%s;afs=%s;bc=%d;dust=%d;uv=%d;vstep=%d:%d;conf=%d;dst=%s;dsh=%s' % (
        nw, afs, BLOCKCOUNT, DUST, UTXO_VALUE, vstep[0], vstep[1], UTXO_CONFIRMS,
        '+'.join(destination(nw, t, h)[0] for t, h in dests), '+'.join('%s:%s' % (t, h.hex()) for t, h in dests))
    if funding == 'auto':
        # the wallets are handed chosen outputs only where the adapter does not ask the offline provider
        funding = funding_of(seeds[0], len(rows)) if (vstep != (0, 0) or nw != 'bitcoinlib_test') else None
    if funding:
        opts += ';on=%s;txm=%s' % ('+'.join(str(x) for x in funding[0]), funding[1])
    req = 'cer2 %s %d %d %s %d %d %s %s %s %s %s %s' % (
        k, m, 1 if sort else 0, gtxt, coin, cpath, ';'.join(wl), addrs, ';'.join(chains) if chains else '-',
        sp_txt if chains else '-', opts, ','.join(s_.hex() for s_ in seeds))
    c = Case(kind_tag, req)
    c.meta = meta_of_req(req)
    return c


def meta_of_req2(req):
    t = req.split(' ')
    k = t[1]
    wallets, forms = [], []
    for w in t[7].split(';'):
        es = [e.split(':') for e in w.split(',')]
        wallets.append([(int(e[0]), e[1] in PRIVATE_FORMS) for e in es])
        forms.append(''.join(e[1] for e in es))
    rows, childs = [], []
    for a in t[8].split(';'):
        ch, idx, pubs = a.split('/')
        rows.append((int(ch), int(idx)))
        childs.append([bytes.fromhex(x) for x in pubs.split(',')])
    chains = [] if t[9] == '-' else t[9].split(';')
    spends = []
    for sp in ([] if t[10] == '-' else t[10].split(';')):
        r, rbf, lock, fee, vals, nch, sel = sp.split('/')
        spends.append(dict(rows=r, rbf=int(rbf), lock=int(lock), fee=int(fee), vals=[int(v) for v in vals.split('+')],
                           nch=int(nch), sel=sel))
    opt = dict(e.split('=', 1) for e in t[11].split(';'))
    nw = opt.get('nw', 'bitcoinlib_test')
    dests = [destination(nw, e.split(':')[0], bytes.fromhex(e.split(':')[1])) for e in opt['dsh'].split('+')]
    seeds = [bytes.fromhex(x) for x in t[12].split(',')]
    return dict(fmt=2, k=k, m=int(t[2]), n=len(seeds), sort=t[3] == '1', wallets=wallets, forms=forms, rows=rows,
                childs=childs, chains=chains, spends=spends, cpath=int(t[6]), coin=int(t[5]), nw=nw,
                afs=opt.get('afs', '1' * len(wallets)), dests=dests, seeds=seeds, n_addr=len(rows), given=t[4],
                vstep=tuple(int(x) for x in opt.get('vstep', '0:0').split(':')))


def random_spend(rng, nrows, nw_rows=None, force=None, vstep=VSTEP):
    """one way of creating the spend; explicit inputs.  force: dict of fixed fields"""
    force = force or {}
    nin = force.get('nin') or rng.choice([1, 1, 1, 2, 2, 3])
    rows = []
    for _ in range(nin):
        cand = [r for r in range(nrows) if rows.count(r) < 2]
        rows.append(rng.choice(cand))
    if 'rows' in force:
        rows = [int(ch) for ch in force['rows']]
    total = spend_total(vstep, ''.join(str(r) for r in rows))
    rbf = force.get('rbf', 1 if rng.random() < 0.35 else 0)
    lk = force.get('lockkind', rng.choice('00hht'))
    lock = 0 if lk == '0' else (rng.choice([1, 2, rng.randrange(3, 800000), 499999999]) if lk == 'h'
                                else rng.choice([500000000, rng.randrange(1500000000, 1800000000), 4294967294]))
    fee = force.get('fee', rng.choice([rng.randrange(4000, 20000), rng.randrange(20000, 150000)]))
    nout = rng.choice([1, 1, 2, 3])
    mode = force.get('change', rng.choice(['one', 'one', 'one', 'none', 'dust', 'many']))
    budget = total - fee
    if mode == 'none':
        left = 0
    elif mode == 'dust':
        left = rng.choice([1, DUST - 1, DUST])
    elif mode == 'many':
        left = rng.randrange(40000000, 60000000)
    else:
        left = rng.choice([DUST + 1, rng.randrange(2 * DUST, 100000), rng.randrange(100000, budget // 2)])
    spendable = budget - left
    vals = []
    for j in range(nout - 1):
        v = rng.randrange(DUST + 1, max(DUST + 2, spendable // (nout + 1)))
        vals.append(v)
        spendable -= v
    vals.append(spendable)
    rng.shuffle(vals)
    nch = rng.choice([2, 3]) if mode == 'many' else 1
    return dict(rows=''.join(str(r) for r in rows), rbf=rbf, lock=lock, fee=fee, vals=vals, nch=nch, sel='e')


def random_dests(rng, k, nw):
    types = [t for t in DEST_TYPES if NETWORKS[nw][2] or t in 'ks']
    return [(rng.choice(types), bytes(rng.randrange(256) for _ in range(32))) for _ in range(3)]


def own_position(k, coin, seeds, spec, who):
    """position of participant `who` among the keys as a wallet sorts them (public bytes of the supplied keys)"""
    pubs = [(derive(seeds[w], []) if f in 'Mm' else derive(seeds[w], account_path(k, coin)), w) for w, f in spec]
    return [w for _, w in sorted(pubs)].index(who)


def holder_forms(rng, n, perms, plain=False):
    """wallet w holds participant w's private key; the form of every supplied key is drawn"""
    out = []
    for w in range(n):
        out.append([(who, ('M' if plain else rng.choice(PRIVATE_FORMS)) if who == w else
                     ('A' if plain else rng.choice(PUBLIC_FORMS))) for who in perms[w]])
    return out


def complete_then_raw(n, m, rng):
    """m cosigners sign over object hand-offs, then the COMPLETE transaction goes on as raw hex and is sent"""
    ws = rng.sample(range(n), m)
    c = 'c%d.s' % ws[0] + ''.join('.o%d.s' % w for w in ws[1:])
    return c + '.r%d.p' % rng.choice([w for w in range(n) if w != ws[-1]])


def sweep_chain(n, m, rng, ch):
    """m cosigners sign one after the other, every hand-off through channel ch; sent by the last one"""
    ws = rng.sample(range(n), m)
    return 'c%d.s' % ws[0] + ''.join('.%s%d.s' % (ch, w) for w in ws[1:]) + '.p'


def gen_cases(rng, tier):
    big = tier == 'thorough'
    cs = []
    mn = [(m, n) for n in (2, 3) for m in range(1, n + 1)]
    nets = {'L': ['bitcoin', 'testnet', 'litecoin', 'dogecoin'], 'P': ['bitcoin', 'testnet', 'litecoin'],
            'S': ['bitcoin', 'testnet', 'litecoin']}
    # 1. agreement: holders x permutations of the supplied keys x key forms x networks x rows beyond index 0 / change
    for k in 'LPS':
        for n in ((2, 3, 4) if big else (2, 3)):
            for rep in range(3 if big else 1):
                seeds = [seed_of(rng) for _ in range(n)]
                perms = list(itertools.permutations(range(n)))
                if n == 4:
                    perms = rng.sample(perms, 8)
                if big or n == 2:
                    pairs = [(h, p) for h in range(n) for p in perms]
                else:   # every permutation once, every holder twice
                    pairs = [(i % n, p) for i, p in enumerate(perms)]
                ws = [[(who, rng.choice(PRIVATE_FORMS) if who == h else rng.choice(PUBLIC_FORMS)) for who in p]
                      for h, p in pairs]
                nw = rng.choice(nets[k]) if (n == 2 or rep) else 'bitcoinlib_test'
                rows = [(0, 0), (0, rng.randrange(1, 30)), (1, 0), (1, rng.randrange(1, 12))]
                cs.append(make_case2('agree', k, max(1, n - 1), True, ws, rows, [], [], seeds, cpath=rng.randrange(n),
                                     nw=nw))
    # 1b. every remaining network once per kind: one wallet per holder, random supply orders and forms
    for k in 'LPS':
        for nw in (nets[k] if big else rng.sample(nets[k], 2)):
            n = 3
            seeds = [seed_of(rng) for _ in range(n)]
            perms = [rng.sample(range(n), n) for _ in range(n)]
            cs.append(make_case2('agree_net', k, rng.randrange(1, n + 1), True, holder_forms(rng, n, perms),
                                 [(0, rng.randrange(0, 50)), (1, rng.randrange(0, 50))], [], [], seeds,
                                 cpath=rng.randrange(n), nw=nw))
    # 1c. a watch-only wallet in which the cosigners sign with the child key of ONE address: inputs complete one by one
    for ki, k in enumerate('LPS'):
        for rep in range(3 if big else 1):
            n, m = 3, 2
            seeds = [seed_of(rng) for _ in range(n)]
            perms = [rng.sample(range(n), n) for _ in range(n)]
            ws = holder_forms(rng, n, perms) + [[(who, rng.choice(PUBLIC_FORMS)) for who in rng.sample(range(n), n)]]
            a, b, c3 = rng.sample(range(n), 3)
            chains = ['c3.k%d1.k%d1.p.k%d0.k%d0.p' % (a, b, b, c3),                 # last input complete first
                      'c3.k%d0.k%d0.p.o%d.s.p' % (a, b, c3),                         # first input complete first
                      'c3.k%d1.o%d.s.p.o%d.s.p' % (a, b, a),                         # one key, then whole wallets
                      'c%d.s.o3.k%d1.p.k%d0.p' % (a, b, c3),
                      'c3.k%d1.k%d1.k%d1.p' % (a, b, c3)]                            # three signers, one input
            rows3 = [(0, 0), (rng.choice([0, 1]), rng.randrange(1, 5))]
            spends = [random_spend(rng, 2, force={'rows': rng.choice(['01', '001', '011']) if ci != 2 else '01',
                                                  'lockkind': rng.choice('0h')}) for ci in range(len(chains))]
            cs.append(make_case2('key_signing', k, m, True, ws, rows3, chains, spends, seeds, cpath=rng.randrange(n),
                                 given=[None] * n + [rng.randrange(n)], afs='1111',
                                 dests=random_dests(rng, k, 'bitcoinlib_test')))
    # 2. ceremonies: all m-of-n, three kinds, random supply orders and key forms, every chain its own spend
    for k in 'LPS':
        for (m, n) in mn:
            for rep in range(4 if big else 1):
                seeds = [seed_of(rng) for _ in range(n)]
                perms = [rng.sample(range(n), n) for _ in range(n)]
                chains = all_chains(n)
                if not big:
                    fixed = [c for c in chains if c.count('r') == 0][:2]
                    chains = fixed + rng.sample(chains, min(len(chains), 8 if n == 3 else 5))
                sp = special_chains(n, rng)
                chains = chains + (sp if big else rng.sample(sp, 5))
                chains = chains + ['c%d.o%d.s.o%d.s.p' % tuple(rng.sample(range(n), 2) + [rng.randrange(n)])]
                n_raw = len(chains)
                chains = chains + [complete_then_raw(n, m, rng), complete_then_raw(n, m, rng)]
                # parameter sweep over short chains: replace_by_fee x locktime kind x channel
                n_sweep = len(chains)
                combos = [(r_, l_, c_) for r_ in (0, 1) for l_ in '0ht' for c_ in 'ood']
                sweep = combos if big else rng.sample(combos, 8)
                chains = chains + [sweep_chain(n, m, rng, c_) for (_, _, c_) in sweep]
                rows = [(0, 0), (0, rng.randrange(1, 9)), (rng.choice([0, 1]), rng.randrange(0, 4))]
                if rows[2] in rows[:2]:
                    rows[2] = (1, 5)
                afs = '1' * n if rng.random() < 0.45 else ''.join(rng.choice('01') for _ in range(n))
                spends = []
                for ci, ch in enumerate(chains):
                    f = {}
                    if ci < 2:      # the two object/dict-only chains: replace-by-fee, then an explicit locktime
                        f = {'rbf': 1} if ci == 0 else {'rbf': 0, 'lockkind': rng.choice('ht')}
                    if 'd' in ch and ci >= 2 and rng.random() < 0.5:
                        f = {'nin': 1}
                    if ci >= n_raw:
                        f = {'lockkind': '0' if ci == n_raw else rng.choice('0ht')}
                    if ci >= n_sweep:
                        f = {'rbf': sweep[ci - n_sweep][0], 'lockkind': sweep[ci - n_sweep][1]}
                    spends.append(random_spend(rng, len(rows), force=f))
                cs.append(make_case2('ceremony', k, m, True, holder_forms(rng, n, perms), rows, chains, spends, seeds,
                                     cpath=rng.randrange(n), afs=afs, dests=random_dests(rng, k, 'bitcoinlib_test')))
    # 3. two / three inputs (same address / different addresses): object and dict chains, default-compatible spends
    for ki, k in enumerate('LPS'):
        for (m, n) in ([(2, 3), (2, 2), (3, 3), (1, 3)] if big else [(2, 3)]):
            for inputs in (('00', '01', '011') if big else (('01', '00', '012')[ki],)):
                seeds = [seed_of(rng) for _ in range(n)]
                perms = [rng.sample(range(n), n) for _ in range(n)]
                chains = all_chains(n, 'od', with_send=False)
                if not big:
                    chains = rng.sample(chains, 5)
                chains = [c + '.p' for c in chains]
                rows = [(0, 0), (0, 1), (1, 0)]
                spends = [random_spend(rng, 3, force={'rows': inputs, 'rbf': 0}) for _ in chains]
                cs.append(make_case2('multi_inputs', k, m, True, holder_forms(rng, n, perms, plain=True), rows, chains,
                                     spends, seeds, dests=random_dests(rng, k, 'bitcoinlib_test')))
    # 4. sort_keys off: same supply order everywhere (chains), different orders (observation only)
    for ki, k in enumerate('LPS'):
        n, m = 3, 2
        if big or ki != 1:
            seeds = [seed_of(rng) for _ in range(n)]
            p = rng.sample(range(n), n)
            chains = rng.sample(all_chains(n, 'od'), 4 if big else 3)
            cs.append(make_case2('unsorted_same', k, m, False, holder_forms(rng, n, [p] * n, plain=True), [(0, 0), (0, 2)],
                                 chains, [random_spend(rng, 2) for _ in chains], seeds, afs='111'))
        if big or ki == 1:
            seeds = [seed_of(rng) for _ in range(n)]
            cs.append(make_case2('unsorted_diff', k, m, False,
                                 holder_forms(rng, n, [[0, 1, 2], [2, 0, 1], [1, 0, 2]]), [(0, 0), (1, 3)], [], [], seeds))
    # 5. watch-only wallets (cosigner_id given), a private wallet told its own position; agreement only
    for k in 'LPS':
        n = 3
        seeds = [seed_of(rng) for _ in range(n)]
        nw = rng.choice(['bitcoinlib_test'] + nets[k])
        coin = NETWORKS[nw][3]
        ws = [[(who, rng.choice(PUBLIC_FORMS)) for who in p] for p in ([0, 1, 2], [2, 1, 0])]
        holder = rng.randrange(n)
        spec = [(who, rng.choice(PRIVATE_FORMS) if who == holder else rng.choice(PUBLIC_FORMS)) for who in rng.sample(range(n), n)]
        gv = rng.randrange(n)
        cs.append(make_case2('watch_only', k, 2, True, ws + [spec], [(0, 0), (1, 1), (0, 6)], [], [], seeds,
                             given=[gv, gv, own_position(k, coin, seeds, spec, holder)], nw=nw))
    # 6. inputs chosen by the wallet (select_inputs), min_confirms at the boundary and above it; one funded address
    for ki, k in enumerate('LPS'):
        for rep in range(3 if big else 1):
            n, m = 3, 2
            seeds = [seed_of(rng) for _ in range(n)]
            perms = [rng.sample(range(n), n) for _ in range(n)]
            a, b, c3 = rng.sample(range(n), 3)
            chains = ['c%d.s.o%d.s' % (a, b), 'c%d.s.d%d.s' % (b, a), 'c%d.s.o%d.s' % (c3, a), 'c%d' % a,
                      'c%d.s.o%d.s.p' % (b, c3)]
            spends = []
            for ci in range(len(chains)):
                two = ci in (1, 4)
                fee = rng.randrange(5000, 90000)
                total = UTXO_VALUE * (2 if two else 1)
                left = rng.choice([0, DUST, rng.randrange(2 * DUST, 3000000)])
                vals = [total - fee - left] if not two else [UTXO_VALUE + 1, total - fee - left - UTXO_VALUE - 1]
                spends.append(dict(rows='00' if two else '0', rbf=1 if ci == 2 else 0, lock=0 if ci != 0 else 650000,
                                   fee=fee, vals=vals, nch=1,
                                   sel='a%d' % (UTXO_CONFIRMS + 1 if ci == 3 else rng.choice([1, UTXO_CONFIRMS, 0]))))
            cs.append(make_case2('selected_inputs', k, m, True, holder_forms(rng, n, perms), [(0, 0)], chains, spends, seeds,
                                 afs='111', dests=random_dests(rng, k, 'bitcoinlib_test'), vstep=(0, 0)))
    if big:
        # larger n: all m, sampled chains (includes the over-signed dict class at 2-of-5)
        for k in 'LPS':
            for n in (4, 5):
                for m in range(1, n + 1):
                    seeds = [seed_of(rng) for _ in range(n)]
                    perms = [rng.sample(range(n), n) for _ in range(n)]
                    chains = rng.sample(all_chains(n, 'od'), 10) + rng.sample(all_chains(n), 10)
                    rows = [(0, 0), (0, 3), (1, 1)]
                    cs.append(make_case2('ceremony_big', k, m, True, holder_forms(rng, n, perms), rows, chains,
                                         [random_spend(rng, 3) for _ in chains], seeds, cpath=rng.randrange(n),
                                         afs=''.join(rng.choice('011') for _ in range(n)),
                                         dests=random_dests(rng, k, 'bitcoinlib_test')))
        # chains on networks without an offline provider (no send there)
        for k in 'LPS':
            for nw in nets[k]:
                n, m = 3, 2
                seeds = [seed_of(rng) for _ in range(n)]
                perms = [rng.sample(range(n), n) for _ in range(n)]
                chains = rng.sample(all_chains(n, 'od', with_send=False), 6)
                fees = {'fee': rng.randrange(2000000, 9000000)} if nw == 'dogecoin' else {}
                cs.append(make_case2('ceremony_net', k, m, True, holder_forms(rng, n, perms), [(0, 0), (1, 2)], chains,
                                     [random_spend(rng, 2, force=dict(fees, lockkind=rng.choice('ht'))) for _ in chains],
                                     seeds, nw=nw, afs='000', dests=random_dests(rng, k, nw)))
        cs += gen_cases_v1(rng, 'quick')
    return cs


def meta_of_req(req):
    if req.startswith('cer2 '):
        return meta_of_req2(req)
    """rebuild the case description from the request line (replay files carry only the request)"""
    t = req.split(' ')
    wallets = [[(int(e.split(':')[0]), e.split(':')[1] == '1') for e in w.split(',')] for w in t[7].split(';')]
    childs = [[bytes.fromhex(x) for x in a.split(',')] for a in t[8].split(';')]
    return dict(k=t[1], m=int(t[2]), n=len(t[11].split(',')), sort=t[3] == '1', wallets=wallets, childs=childs,
                inputs=t[9], chains=[] if t[10] == '-' else t[10].split(';'), cpath=int(t[6]), n_addr=len(childs))


def _ensure_meta(c):
    if c.meta is None:
        c.meta = meta_of_req(c.req)
    return c.meta


def model_req(c):
    return c.req.rsplit(' ', 1)[0]


def is_trivial(c, out):
    return out.startswith('CRASH') or out == 'BADREQ' or 'ERR' in out.split(' X:')[0].split(' U:')[0]


# ---------------------------------------------------------------- parsing answers
def parse_answer(out):
    if not out.startswith('W:'):
        return None
    try:
        w, rest = out[2:].split(' A:', 1)
        a, x = rest.split(' X:', 1)
    except ValueError:
        return None
    wp = [e.split('/') for e in w.split(';')]
    ap = [[tuple(cell.split('/', 3)) for cell in row.split(',')] if row != 'ERR' else None for row in a.split(';')]
    xp = [] if x == '-' else [ch.split(',') for ch in x.split(';')]
    return wp, ap, xp


def _mask_dups(chain_obs):
    """A signature that Transaction.sign's fall-back loop puts into two positions is ONE Python object: its
    public_key attribute is shared by both positions.  The model keeps two records, so the tag of a signer that
    occurs more than once within an input is not compared (signer, order, verdicts still are)."""
    out = []
    for ob in chain_obs:
        if '=' not in ob:
            out.append(ob)
            continue
        sg, v = ob.split('=')
        ins = []
        for inp in sg.split('|'):
            toks = [] if inp == '_' else inp.split('+')
            bys = [t.split(':')[0] for t in toks]
            ins.append('+'.join(t if bys.count(t.split(':')[0]) == 1 else t.split(':')[0] + ':*' for t in toks) or '_')
        out.append('|'.join(ins) + '=' + v)
    return out


def same(c, io, mo):
    _ensure_meta(c)
    if c.meta.get('fmt') == 2:
        return same2(c, io, mo)
    pi, pm = parse_answer(io), parse_answer(mo)
    if pi is None or pm is None:
        return io == mo
    if pi[0] != pm[0] or len(pi[1]) != len(pm[1]) or len(pi[2]) != len(pm[2]):
        return False
    if any(_mask_dups(a) != _mask_dups(b) for a, b in zip(pi[2], pm[2])):
        return False
    k = c.meta['k']
    for ri, rm in zip(pi[1], pm[1]):
        if ri is None or rm is None or len(ri) != len(rm):
            return False
        for (red_i, addr_i, own_i, path_i), (red_m, hash_m, own_m, path_m) in zip(ri, rm):
            if red_i != red_m or own_i != own_m or not ('/' + path_m).endswith('/' + path_i):
                return False
            if hash_m in ('ERR', '-') or addr_i != address_of_hash(k, bytes.fromhex(hash_m)):
                return False
    return True


# ---------------------------------------------------------------- property-level oracle (from the statement)
def walk_chain(chain, wallets):
    """yield (op, signers_before, signers_after) for every op that yields an observation"""
    signers = set()
    cur = None
    out = []
    for o in chain.split('.'):
        before = set(signers)
        if o[0] == 'c':
            cur = int(o[1:])
            continue
        if o == 's':
            for who, pr in wallets[cur]:
                if pr:
                    signers.add(who)
        elif o[0] in 'odr':
            cur = int(o[1:])
        out.append((o, before, set(signers)))
    return out


def chain_failures(c, io):
    """(chain, position, text, class) for every observation that contradicts the property statement"""
    m = _ensure_meta(c)
    p = parse_answer(io)
    fails = []
    if p is None:
        return [(None, 0, 'unexpected answer %r' % io[:160], None)]
    for chain, obs in zip(m['chains'], p[2]):
        steps = walk_chain(chain, m['wallets'])
        cls = classify_chain(chain, m)
        if len(obs) != len(steps) or any(o.startswith('EXC') for o in obs):
            fails.append((chain, len(obs), 'ceremony raised / stopped early: %s' % ','.join(obs)[-80:], cls))
            continue
        for pos, ((o, before, after), ob) in enumerate(zip(steps, obs)):
            want = len(after) >= m['m']
            if o == 'p':
                got = ob == 'P1'
                if got != want:
                    fails.append((chain, pos, 'send() pushed=%s with %d distinct signer(s) of %d required'
                                  % (got, len(after), m['m']), cls))
                    break
            else:
                got = ob.split('=')[1]
                if got not in ('0', '1'):
                    fails.append((chain, pos, 'verified and verify() differ (%s)' % ob, cls))
                    break
                if (got == '1') != want:
                    fails.append((chain, pos, 'after %s: verified=%s with %d distinct signer(s) of %d required'
                                  % (o, got, len(after), m['m']), cls))
                    break
    return fails


def classify_chain(chain, m):
    """decided from the case alone: which recorded class (if any) the chain belongs to"""
    nin = len(m['inputs'])
    for (o, before, after) in walk_chain(chain, m['wallets']):
        if o[0] == 'r' and 0 < len(before) < m['m']:
            return 'raw_handoff_partial'
        if o[0] == 'd' and ((nin >= 2 and 0 < len(before) < m['m']) or len(before) > m['m']):
            return 'dict_handoff_untagged'
    return None


def prop_check(c, io):
    m = _ensure_meta(c)
    if m.get('fmt') == 2:
        return prop_check2(c, io)
    if io.startswith('CRASH') or io == 'BADREQ':
        return 'unexpected answer %r' % io[:160]
    p = parse_answer(io)
    if p is None:
        return 'unexpected answer %r' % io[:160]
    wp, ap, xp = p
    if any(r is None for r in ap) or any(w[0] == 'ERR' for w in wp):
        return 'a cosigner wallet could not be created: %s' % io[:120]
    # (a) all cosigner wallets derive the same redeem script and address for the same path
    same_supply = all(w == m['wallets'][0] for w in m['wallets'])
    if m['sort'] or same_supply:
        for j in range(m['n_addr']):
            cells = set((r[j][0], r[j][1]) for r in ap)
            if len(cells) != 1:
                return 'cosigner wallets disagree on redeem script / address for address index %d: %s' % (j, sorted(cells)[:2])
            if m['sort']:
                sc = spec_script(m['m'], m['childs'][j])
                red, addr = next(iter(cells))
                if red != sc.hex():
                    return 'redeem script is not the BIP67-ordered BIP11 script of the cosigners\' child keys (index %d)' % j
                if addr != spec_address(m['k'], sc):
                    return 'address %s is not the %s address of the redeem script' % (addr, KINDS[m['k']])
            paths = set(r[j][3] for r in ap)
            want = '/' + path_text(m['k'], m['cpath'], j)
            # a wallet that holds only account-level public keys reports the path relative to them
            if len(paths) != 1 or not all(want.endswith('/' + p_) for p_ in paths):
                return 'key path differs between cosigner wallets or from the documented structure: %s' % sorted(paths)
    # (b) valid and pushed exactly when at least m distinct cosigners have signed
    f = chain_failures(c, io)
    if f:
        return '%s [chain %s, step %d]' % (f[0][2], f[0][0], f[0][1])
    return None


# ================================================================ second generation: committed fields
def parse_answer2(out):
    """(wallet part, address cells, unspent outputs per wallet (None in a model answer), observations per chain)"""
    if not out.startswith('W:'):
        return None
    try:
        w, rest = out[2:].split(' A:', 1)
        a, x = rest.split(' X:', 1)
        u = None
        if ' U:' in a:
            a, u = a.split(' U:', 1)
    except ValueError:
        return None
    wp = [e.split('/') for e in w.split(';')]
    ap = [[tuple(cell.split('/', 3)) for cell in row.split(',')] if not row.startswith('ERR') else None for row in a.split(';')]
    xp = [] if x == '-' else [ch.split(',') for ch in x.split(';')]
    up = None
    if u is not None:
        up = []
        for wtxt in u.split(';'):
            if wtxt == '=':
                up.append(up[0])
            elif wtxt == 'ERR':
                up.append(None)
            else:
                up.append([[] if r == '-' else [(e.split(':')[0], int(e.split(':')[1]), int(e.split(':')[2]))
                                                for e in r.split('+')] for r in wtxt.split(',')])
    return wp, ap, up, xp


def split_obs(ob):
    """state observation '<sigs>=<v>~<raw>~<values>' -> (sigs=v, raw, [(value, redeem hex)]); others -> (ob, None, None)"""
    if ob.startswith('P1~'):
        return 'P1', ob[3:], None
    if '~' not in ob:
        return ob, None, None
    head, raw, vals = ob.split('~', 2)
    return head, raw, [(int(v.split(':')[0]), v.split(':')[1]) for v in vals.split('|')] if vals else []


def utxo_index(up):
    """outpoint -> (row, ordinal, value), from the first wallet's listing"""
    idx = {}
    for r, lst in enumerate(up[0] or []):
        for o, (txid, n, v) in enumerate(lst):
            idx[(txid, n)] = (r, o, v)
    return idx


def fields_text(m, ap, uidx, raw, vals, spend):
    """the serialised transaction in the model's vocabulary: version/locktime/prev:seq:value:code|../d0:v+..+cN:total"""
    tx = parse_tx(raw)
    if tx is None or vals is None or len(vals) != len(tx['ins']):
        return 'UNREADABLE'
    ins = []
    used = {}
    for (txid, n, _, seq), (val, red) in zip(tx['ins'], vals):
        hit = uidx.get((txid, n))
        if hit is None:
            ins.append('x:%d:%d:x' % (seq, val))
            continue
        row, ordinal, _ = hit
        if spend['sel'] != 'e':         # the wallet chose: the model numbers the outputs of a row in order of use
            ordinal = used.get(row, 0)
            used[row] = ordinal + 1
        code = row if any(r is not None and r[row][0] == red for r in ap) else 'x'
        ins.append('%d:%d:%d:%s' % (2 * row + ordinal, seq, val, code))
    outs = []
    nreq = len(spend['vals'])
    for j, (v, spk) in enumerate(tx['outs'][:nreq]):
        outs.append('d%s:%d' % (j if spk == m['dests'][j % len(m['dests'])][1] else 'x', v))
    rest = tx['outs'][nreq:]
    if rest:
        outs.append('c%d:%d' % (len(rest), sum(v for v, _ in rest)))
    return '%d/%d/%s/%s' % (tx['version'], tx['locktime'], '|'.join(ins), '+'.join(outs))


def same2(c, io, mo):
    m = _ensure_meta(c)
    pi, pm = parse_answer2(io), parse_answer2(mo)
    if pi is None or pm is None:
        return io == mo
    if pi[0] != pm[0] or len(pi[1]) != len(pm[1]) or len(pi[3]) != len(pm[3]) or pi[2] is None:
        return False
    k, nw = m['k'], m['nw']
    for ri, rm in zip(pi[1], pm[1]):
        if ri is None or rm is None or len(ri) != len(rm):
            return False
        for (red_i, addr_i, own_i, path_i), (red_m, hash_m, own_m, path_m) in zip(ri, rm):
            if red_i != red_m or own_i != own_m or not ('/' + path_m).endswith('/' + path_i):
                return False
            if hash_m in ('ERR', '-') or addr_i != net_address_of_hash(nw, k, bytes.fromhex(hash_m)):
                return False
    if pi[3] and (not pi[2] or pi[2][0] is None):
        return False
    uidx = utxo_index(pi[2]) if pi[3] else {}
    for ci, (oi, om) in enumerate(zip(pi[3], pm[3])):
        if 'EXC' in om:
            om = om[:om.index('EXC') + 1]
        oi = ['EXC' if o.startswith('EXC') else o for o in oi]
        if len(oi) != len(om):
            return False
        hi, hm = [], []
        for a, b in zip(oi, om):
            ha, raw, vals = split_obs(a)
            hb, fb, _ = split_obs(b + '~') if '~' in b else (b, None, None)
            hi.append(ha)
            hm.append(hb)
            if raw is not None and ha != 'P1':
                if fb is None or fields_text(m, pi[1], uidx, raw, vals, m['spends'][ci]) != fb:
                    return False
        if _mask_dups(hi) != _mask_dups(hm):
            return False
    return True


# ---------------------------------------------------------------- oracle for the second generation
def walk_chain2(chain, wallets, rows='0'):
    """(op, signers before, signers after, wallet the transaction is in) for every op; every op yields an observation.
    The signers are those of the LEAST signed input (kPR signs only the inputs that spend address row R)."""
    per_in = [set() for _ in rows]
    cur = None
    out = []

    def least():
        return set(min(per_in, key=len))
    for o in chain.split('.'):
        before = least()
        if o[0] == 'c':
            cur = int(o[1:])
        elif o == 's':
            for who, pr in wallets[cur]:
                if pr:
                    for s_ in per_in:
                        s_.add(who)
        elif o[0] == 'k':
            for s_, r in zip(per_in, rows):
                if r == o[2]:
                    s_.add(int(o[1]))
        elif o[0] in 'odr':
            cur = int(o[1:])
        out.append((o, before, least(), cur))
    return out


def spec_sequence(rbf, locktime):
    """BIP125: a sequence below 0xfffffffe signals replaceability; nLockTime is honoured only if some input is not
    final (0xffffffff).  The library documents 0xfffffffd for replace_by_fee."""
    return SEQ_RBF if rbf else (SEQ_LOCKTIME if locktime else SEQ_FINAL)


def classify2(chain, pos, m, spend):
    """decided from the case alone: the first recorded class met by the ops up to observation `pos`"""
    steps = walk_chain2(chain, m['wallets'], spend['rows'])
    creator = steps[0][3]
    lock = spend['lock'] if spend['lock'] else (BLOCKCOUNT if m['afs'][creator] == '1' else 0)
    seq = spec_sequence(spend['rbf'], lock)
    nin = len(spend['rows'])
    for (o, before, after, cur) in steps[:pos + 1]:
        imp_default = SEQ_LOCKTIME if m['afs'][cur] == '1' else SEQ_FINAL
        if o[0] == 'r':
            if 0 < len(before) < m['m']:
                return 'raw_handoff_partial'
        if o[0] == 'd':
            if (nin >= 2 and 0 < len(before) < m['m']) or len(before) > m['m']:
                return 'dict_handoff_untagged'
    return None


_CHANGE_CACHE = {}


def is_own_change_script(m, spk, order=None):
    """is spk the address of the cosigners' m-of-n script on the change branch (any cosigner index for the purpose-45
    structure, address index below 8 + 3 per chain of the case: every spend that is sent uses up its change keys)?
    order: the participants in script order when sort_keys is off"""
    key = (tuple(m['seeds']), m['k'], m['coin'], m['m'], tuple(order or ()))
    known = _CHANGE_CACHE.setdefault(key, {'scripts': set(), 'done': set()})
    if spk in known['scripts']:
        return True
    for idx in range(8 + 3 * len(m['chains'])):
        for cp in (range(m['n']) if m['k'] == 'L' else [0]):
            if (cp, idx) in known['done']:
                continue
            known['done'].add((cp, idx))
            pubs = [derive_child(s_, m['k'], cp, idx, 1, m['coin']) for s_ in m['seeds']]
            if order:
                ks = [pubs[w] for w in order]
                sc = bytes([80 + m['m']]) + b''.join(bytes([len(x)]) + x for x in ks) + bytes([80 + len(ks), 0xae])
            else:
                sc = spec_script(m['m'], pubs)
            known['scripts'].add(spec_spk(m['k'], sc))
            if spk in known['scripts']:
                return True
    return False


def row_script(m, ap, row):
    """(redeem script, keys in script order) the funds of an address row are locked to"""
    if m['sort']:
        return spec_script(m['m'], m['childs'][row]), sorted(m['childs'][row])
    cell = next(r for r in ap if r is not None)[row]
    red = bytes.fromhex(cell[0])
    return red, [m['childs'][row][int(w)] for w in cell[2].split('.')]


def tx_defect(m, ap, uidx, tx):
    """None when every input of the serialised transaction satisfies the script of the output it spends"""
    for i, (txid, n, _, _) in enumerate(tx['ins']):
        hit = uidx.get((txid, n))
        if hit is None:
            return 'input %d spends %s:%d, not an unspent output of the cosigners' % (i, txid[:12], n)
        red, keys = row_script(m, ap, hit[0])
        d = multisig_input_defect(m['k'], tx, i, red, hit[2], m['m'], keys)
        if d:
            return 'input %d: %s' % (i, d)
    return None


def creation_defect(m, ap, up, uidx, creator, spend, tx, vals):
    """what the freshly created transaction gets wrong with respect to the request (None: nothing)"""
    afs = m['afs'][creator] == '1'
    if tx['version'] not in (1, 2):
        return 'version %d' % tx['version']
    if spend['lock']:
        if tx['locktime'] != spend['lock']:
            return 'locktime %d requested, transaction carries %d' % (spend['lock'], tx['locktime'])
    elif tx['locktime'] not in ((BLOCKCOUNT, BLOCKCOUNT + 1) if afs else (0,)):
        return 'locktime %d with anti_fee_sniping %s (block height %d)' % (tx['locktime'], afs, BLOCKCOUNT)
    seqs = [q for _, _, _, q in tx['ins']]
    if spend['rbf'] and any(q != SEQ_RBF for q in seqs):
        return 'replace_by_fee requested, sequences %s' % [hex(q) for q in seqs]
    if not spend['rbf'] and any(q < SEQ_LOCKTIME for q in seqs):
        return 'replace_by_fee not requested but sequences %s signal it (BIP125)' % [hex(q) for q in seqs]
    if tx['locktime'] and all(q == SEQ_FINAL for q in seqs):
        return 'locktime %d is not enforceable: every input is final' % tx['locktime']
    outpoints = [(t, n) for t, n, _, _ in tx['ins']]
    if len(set(outpoints)) != len(outpoints) or any(o not in uidx for o in outpoints):
        return 'inputs are not distinct unspent outputs of the wallet'
    if spend['sel'] == 'e':
        used = {}
        want = []
        for ch in spend['rows']:
            r = int(ch)
            u = up[creator][r][used.get(r, 0)]
            used[r] = used.get(r, 0) + 1
            want.append((u[0], u[1]))
        if outpoints != want:
            return 'inputs are not the requested outpoints in the requested order'
    for i, ((t, n), (val, red)) in enumerate(zip(outpoints, vals)):
        row, _, uval = uidx[(t, n)]
        if val != uval:
            return 'input %d: amount %d held for an output of %d' % (i, val, uval)
        if red != row_script(m, ap, row)[0].hex():
            return 'input %d: script code is not the redeem script of the address it spends' % i
    total_in = sum(uidx[o][2] for o in outpoints)
    nreq = len(spend['vals'])
    if len(tx['outs']) < nreq:
        return 'requested outputs missing'
    for j, (v, spk) in enumerate(tx['outs'][:nreq]):
        if v != spend['vals'][j] or spk != m['dests'][j % len(m['dests'])][1]:
            return 'output %d is not the requested (amount, destination)' % j
    change = tx['outs'][nreq:]
    left = total_in - sum(spend['vals']) - spend['fee']
    if left < 0:
        return 'transaction created although the inputs do not cover outputs and fee'
    if left <= DUST:
        if change:
            return 'change output for a remainder of %d (dust limit %d)' % (left, DUST)
    else:
        if len(change) != spend['nch']:
            return '%d change output(s), %d requested' % (len(change), spend['nch'])
        if sum(v for v, _ in change) != left:
            return 'change %d, but inputs - outputs - fee = %d' % (sum(v for v, _ in change), left)
        if any(v <= DUST for v, _ in change):
            return 'a change output at or below the dust limit'
        order = None
        if not m['sort']:       # supplied order decides: the order this wallet uses for its first address row
            order = [int(w) for w in ap[creator][0][2].split('.')]
        for v, spk in change:
            if not is_own_change_script(m, spk, order):
                return 'change of %d does not go to an address of the cosigners\' change branch' % v
    return None


def field_diff(tx0, vals0, tx, vals):
    """first committed field in which two serialisations differ"""
    if tx['version'] != tx0['version']:
        return 'version %d -> %d' % (tx0['version'], tx['version'])
    if tx['locktime'] != tx0['locktime']:
        return 'locktime %d -> %d' % (tx0['locktime'], tx['locktime'])
    if len(tx['ins']) != len(tx0['ins']):
        return 'number of inputs %d -> %d' % (len(tx0['ins']), len(tx['ins']))
    for i, (a, b) in enumerate(zip(tx0['ins'], tx['ins'])):
        if (a[0], a[1]) != (b[0], b[1]):
            return 'input %d outpoint %s:%d -> %s:%d' % (i, a[0][:12], a[1], b[0][:12], b[1])
        if a[3] != b[3]:
            return 'input %d sequence 0x%08x -> 0x%08x' % (i, a[3], b[3])
    if tx['outs'] != tx0['outs']:
        return 'outputs %s -> %s' % ([(v, s_.hex()[:16]) for v, s_ in tx0['outs']], [(v, s_.hex()[:16]) for v, s_ in tx['outs']])
    if vals is not None and vals0 is not None:
        for i, (a, b) in enumerate(zip(vals0, vals)):
            if a[0] != b[0]:
                return 'input %d amount %d -> %d' % (i, a[0], b[0])
            if a[1] != b[1]:
                return 'input %d script code changed' % i
    return None


def chain_failures2(c, io):
    """(chain, position, text, class) for the first observation of every chain that contradicts the property"""
    m = _ensure_meta(c)
    p = parse_answer2(io)
    if p is None or (m['chains'] and (p[2] is None or not p[2] or p[2][0] is None)):
        return [(None, 0, 'unexpected answer %r' % io[:160], None)]
    wp, ap, up, xp = p
    fails = []
    uidx = utxo_index(up) if m['chains'] else {}
    for ci, (chain, obs) in enumerate(zip(m['chains'], xp)):
        spend = m['spends'][ci]
        steps = walk_chain2(chain, m['wallets'], spend['rows'])

        def fail(pos, text):
            fails.append((chain, pos, text, classify2(chain, pos, m, spend)))
        starved = spend['sel'] != 'e' and int(spend['sel'][1:]) > UTXO_CONFIRMS
        if starved:
            if obs != ['EXC:WalletError']:
                fail(0, 'min_confirms=%s with outputs of %d confirmations: expected a refusal, got %s'
                     % (spend['sel'][1:], UTXO_CONFIRMS, ','.join(obs)[:80]))
            continue
        if len(obs) != len(steps) or any(o.startswith('EXC') for o in obs):
            fail(len(obs) - 1, 'ceremony raised / stopped early: %s' % ','.join(o[:40] for o in obs)[-100:])
            continue
        tx0 = vals0 = None
        for pos, ((o, before, after, cur), ob) in enumerate(zip(steps, obs)):
            head, raw, vals = split_obs(ob)
            want = len(after) >= m['m']
            tx = parse_tx(raw) if raw is not None else None
            if o == 'p':
                got = head == 'P1'
                if got != want:
                    fail(pos, 'send() pushed=%s with %d distinct signer(s) of %d required on the least signed input' % (got, len(after), m['m']))
                    break
                if got:
                    if tx is None:
                        fail(pos, 'pushed transaction is unreadable')
                        break
                    d = field_diff(tx0, None, tx, None) or tx_defect(m, ap, uidx, tx)
                    if d:
                        fail(pos, 'pushed transaction: %s' % d)
                        break
                continue
            got = head.split('=')[1]
            if tx is None or vals is None or len(vals) != len(tx['ins']):
                fail(pos, 'after %s: serialised transaction unreadable' % o)
                break
            if pos == 0:
                tx0, vals0 = tx, vals
                d = creation_defect(m, ap, up, uidx, cur, spend, tx, vals)
                if d:
                    fail(pos, 'created spend: %s' % d)
                    break
            else:
                d = field_diff(tx0, vals0, tx, vals)
                if d:
                    fail(pos, 'after %s the transaction is no longer the one that was created: %s' % (o, d))
                    break
            if got not in ('0', '1'):
                fail(pos, 'verified and verify() differ (%s)' % head)
                break
            if (got == '1') != want:
                fail(pos, 'after %s: verified=%s with %d distinct signer(s) of %d required on the least signed input' % (o, got, len(after), m['m']))
                break
            if got == '1':
                d = tx_defect(m, ap, uidx, tx)
                if d:
                    fail(pos, 'after %s: verified, but the serialised transaction does not satisfy the script: %s' % (o, d))
                    break
    return fails


def prop_check2(c, io):
    m = _ensure_meta(c)
    if io.startswith('CRASH') or io == 'BADREQ':
        return 'unexpected answer %r' % io[:160]
    p = parse_answer2(io)
    if p is None:
        return 'unexpected answer %r' % io[:160]
    wp, ap, up, xp = p
    if any(r is None for r in ap) or any(w[0] == 'ERR' for w in wp):
        return 'a cosigner wallet could not be created: %s' % io[:120]
    # (a) all cosigner wallets derive the same redeem script and address for the same path
    same_supply = all(w == m['wallets'][0] for w in m['wallets'])
    if m['sort'] or same_supply:
        for j, (ch, idx) in enumerate(m['rows']):
            cells = set((r[j][0], r[j][1]) for r in ap)
            if len(cells) != 1:
                return 'cosigner wallets disagree on redeem script / address for row %d (change %d, index %d): %s' % (
                    j, ch, idx, sorted(cells)[:2])
            if m['sort']:
                sc = spec_script(m['m'], m['childs'][j])
                red, addr = next(iter(cells))
                if red != sc.hex():
                    return 'redeem script is not the BIP67-ordered BIP11 script of the cosigners\' child keys (row %d)' % j
                if addr != net_spec_address(m['nw'], m['k'], sc):
                    return 'address %s is not the %s %s address of the redeem script' % (addr, m['nw'], KINDS[m['k']])
            paths = set(r[j][3] for r in ap)
            want = '/' + path_text(m['k'], m['cpath'], idx, ch, m['coin'])
            # a wallet that holds only account-level keys reports the path relative to them; wallets of one depth agree
            if not all(want.endswith('/' + p_) for p_ in paths):
                return 'key path differs from the documented structure: %s' % sorted(paths)
            for depth in (True, False):      # wallets whose own key is a depth-0 private key / all others
                ps = set(r[j][3] for r, fo in zip(ap, m['forms']) if any(f in 'Mm' for f in fo) == depth)
                if len(ps) > 1:
                    return 'key path differs between cosigner wallets: %s' % sorted(ps)
    if (m['sort'] or same_supply) and up is not None and len(set(repr(u) for u in up if u is not None)) > 1:
        return 'cosigner wallets see different unspent outputs for the same addresses'
    # (b) valid and pushed exactly when at least m distinct cosigners have signed; the spend stays the spend
    f = chain_failures2(c, io)
    if f:
        return '%s [chain %s, step %d]' % (f[0][2], f[0][0], f[0][1])
    return None


def _known(cls):
    def pred(c, io, mo):
        f = chain_failures2(c, io) if _ensure_meta(c).get('fmt') == 2 else chain_failures(c, io)
        return bool(f) and all(x[3] is not None for x in f) and any(x[3] == cls for x in f) and \
            prop_check_agreement_only(c, io) is None
    return pred


def prop_check_agreement_only(c, io):
    saved = _ensure_meta(c)['chains']
    c.meta['chains'] = []
    try:
        return prop_check(c, io)
    finally:
        c.meta['chains'] = saved


KNOWN_CLASSES = {
    'raw_handoff_partial': _known('raw_handoff_partial'),
    'dict_handoff_untagged': _known('dict_handoff_untagged'),
}


_KNOWN_ANSWERS = {}


def reproduce_known(entry, rundir):
    """all recorded witnesses are replayed in ONE adapter run (its worker pool answers them side by side)"""
    from core import run_impl, load_known
    req = entry['witness']['request']
    if req not in _KNOWN_ANSWERS:
        reqs = [e['witness']['request'] for e in load_known(PROP) if e.get('status') == 'known' and 'witness' in e]
        if req not in reqs:
            reqs.append(req)
        rc, out, err = run_impl(IMPL, reqs, rundir)
        if len(out) == len(reqs):
            _KNOWN_ANSWERS.update(zip(reqs, out))
    return _KNOWN_ANSWERS.get(req) == entry['witness']['impl_answer']


# ---------------------------------------------------------------- extraction cross-check
GOLDEN_HEADER = """From Coq Require Import ZArith List Bool. From Coq.Strings Require Import Byte.
From Verif Require Import Lib.Bytes Model.Wire Model.Multisig. Import ListNotations. Open Scope Z_scope."""


def _coq_bytes(b):
    return '[' + '; '.join('x%02x' % x for x in b) + ']'


def _coq_sig(tok):
    by, tag = tok.split(':')
    return '{| sg_by := %s; sg_tag := %s |}' % (by, 'None' if tag == '-' else 'Some %s' % tag)


def golden2(c, mo):
    """cer2: redeem script of wallet 0 / row 0, and the fields of the first chain's spend as created"""
    p = parse_answer2(mo)
    if p is None:
        return None
    m = _ensure_meta(c)
    wp, ap, _, xp = p
    toks = c.req.split(' ')
    ks = []
    for e in toks[7].split(';')[0].split(','):
        who, form, hexm = e.split(':')
        ks.append('({| co_master := %s; co_private := %s; co_who := %s |}, %s)' % (
            _coq_bytes(bytes.fromhex(hexm)), 'true' if form in PRIVATE_FORMS else 'false', who,
            _coq_bytes(m['childs'][0][int(who)])))
    red = ap[0][0][0]
    lhs = ['lib_wallet_redeemscript [%s] %d %s' % ('; '.join(ks), m['m'], 'true' if m['sort'] else 'false')]
    rhs = ['None' if red == 'ERR' else 'Some ' + _coq_bytes(bytes.fromhex(red))]
    if m['chains'] and xp:
        sp = m['spends'][0]
        creator = int(m['chains'][0].split('.')[0][1:])
        used = {}
        ins = []
        for ch in sp['rows']:
            r = int(ch)
            ins.append('(%d, %d, %d)' % (2 * r + used.get(r, 0), utxo_value(m['vstep'], r, used.get(r, 0)), r))
            used[r] = used.get(r, 0) + 1
        first = xp[0][0]
        want = None
        if first == 'EXC':
            want = 'None'
        elif '~' in first:
            ver, lock, itxt, otxt = first.split('~', 1)[1].split('/')
            outs = []
            ok = True
            for o in otxt.split('+'):
                d, v = o.split(':')
                if d[0] == 'd':
                    outs.append('{| to_dest := %s; to_value := %s |}' % (d[1:], v))
                elif d == 'c1':
                    outs.append('{| to_dest := -1; to_value := %s |}' % v)
                else:
                    ok = False
            if ok:
                want = 'Some {| tf_version := %s; tf_locktime := %s; tf_ins := [%s]; tf_outs := [%s] |}' % (
                    ver, lock, '; '.join('{| ti_prev := %s; ti_seq := %s; ti_value := %s; ti_code := %s |}' % tuple(i.split(':'))
                                         for i in itxt.split('|')), '; '.join(outs))
        if want:
            lhs.append('lib_create_fields {| ev_blockcount := %d; ev_dust := %d; ev_confirms := %d |} %s '
                       '{| sp_rbf := %s; sp_locktime := %d; sp_fee := %d; sp_outs := [%s]; sp_nchange := %d%%nat; '
                       'sp_ins := [%s]; sp_minconf := %s |}' % (
                           BLOCKCOUNT, DUST, UTXO_CONFIRMS, 'true' if m['afs'][creator] == '1' else 'false',
                           'true' if sp['rbf'] else 'false', sp['lock'], sp['fee'], '; '.join(str(v) for v in sp['vals']),
                           sp['nch'], '; '.join(ins), 'None' if sp['sel'] == 'e' else 'Some %s' % sp['sel'][1:]))
            rhs.append(want)
    if len(lhs) == 1:
        return '%s = %s' % (lhs[0], rhs[0])
    return '(%s, %s) = (%s, %s)' % (lhs[0], lhs[1], rhs[0], rhs[1])


def golden(c, mo):
    if _ensure_meta(c).get('fmt') == 2:
        return golden2(c, mo)
    p = parse_answer(mo)
    if p is None:
        return None
    m = _ensure_meta(c)
    wp, ap, xp = p
    lhs, rhs = [], []
    # wallet 0, address 0: redeem script from the supplied and derived keys
    toks = c.req.split(' ')
    w0 = toks[7].split(';')[0].split(',')
    ks = []
    for e in w0:
        who, pr, hexm = e.split(':')
        ks.append('({| co_master := %s; co_private := %s; co_who := %s |}, %s)' % (
            _coq_bytes(bytes.fromhex(hexm)), 'true' if pr == '1' else 'false', who, _coq_bytes(m['childs'][0][int(who)])))
    red = ap[0][0][0]
    lhs.append('lib_wallet_redeemscript [%s] %d %s' % ('; '.join(ks), m['m'], 'true' if m['sort'] else 'false'))
    rhs.append('None' if red == 'ERR' else 'Some ' + _coq_bytes(bytes.fromhex(red)))
    # first chain: the whole observation list
    if m['chains'] and xp and len(m['inputs']) == 1:
        chain = m['chains'][0]
        ops = chain.split('.')
        w0i = int(ops[0][1:])
        owners = ap[w0i][0][2].split('.')
        cur = w0i
        mops = []
        for o in ops[1:]:
            if o == 's':
                pr = [who for who, p_ in m['wallets'][cur] if p_]
                mops.append('MSign (%s)' % ('Some %d' % pr[0] if len(pr) == 1 else 'None'))
            elif o == 'p':
                mops.append('MSend')
            else:
                cur = int(o[1:])
                mops.append('MHand %s' % {'o': 'HObject', 'd': 'HDict', 'r': 'HRaw'}[o[0]])
        obs = []
        for ob in xp[0]:
            if ob in ('P0', 'P1'):
                obs.append('ObPushed %s' % ('true' if ob == 'P1' else 'false'))
            elif ob == 'EXC':
                obs.append('ObRaise')
            else:
                sg, v = ob.split('=')
                ins = ['[' + ('' if s == '_' else '; '.join(_coq_sig(t) for t in s.split('+'))) + ']' for s in sg.split('|')]
                obs.append('ObState %s [%s]' % ('true' if v == '1' else 'false', '; '.join(ins)))
        lhs.append('ms_run %d%%nat (ms_init [[%s]]) [%s]' % (m['m'], '; '.join(owners), '; '.join(mops)))
        rhs.append('[%s]' % '; '.join(obs))
    if len(lhs) == 1:
        return '%s = %s' % (lhs[0], rhs[0])
    return '(%s, %s) = (%s, %s)' % (lhs[0], lhs[1], rhs[0], rhs[1])
