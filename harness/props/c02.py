"""C02 — transaction verification is sound and complete for standard inputs."""
import itertools
from core import Case

PROP = 'C02'
COQ_FILES = ['Extract/C02.v', 'Proofs/SignPlaceSeq.v', 'Proofs/SignPlaceTx.v', 'Proofs/TamperDigest.v',
             'Proofs/TamperDigestWitness.v', 'Proofs/SignPlaceHashType.v', 'Proofs/VerifyThreshold.v',
             'Proofs/VerifyObject.v', 'Properties/C02.v']
DRIVER = 'c02'
IMPL = 'harness/impl/c02_impl.py'
ALLOWED_AXIOMS = []
# when the proof side breaks (e.g. the source tie of Gen/GenC02.v) the search is widened with this many thorough-tier cases
ESCALATE_CAP = 1500
ASSUMPTIONS = [
    'theorems are about coq/Model/VerifyInput.v and coq/Model/SignPlace.v (lib_* mirrors Input.verify, '
    'Transaction.verify, Transaction.sign of bitcoinlib/transactions.py) and hold for an ARBITRARY signature '
    'relation sv; that ECDSA signatures of one digest/key are not valid for another digest/key is not proved '
    '(unforgeability; the ECDSA layer is C13) — in the correspondence it is measured with fastecdsa on every case',
    'sign_then_verify / sign_history_* / tx_history_* (coq/Model/SignSeq.v, coq/Proofs/SignPlaceSeq.v, SignPlaceTx.v): '
    'every history of sign() and verify() calls on one input, and of Transaction.sign (all inputs / one target) and '
    'Transaction.verify calls on a whole transaction, starting unsigned (any signer subsets/orders, repeated and foreign signers, '
    'fail_on_unknown_key, replace_signatures); premises: a key\'s own signature verifies (C13), pairwise distinct keys '
    '(Input.__init__ removes repeated keys), guard resign_free_all (excludes known class resign_keeps_stale) and, when '
    'a verification happens between sign() calls, dup_point_free (excludes known class dup_point_keys); each guard has '
    'a _refuted Example.  One digest per history (a digest change between calls is the other half of '
    'resign_keeps_stale); signature-list edits made by hand are outside these theorems (covered by verify_sound / '
    'verify_exact and the correspondence)',
    'tamper_changes_digest / tamper_detected / tamper_detected_tx (coq/Proofs/TamperDigest.v) are stated on the C01 preimage model '
    '(Model/Sighash.v, hash types treated like SIGHASH_ALL, wf_stx domain) for an arbitrary double hash H: the '
    'conclusion is "digest differs OR an explicit collision of H"; the step from a different digest to "the old '
    'signatures do not count" is the premise bound_to (unforgeability), visible in the theorem statement',
    'tie to /repo: differential correspondence on real transactions built, signed, edited, serialized and re-parsed '
    'through the public API with fixed test keys; the model runs the same scenario with the signature relation '
    'given by construction (signer point, digest id, variant) and both the verdicts and the validity matrices agree',
    'Python object identity is not modelled: when Transaction.sign places one Signature object into two slots '
    '(only inside the recorded class resign_keeps_stale) the adapter replaces the duplicate by an equal copy before '
    'the next step',
    'inputs hold public keys only (Transaction.sign also signs with private keys stored in the input), '
    'no coinbase inputs in scenarios (coinbase convention is in the model and theorems); Transaction.sign signs '
    'SIGHASH_ALL only (it refuses other types); which fields a digest commits to is C01 — here the scenario states '
    'which digests change and the matrix, computed WITHOUT the library, confirms it',
    'hash type: a signature carries a hash-type byte; Input.hash_type (the digest Transaction.verify asks for) is set '
    'by the parse path from the first signature and by Input(signatures=...) from the last non-zero one '
    '(lib_parsed_ht / lib_ctor_ht in Model/SignPlace.v; flag fixed=false keeps the parse path before fix C02-5); '
    'verify_uses_signature_hash_type / signature_for_other_hash_type_fails are for an arbitrary relation indexed by the '
    'digest.  In the scenario machine a signature is valid under the library digest of an input for hash type h iff it '
    'was made for h and that library digest is the consensus one (every BIP143 input; legacy inputs unless h has '
    'ANYONECANPAY with several inputs or base type NONE/SINGLE — C01 known finding legacy_non_all_hashtype, excused '
    'here by the same class semantics and only while C01 records it).  The oracle matrix is ECDSA over the consensus '
    'digest (independent legacy/BIP143 code of harness/props/c01.py over fields and, for parsed transactions, '
    'signatures read from the bytes by an own parser) for the byte EACH signature carries.  Digest ids are those of '
    'SIGHASH_ALL: no field is changed after signatures for a type that commits to less are in place.  Bare multisig '
    'inputs cannot be serialized with signatures through the API (update_scripts has no branch) and are not generated',
    'one attribute written by hand (ops A / AW / AX; coq/Proofs/VerifyObject.v): the oracle judges the BYTES - verify() of '
    'the object must equal the verdict of an own consensus-style verifier (harness/props/c01.py verify_input: structure of '
    'scriptSig / witness, exactly m signatures, CHECKMULTISIG order, digests per hash-type byte) on what raw() of that '
    'object returns at that moment, against the spent outputs as the scenario describes them (kind, keys, m; the amount '
    'is what Input.value says: no serialization carries it).  Strict for every attribute of Transaction / Input / Output '
    'in the frozen list except (a) the verification context Input.hash_type, sigs_required, keys, signatures, '
    'redeemscript, locking_script and the derived scripts Input.unlocking_script, witnesses, which only update_scripts() '
    'brings in line (proposed known class object_bytes_out_of_sync; generated only while recorded) and (b) the kind '
    'switches Input.script_type / witness_type, Transaction.witness_type and the lists Transaction.inputs / outputs '
    '(not written).  Attributes of Signature and Key objects are not written.  The source tie (translator/gen_c02.py -> '
    'coq/Gen/GenC02.v) pins which attribute names raw / signature_segwit / signature / signature_hash / verify / '
    'Input.verify read and write',
    'requests mut / sigf: the model side is the same extracted machine (run_scenario) driven by ocaml/c02_driver.ml: a '
    're-signing library method = new digest id for every input + Transaction.sign(replace_signatures=True) on the inputs the '
    'method re-signs (all, or the one set_locktime_relative_* / sign_and_update(i) names); signers are the first m listed keys '
    '(any other choice is inside the recorded class resign_keeps_stale); the sequence / locktime configuration, the argument '
    'form of a signature and the leading bytes of r and s are invisible to the model - the independent oracle (consensus '
    'verdict on raw(), harness/props/c01.py) carries that part; closed instances in coq/Properties/C02.v '
    '(resign_all_after_field_change_verifies, field_change_without_resign_refuted, '
    'relative_locktime_resigns_one_input_refuted), no general theorem across a digest change; multi-input relative '
    'locktimes are generated only while the proposed class relative_locktime_resigns_one_input is recorded',
    'threshold on the parse path (request thr; coq/Proofs/VerifyThreshold.v): gen_threshold is the translation of the '
    'statements of Input.update_scripts that assign sigs_required; the theorems cover every script whose first item is '
    'the number m: OP_m for m <= 16 on the working tree, the pushed number 01 m for 17 <= m <= 127 only for the '
    'repaired reading (proposed fix C02-7 / known class threshold_above_16_pushed; m >= 17 generated only while recorded).  '
    'Script.parse (bitcoinlib/scripts.py) finds keys and signatures; only its result for the legacy path (n <= 15) is '
    'modelled.  Multisig scripts the LIBRARY builds for m or n above 16 carry number + 80 as an opcode byte (0x61 .. = '
    'OP_NOP, OP_VER, OP_IF, OP_NOTIF), which no consensus verifier reads as a number (Example '
    'lib_ms_script_above_16_refuted): outside standard inputs, not generated',
]
RULE = ('exhaustive m-of-n / signer subsets / permutations / call splits for small n on every standard input type, '
        'every single-field tampering and signature-list edit at every position before and after raw()/parse, '
        'the hash-type byte of every serialized signature of every input kind changed to 02/03/81/82/83/00/04/ff in the '
        'bytes of raw() (own reader/writer) then parse+verify, and on the constructor path (add_input(signatures=...)); '
        'third-party signatures made by the harness over the consensus digest for 02/03/81/82/83/04 placed into every '
        'input kind, parse+verify must agree with consensus; '
        'seeded random op sequences (1-3 inputs, mixed types, duplicate and same-point keys, foreign signers); '
        'every attribute of the signed Transaction / Input / Output objects written ALONE on a deep copy (both copies of '
        'version and output index, every committed field, every other attribute) with verify() compared against the own '
        'verdict on raw() of the copy, for every input kind and two mixed transactions; the same writes on the live object '
        'before and after signing, then verify / parse; the same object-against-bytes observation at the end of every '
        'tamper / re-sign history and every random history without third-party signatures; m-of-n inputs parsed from raw bytes (own writer and library-built, '
        'signature list replaced in the bytes): every boundary m, n in {1, 2, 14, 15, 16, 17, 20} (P2SH n <= 15) quick / '
        'all 1 <= m <= n <= 20 thorough, with m-1 / m / m+1 / one / duplicated / reordered / corrupted / foreign signatures; '
        'library operations that re-sign (request mut): inputs of every kind holding the private keys of their first m keys, signed, '
        'in every starting configuration (final / 0xfffffffe / replace_by_fee / relative blocks / relative time / zero sequences, '
        'locktime 0 / blocks / time), then set_locktime_blocks / _time / _relative_blocks / _relative_time, sign_and_update, bumpfee, '
        'add_output + sign(replace_signatures), shuffle, merge_transaction, update_totals - alone as first call, in fixed chains '
        '(each called once and twice with other values) and in random chains: after EVERY call verify(), the independent '
        'consensus verdict on raw() and parse(raw()).verify() must all be True; signature argument forms (request sigf): every '
        'input kind rebuilt from public keys + signatures made by the harness (nonce searched so that r or s begins 0x30 / '
        '0x00 / >= 0x80 / in between) handed to add_input / Input as DER+type bytes and hex, 64 bytes r||s and 128 hex, '
        'Signature objects with and without key, Signature.hex() / bytes() / as_der_encoded(), Input.as_dict(): all kept, verify '
        'True, raw() valid; '
        'a case is non-trivial when it contains at least one verification verdict; distinct by request')

MULTI = ('sh', 'wsh', 'shwsh')
SINGLE = ('pkh', 'wpkh', 'shwpkh')
SINGLE_ALL = ('pkh', 'pk', 'wpkh', 'shwpkh')          # + pay-to-pubkey (the verifier supplies the key after parse)
LEGACY = ('pkh', 'pk', 'sh')
# hash-type bytes a serialized signature can carry: the five other standard ones, and undefined ones (0, 4, ff)
HT_TAMPER = (2, 3, 0x81, 0x82, 0x83, 0, 4, 0xff)
HT_FOREIGN = (2, 3, 0x81, 0x82, 0x83, 4)
SEGWIT = ('wpkh', 'shwpkh', 'wsh', 'shwsh')


# ---------------------------------------------------------------- scenario builder (generator side)
class Scn:
    """Builds the request line and, for honest histories, the property-level expectation of each verdict:
    '+' = must verify, '-' = must not verify, none = only the soundness oracle applies."""

    def __init__(self, inputs):
        self.inputs = inputs                      # [(type, m, [key tokens])]
        self.ops = []
        n = len(inputs)
        self.listed = [set(ks) for _, _, ks in inputs]
        self.signed = [dict() for _ in range(n)]  # digest id -> set of listed tokens that signed under it
        self.unknown = [False] * n                # expectation no longer derivable for this input
        self.active = set()                       # applied field changes
        self.ep_ids = [{frozenset(): 0} for _ in range(n)]
        self.epoch = [0] * n
        self.sign_epochs = [set() for _ in range(n)]

    def sign(self, signers, target=None, replace=False, fail=True):
        self.ops.append('S/%s/%s/%s/%s' % ('*' if target is None else target, 'r' if replace else 'n',
                                           'f' if fail else 'c', ','.join(signers) or '-'))
        for i in (range(len(self.inputs)) if target is None else [target]):
            if fail and any(s not in self.listed[i] for s in signers):
                # raises: this and the following inputs are not signed by this call
                for j in range(i, len(self.inputs)):
                    self.unknown[j] = True
                break
            new = {s for s in signers if s in self.listed[i]}
            if not new:
                continue
            self.sign_epochs[i].add(self.epoch[i])
            if len(self.sign_epochs[i]) > 1 and not replace:
                self.unknown[i] = True
            self.signed[i].setdefault(self.epoch[i], set()).update(new)
            if replace:
                for e in list(self.signed[i]):
                    if e != self.epoch[i]:
                        self.signed[i][e] -= new

    def expect(self):
        if any(self.unknown):
            return ''
        ok = all(len(self.signed[i].get(self.epoch[i], ())) >= m for i, (_, m, _) in enumerate(self.inputs))
        if not ok and any(len({k[:-1] for k in l}) < len(l) for l in self.listed):
            return ''       # one signature is valid for both listed encodings of its point: "fewer than m" is not decided here
        return '+' if ok else '-'

    def verify(self, both=True):
        e = self.expect()
        self.ops.append('V' + e)
        if both:
            self.ops.append('R' + e)

    def tamper(self, name, j, on=True):
        key = (name, j)
        (self.active.add if on else self.active.discard)(key)
        for i, (ty, _, _) in enumerate(self.inputs):
            rel = frozenset(k for k in self.active if k[0] != 'inv' or (k[1] == i and ty in SEGWIT))
            self.epoch[i] = self.ep_ids[i].setdefault(rel, len(self.ep_ids[i]))
        self.ops.append('T/%s/%d%s/%s' % (name, j, '+' if on else '-', ','.join(map(str, self.epoch))))

    # ---- one attribute written by hand
    def _recompute(self):
        for i, (ty, _, _) in enumerate(self.inputs):
            rel = frozenset(k for k in self.active if k[0] != 'inv' or (k[1] == i and ty in SEGWIT))
            self.epoch[i] = self.ep_ids[i].setdefault(rel, len(self.ep_ids[i]))

    def _epochs_if(self, key):
        """digest ids the inputs have if the change `key` counts (a label for 'another digest'; whether the library's
        digest sees the write is the model's business, whether the bytes change is read from the bytes)"""
        out = []
        for i, (ty, _, _) in enumerate(self.inputs):
            rel = frozenset(k for k in (self.active | {key}) if k[0] != 'inv' or (k[1] == i and ty in SEGWIT))
            out.append(self.ep_ids[i].setdefault(rel, len(self.ep_ids[i])))
        return out

    @staticmethod
    def _key(obj, attr, tag):
        cls, j = obj[0], (int(obj[1:]) if obj[0] != 't' else 0)
        name = SERIALISED.get((cls, attr)) or SHADOW_OF.get((cls, attr)) or 'attr.%s.%s' % (cls, attr)
        return (name, j, tag)

    def probe(self, obj, attr, variant='auto'):
        es = self._epochs_if(self._key(obj, attr, 'p%d' % len(self.ops)))
        self.ops.append('A/%s/%s/%s/%s' % (obj, attr, variant, ','.join(map(str, es))))

    def observe_both(self):
        """verify() of the object against the bytes it would broadcast, as it stands (an attribute nothing reads is
        written on the copy)"""
        self.probe('t', 'status')

    def write(self, obj, attr, variant='auto'):
        key = self._key(obj, attr, 'w%d' % len(self.ops))
        es = self._epochs_if(key)
        self.ops.append('AW/%s/%s/%s/%s' % (obj, attr, variant, ','.join(map(str, es))))
        if (obj[0], attr) in SERIALISED:
            # a field of the transaction changed: signatures made before are for another digest
            self.active.add(key)
            self._recompute()

    def place(self, i, ht, keys):
        """input i carries third-party signatures by `keys` (key order) for hash type ht; nothing is claimed about later
        V / R steps of the generic kind (Input.hash_type of the live object stays SIGHASH_ALL)"""
        self.unknown[i] = True
        self.ops.append('P/%d/%d/%s' % (i, ht, ','.join(keys)))

    def patched(self, kind, patches, mark=''):
        """kind 'Q': parse(raw() with hash-type bytes changed).verify(); 'C': inputs rebuilt from serialized signatures.
        mark '+' / '-' is set by the generator where the outcome is known by construction"""
        self.ops.append('%s%s/%s' % (kind, mark, ','.join('%d.%d.%d' % p for p in patches) or '-'))

    def edit(self, i, kind, pos, arg=None):
        self.unknown[i] = True
        self.ops.append('X/%d/%s/%d%s' % (i, kind, pos, '' if arg is None else '/' + str(arg)))

    def case(self, kind):
        req = 'scn %s %s' % (';'.join('%s/%d/%s' % (ty, m, ','.join(ks)) for ty, m, ks in self.inputs),
                             ';'.join(self.ops) or '-')
        return Case(kind, req)


# attributes of the three classes (frozen from the tree this check was written for; the adapter's AX op reports others).
# Python name -> how it is written when no explicit variant is given: by the type the attribute has at that moment.
T_ATTRS = ('block_hash', 'block_height', 'change', 'coinbase', 'confirmations', 'date', 'fee', 'fee_per_kb', 'flag', 'index',
           'input_total', 'locktime', 'output_total', 'rawtx', 'replace_by_fee', 'size', 'status', 'txhash', 'txid',
           'verified', 'version', 'version_int', 'vsize')
I_ATTRS = ('address', 'address_obj', 'compressed', 'double_spend', 'encoding', 'index_n', 'key_path', 'locktime_cltv',
           'locktime_csv', 'output_n', 'output_n_int', 'prev_txid', 'public_hash', 'script', 'sequence', 'sort', 'strict',
           'valid', 'value')
O_ATTRS = ('_address', '_address_obj', 'change', 'compressed', 'encoding', 'lock_script', 'output_n', 'public_hash',
           'public_key', 'script', 'script_type', 'spending_index_n', 'spending_txid', 'spent', 'value', 'versionbyte',
           'witness_type', 'witver')
# what the object believes about the spent output / holds as signatures (read by verification only) and the scripts
# update_scripts() derives from that (read by raw() only)
CTX_ATTRS = ('hash_type', 'sigs_required', 'keys', 'signatures', 'redeemscript', 'locking_script', 'unlocking_script',
             'witnesses')
# labels only (which digest-id label a write gets): the attribute raw() is believed to serialize a field from / its second copy
SERIALISED = {('t', 'version'): 'ver', ('t', 'locktime'): 'lock', ('i', 'prev_txid'): 'prev', ('i', 'output_n'): 'outn',
              ('i', 'sequence'): 'seq', ('i', 'value'): 'inv', ('o', 'value'): 'outv', ('o', 'lock_script'): 'outs'}
SHADOW_OF = {('t', 'version_int'): 'ver', ('i', 'output_n_int'): 'outn'}
EXPLICIT = {('t', 'version'): ('flip', 'hex:00000002'), ('t', 'version_int'): ('add:1', 'set:2'), ('t', 'locktime'): ('add:1',),
            ('i', 'prev_txid'): ('flip',), ('i', 'output_n'): ('flip', 'hex:00000007'), ('i', 'output_n_int'): ('add:1',),
            ('i', 'sequence'): ('add:-1', 'set:0'), ('i', 'value'): ('add:1', 'add:-1'), ('o', 'value'): ('add:1', 'add:-1'),
            ('o', 'lock_script'): ('flip',)}


def variants_of(cls, attr):
    return EXPLICIT.get((cls, attr), ('auto',))


def known_status(cid):
    """'known' / 'fixed' / None: how a finding is recorded (known_findings.json, VERIF_EXTRA_KNOWN)"""
    from core import load_known
    st = None
    for e in load_known(PROP):
        if e.get('id') == cid:
            st = e.get('status')
    return st


def toks(n, start=0):
    return ['%dc' % (start + i) for i in range(n)]


def tamper_fields(inputs):
    f = [('outv', 0), ('outv', 1), ('outs', 0), ('outs', 1), ('lock', 0), ('ver', 0)]
    for i in range(len(inputs)):
        f += [('prev', i), ('outn', i), ('seq', i), ('inv', i)]
    return f


def ordered_splits(seq):
    """all ways to cut an ordered signer sequence into consecutive sign() calls"""
    n = len(seq)
    for mask in range(1 << max(n - 1, 0)):
        calls, cur = [], [seq[0]]
        for i in range(1, n):
            if mask >> (i - 1) & 1:
                calls.append(cur)
                cur = []
            cur.append(seq[i])
        calls.append(cur)
        yield calls


# ---------------------------------------------------------------- generators
CORPUS = [
    'scn pkh/1/0c S/*/n/f/0c;V+;T/outv/0+/1;V-',                           # input_valid_stale (fixed, C02-1)
    'scn sh/2/0c,0u S/*/n/f/0c;X/0/ins/1/8c;V-;R-',                        # previous_signature_reuse (fixed, C02-2)
    'scn wsh/2/0c,0u S/*/n/f/0c;X/0/ins/1/8c;V-;R-',
    'scn shwsh/2/0u,0c S/*/n/f/0c;X/0/ins/1/8c;V-;R-',
    'scn sh/2/0c,1c S/*/n/f/0c;S/*/n/f/0c,1c;V+',                          # sign_already_signed_skips_keys (fixed, C02-3)
    'scn pkh/1/0c;pkh/1/1c S/*/n/c/1c;V;S/0/n/f/0c;V+',                    # sign_skips_remaining_inputs (fixed, C02-4)
    'scn sh/2/0c,0u S/*/n/f/0u;V;S/*/n/f/0c;V+;R+',                        # dup_point_keys (known)
    'scn sh/2/0c,1c,2c S/0/n/f/1c,2c;V+;T/outv/0+/1;V-;S/0/r/f/1c,2c;V+;R+',   # resign_keeps_stale (known)
    'scn sh/2/0c,1c,2c S/0/n/f/1c,2c;V+;S/0/r/f/1c,2c;V+;R+',
    'scn wpkh/1/0c S/*/n/f/0c;V+;R+;Q-/0.0.3;Q-/0.0.2;Q-/0.0.129',            # witness_signature_hash_type_ignored (fixed, C02-5)
    'scn wpkh/1/0c P/0/3/0c;R+;C+/-',                                           #   ... its completeness half
    'scn wsh/2/0c,1c,2c P/0/131/0c,2c;R+;C+/-',
    'scn wsh/2/0c,1c,2c S/*/n/f/0c,2c;R+;Q/0.1.3;C/0.0.3',                    # input_level_hash_type (known)
    'scn wpkh/1/0c S/*/n/f/0c;C/0.0.0',
    # the serialized version of a signed transaction written alone (both copies of the version): seeded change C02-p
    'scn wpkh/1/0c S/*/n/f/0c;V+;A/t/version/hex:00000002/1;A/t/version_int/set:2/2;AW/t/version/hex:00000002/3;V-;R-',
    'scn shwsh/2/0c,1c,2c AW/t/version_int/set:2/1;S/*/n/f/0c,2c;V+;R+;A/t/version/flip/2',
    'thr own wsh 16 16 0',                                                     # seeded change C02-r
    'thr lib shwsh 16 16 0',
    'thr own wsh 16 16 0.1.2.3.4.5.6.7.8.9.10.11.12.13.14.15',
    # library operations that re-sign, on inputs that are already non-final / called twice: seeded change C02-y
    'mut wpkh/1/0c rbf:0 ltt/1700000000;ltt/1800000000',
    'mut sh/2/0c,1c,2c nf:0 ltt/1700000000;ltb/800000;ltt/1800000000',
    # signatures handed over as 64 bytes r||s / 128 hex characters with r beginning 0x30: seeded change C02-z
    'sigf wpkh/1/0c r30 rsh add',
    'sigf sh/2/0c,1c,2c r30 asdict add',
]
def gen_cases(rng, tier):
    big = tier == 'thorough'
    cs = []
    nmax = 5 if big else 4
    # --- 0. corpus: the witnesses of every finding of this property (fixed ones must stay fixed), run first
    for req in CORPUS:
        cs.append(Case('corpus', req))
    # --- 1. every m-of-n, every subset of signers, (n <= 3: every order), every split into calls
    for ty in MULTI:
        for n in range(1, nmax + 1):
            keys = toks(n)
            for m in range(1, n + 1):
                for r in range(1, n + 1):
                    for sub in itertools.combinations(keys, r):
                        orders = itertools.permutations(sub) if n <= 3 else [sub]
                        for order in orders:
                            splits = list(ordered_splits(list(order)))
                            if n > 3:
                                splits = [splits[0], splits[-1]] if len(splits) > 1 else splits
                            for calls in splits:
                                s = Scn([(ty, m, keys)])
                                for c in calls:
                                    s.sign(c)
                                    s.verify()
                                cs.append(s.case('subset_order_split'))
    for ty in SINGLE_ALL:
        for k in ('0c', '0u'):
            s = Scn([(ty, 1, [k])])
            s.verify()
            s.sign([k])
            s.verify()
            s.sign([k])                 # already signed
            s.verify()
            s.sign([k], replace=True)
            s.verify()
            cs.append(s.case('single_key'))
            s = Scn([(ty, 1, [k])])     # foreign signer only
            s.sign(['7c'], fail=False)
            s.verify()
            s.sign(['7c'], fail=True)
            s.verify()
            s.edit(0, 'ins', 0, '7c')
            s.verify()
            cs.append(s.case('single_key_foreign'))
    # --- 2. re-signing, verification between calls, duplicate keys, same point twice, foreign signers
    for ty in MULTI:
        for keys, m in ((['0c', '1c', '0c'], 2), (['0c', '0c'], 1), (['0c', '0u'], 2), (['0c', '0u'], 1),
                        (['0u', '0c', '1c'], 2), (['0c', '1c', '0u'], 3), (['0c', '1c', '0u'], 2),
                        (['0c', '1u', '2c'], 2), (['0u', '1u'], 2)):
            distinct = list(dict.fromkeys(keys))
            for order in itertools.permutations(distinct):
                for interleave in (False, True):
                    s = Scn([(ty, m, keys)])
                    for k in order:
                        s.sign([k])
                        if interleave:
                            s.verify()
                    s.verify()
                    s.sign(list(order))                      # all again: already signed
                    s.verify()
                    s.sign(list(order), replace=True)
                    s.verify()
                    cs.append(s.case('dup_or_same_point_keys' if len(set(k[:-1] for k in distinct)) < len(distinct)
                                     or len(distinct) < len(keys) else 'resign'))
        for n, m in ((2, 1), (2, 2), (3, 2), (3, 3)):
            keys = toks(n)
            for j in range(n + 1):
                s = Scn([(ty, m, keys)])
                signers = keys[:j] + ['8c'] + keys[j:]
                s.sign(signers, fail=False)                  # a foreign key among the signers
                s.verify()
                s.sign(['8c', '9u'], fail=False)
                s.verify()
                s.sign(signers, fail=True)
                s.verify()
                cs.append(s.case('foreign_signer'))
            # fewer than m listed signers plus foreign signatures inserted by hand at every position
            for have in range(0, m + 1):
                for pos in range(have + 1):
                    s = Scn([(ty, m, keys)])
                    if have:
                        s.sign(keys[:have])
                    s.edit(0, 'ins', pos, '8c')
                    s.verify()
                    s.edit(0, 'ins', pos, '9c')
                    s.verify()
                    cs.append(s.case('foreign_signature_inserted'))
    # a call that names an already-signed key first / a first input that needs nothing (fixes C02-3, C02-4)
    for ty in MULTI:
        for n, m in ((2, 2), (3, 2), (3, 3)):
            keys = toks(n)
            for first in range(n):
                s = Scn([(ty, m, keys)])
                s.sign([keys[first]])
                s.verify()
                s.sign([keys[first]] + [k for k in keys if k != keys[first]])
                s.verify()
                cs.append(s.case('already_signed_first'))
        for other in SINGLE + MULTI:
            shape = [(ty, 1, ['0c', '1c']), (other, 1, ['2c']), (ty, 2, ['0c', '2c'])]
            for order in itertools.permutations(range(3)):
                s = Scn([shape[i] for i in order])
                s.sign(['0c'], target=0 if order[0] != 1 else 1)
                s.verify()
                s.sign(['0c'], fail=False)
                s.verify()
                s.sign(['2c'], fail=False)
                s.verify()
                s.sign(['2c', '0c', '1c'], fail=False)
                s.verify()
                cs.append(s.case('multi_input_partial'))
    # the recorded witness of finding dup_point_keys and its neighbours
    for ty in MULTI:
        for keys in (['0c', '0u'], ['0u', '0c'], ['0c', '0u', '1c'], ['1c', '0c', '0u']):
            for m in (2, 3):
                if m > len(keys):
                    continue
                s = Scn([(ty, m, keys)])
                s.sign([keys[0] if keys[0][0] == '0' else keys[1]])
                s.verify()
                s.edit(0, 'ins', 9, '8c')
                s.verify()
                cs.append(s.case('same_point_foreign'))
    # --- 3. every single-field tampering of a signed transaction, reverted, then re-signed
    shapes = [[(ty, 2, toks(3))] for ty in MULTI] + [[(ty, 1, ['0c'])] for ty in SINGLE] + \
             [[('sh', 2, toks(2)), ('wpkh', 1, ['2c'])], [('wsh', 1, toks(2)), ('pkh', 1, ['2u']), ('shwsh', 2, toks(2, 3))]]
    if big:
        shapes += [[(a, 1, ['0c']), (b, 2, toks(3, 1))] for a in SINGLE for b in MULTI]
    for shape in shapes:
        allk = sorted({k for _, _, ks in shape for k in ks})
        for name, j in tamper_fields(shape):
            for resign in (False, True):
                s = Scn(shape)
                for i, (ty, m, ks) in enumerate(shape):
                    s.sign(ks[:m] if not resign else ks[-m:], target=i)
                s.verify()
                s.tamper(name, j, True)
                s.verify()
                if resign:
                    for i, (ty, m, ks) in enumerate(shape):
                        s.sign(ks[-m:], target=i, replace=True)
                    s.verify()
                    s.observe_both()
                    s.tamper(name, j, False)
                    s.verify()
                else:
                    s.tamper(name, j, False)
                    s.verify()
                s.observe_both()
                cs.append(s.case('tamper_' + name))
    # --- 4. signature-list edits at every position (removed / duplicated / swapped / replaced / corrupted)
    for ty in MULTI + SINGLE:
        for n, m in (((2, 2), (3, 2), (3, 3), (3, 1)) if ty in MULTI else ((1, 1),)):
            keys = toks(n)
            for nsig in sorted({m, n}):
                for pos in range(nsig):
                    edits = [('drop', None), ('dup', None), ('swap', None), ('untag', None), ('ins', '8c'),
                             ('ins', keys[-1]), ('ins', keys[0])] + [('var', v) for v in (1, 2, 3, 4, 5)]
                    for kind, arg in edits:
                        s = Scn([(ty, m, keys)])
                        s.sign(keys[:nsig])
                        s.verify(both=False)
                        s.edit(0, kind, pos, arg)
                        s.verify()
                        if kind in ('drop', 'var', 'untag'):
                            s.sign([keys[pos % n]])             # sign again after the edit
                            s.verify()
                            s.sign([keys[pos % n]], replace=True)
                            s.verify()
                        cs.append(s.case('sig_edit_' + kind))
    # --- 4b. the hash-type byte of serialized signatures: every input kind, every position, in the bytes and on the
    #          constructor path; third-party signatures for the other hash types
    hts = tuple(range(256)) if big else HT_TAMPER
    for ty in SINGLE_ALL + MULTI:
        m, keys = (2, toks(3)) if ty in MULTI else (1, ['0c'])
        signers = [keys[0], keys[-1]] if ty in MULTI else keys
        for ki, chunk in enumerate([hts[j:j + 8] for j in range(0, len(hts), 8)]):
            # all serialized signatures of the input changed to the same byte: must not verify any more
            s = Scn([(ty, m, keys)])
            s.sign(signers)
            s.verify()
            s.patched('Q', [], '+')
            s.patched('C', [], '+')
            for ht in chunk:
                if ht == 1:
                    continue
                allpos = [(0, p_, ht) for p_ in range(m)]
                s.patched('Q', allpos, '-')
                s.patched('C', allpos, '-')
            cs.append(s.case('hash_byte_all_sigs'))
            if ty in MULTI:
                # one signature of several: consensus checks each signature under its own byte
                for pos in range(m):
                    s = Scn([(ty, m, keys)])
                    s.sign(signers)
                    for ht in chunk:
                        if ht != 1:
                            s.patched('Q', [(0, pos, ht)])
                            s.patched('C', [(0, pos, ht)])
                    cs.append(s.case('hash_byte_one_sig'))
        for ht in HT_FOREIGN + ((1, 0x84, 0xc1) if big else ()):
            s = Scn([(ty, m, keys)])
            s.place(0, ht, signers)
            s.patched('Q', [], '+')                       # = R: what consensus accepts must verify after parse
            s.patched('C', [], '+')
            other = 1 if ht != 1 else 3
            s.patched('Q', [(0, p_, other) for p_ in range(m)], '-')   # right signature, wrong byte
            s.patched('C', [(0, p_, other) for p_ in range(m)], '-')
            s.place(0, ht, signers[:m - 1] + ['8c'])      # a foreign signer for this hash type
            s.patched('Q', [], '-')
            cs.append(s.case('foreign_hash_type'))
    # several inputs of mixed kinds: one input's bytes changed / one input signed by a third party for another type
    for shape in ([('sh', 2, toks(3)), ('wpkh', 1, ['3c']), ('pkh', 1, ['4c'])],
                  [('wsh', 2, toks(3)), ('pk', 1, ['3u']), ('shwpkh', 1, ['4c'])],
                  [('shwsh', 1, toks(2)), ('wsh', 2, toks(2, 2))]):
        for i, (ty, m, ks) in enumerate(shape):
            s = Scn(shape)
            for j, (ty2, m2, ks2) in enumerate(shape):
                s.sign(ks2[:m2], target=j)
            s.verify()
            for ht in (3, 0x82, 0):
                s.patched('Q', [(i, p_, ht) for p_ in range(m)], '-')
                s.patched('C', [(i, p_, ht) for p_ in range(m)], '-')
            cs.append(s.case('hash_byte_multi_input'))
            for ht in (0x83, 2):
                s = Scn(shape)
                for j, (ty2, m2, ks2) in enumerate(shape):
                    if j != i:
                        s.sign(ks2[:m2], target=j)
                s.place(i, ht, ks[:m])
                s.patched('Q', [], '+')
                s.patched('C', [], '+')
                s.patched('Q', [(i, 0, 1)], '-' if m == 1 else '')
                cs.append(s.case('foreign_hash_type_multi_input'))
    # --- 5. larger n (sampled), random op sequences
    for _ in range(400 if big else 25):
        n = rng.randrange(5, 16)
        m = rng.randrange(1, n + 1)
        ty = rng.choice(MULTI)
        keys = toks(n)
        order = rng.sample(keys, rng.randrange(max(1, m - 1), n + 1))
        s = Scn([(ty, m, keys)])
        while order:
            c = rng.randrange(1, len(order) + 1)
            s.sign(order[:c])
            order = order[c:]
            if rng.random() < 0.4:
                s.verify()
        s.verify()
        cs.append(s.case('large_n'))
    for _ in range(12000 if big else 600):
        cs.append(random_scenario(rng, big))
    # --- 6. ONE attribute of the signed object written by hand: verify() of the object against the bytes it would broadcast
    shapes_w = [[(ty, 2, toks(3))] for ty in MULTI] + [[(ty, 1, ['0c'])] for ty in SINGLE_ALL] + \
               [[('sh', 2, toks(2)), ('wpkh', 1, ['2c'])], [('wsh', 1, toks(2)), ('pkh', 1, ['2u']), ('shwsh', 2, toks(2, 3))]]
    unsynced = known_status('object_bytes_out_of_sync') == 'known'
    for shape in shapes_w:
        def signed(partial=False):
            s = Scn(shape)
            for i, (ty, m, ks) in enumerate(shape):
                s.sign(ks[:m - 1] if partial and m > 1 else ks[:m], target=i)
            return s
        objs = [('t', T_ATTRS)] + [('i%d' % i, I_ATTRS) for i in range(len(shape))] + [('o0', O_ATTRS), ('o1', O_ATTRS)]
        for obj, attrs in objs:
            s = signed()
            s.verify()
            for attr in attrs:
                for v in variants_of(obj[0], attr):
                    s.probe(obj, attr, v)
            if obj == 't':
                s.ops.append('AX')
            cs.append(s.case('attr_probe'))
        if len(shape) == 1 and shape[0][1] > 1:
            s = signed(partial=True)          # one signature short: nothing verifies, whatever is written
            for (cls, attr), vs in EXPLICIT.items():
                s.probe({'t': 't', 'i': 'i0', 'o': 'o0'}[cls], attr, vs[0])
            cs.append(s.case('attr_probe'))
        if unsynced:
            for i, (ty, m, ks) in enumerate(shape):
                n, obj = len(ks), 'i%d' % i
                s = signed()
                for v in ('set:2', 'set:3', 'set:129', 'set:0'):
                    s.probe(obj, 'hash_type', v)
                for v in (m + 1, m - 1, 0, -1):
                    if v != m:
                        s.probe(obj, 'sigs_required', 'set:%d' % v)
                idx = list(range(n))
                for sel in (idx[:-1], idx[::-1], idx[1:], []):
                    if sel != idx:
                        s.probe(obj, 'keys', 'sel:' + ('.'.join(map(str, sel)) or '-'))
                sg = list(range(m))
                for sel in (sg[:-1], sg[::-1], sg + sg[:1], sg[:1] * m, []):
                    if sel != sg:
                        s.probe(obj, 'signatures', 'sel:' + ('.'.join(map(str, sel)) or '-'))
                for attr in ('redeemscript', 'locking_script', 'unlocking_script'):
                    s.probe(obj, attr, 'flip')
                if ty in LEGACY:
                    s.probe(obj, 'unlocking_script', 'empty')
                if ty in SEGWIT:
                    s.probe(obj, 'witnesses', 'sel:0')
                    s.probe(obj, 'witnesses', 'sel:-')
                cs.append(s.case('attr_probe_context'))
    # the same writes on the LIVE object: before signing (sign, verify, parse afterwards) and after
    live = [('t', 'version', 'flip'), ('t', 'version', 'hex:00000002'), ('t', 'version_int', 'add:1'), ('t', 'version_int', 'set:2'),
            ('t', 'locktime', 'add:1'), ('i0', 'prev_txid', 'flip'), ('i0', 'output_n', 'flip'), ('i0', 'output_n_int', 'add:1'),
            ('i0', 'sequence', 'add:-1'), ('i0', 'value', 'add:1'), ('o0', 'value', 'add:1'), ('o1', 'lock_script', 'flip'),
            ('t', 'txid', 'auto'), ('t', 'rawtx', 'auto'), ('t', 'size', 'auto'), ('t', 'verified', 'auto'),
            ('t', 'input_total', 'auto'), ('i0', 'valid', 'auto'), ('i0', 'index_n', 'auto'),
            ('o0', 'public_hash', 'auto'), ('o0', 'script', 'auto')]
    # (Input.public_hash, address, encoding, compressed, strict feed update_scripts(), which Transaction.sign calls: on the
    #  live object they belong to the verification context; written on a copy, without update_scripts, they are inert)
    for ty in SINGLE_ALL + MULTI:
        m, keys = (2, toks(3)) if ty in MULTI else (1, ['0c'])
        for obj, attr, v in live:
            if big or (obj, attr) in (('t', 'version'), ('t', 'version_int'), ('i0', 'output_n_int'), ('i0', 'value')) \
                    or rng.random() < 0.35:
                s = Scn([(ty, m, keys)])
                s.write(obj, attr, v)
                s.sign(keys[:m])
                s.verify()
                s.probe('t', 'version', 'flip')
                s.probe('t', 'version_int', 'add:1')
                cs.append(s.case('attr_write_then_sign'))
                s = Scn([(ty, m, keys)])
                s.sign(keys[:m])
                s.verify(both=False)
                s.write(obj, attr, v)
                s.verify()
                s.sign(keys[:m], replace=True)          # all keys of the first call again
                s.verify()
                s.observe_both()
                cs.append(s.case('attr_sign_then_write'))
    # --- 7. thresholds on the PARSE path: m-of-n inputs read from raw bytes
    cs.extend(gen_thr(rng, big))
    # --- 8. library operations that re-sign (or should), in every starting sequence configuration, once and twice
    cs.extend(gen_mut(rng, big))
    # --- 9. signature argument forms into add_input(signatures=...) / Input(signatures=...)
    cs.extend(gen_sigf(rng, big))
    return cs


MUT_CFGS = ('fin:0', 'nf:0', 'rbf:0', 'relb:0', 'relt:0', 'zero:0', 'fin:650000', 'rbf:1600000000')
MUT_SEQS = (
    'ltt/1700000000;ltt/1800000000;ltb/800000;ltb/800001;ltt/1700000001;ltt/0;ltt/1700000002',
    'ltb/700000;ltt/1600000000;ut;su;su/0;bf/2000;ltt/1610000000;ao/700;ltt/1620000000;bf/1500',
    'lrb/0/20;lrb/0/21;ltt/1700000000;lrt/0/5120;lrt/0/1024;ltb/5000;lrb/0/0;ltt/1800000000;ltb/0;ltb/900000',
    'sh/1;ltt/1750000000;mg/2;ltt/1760000000;sh/3;ltb/810000;mg/4;ltt/1770000000',
)
MUT_POOL = ('ltt/17%08d', 'ltb/8%05d', 'ltt/0', 'ltb/0', 'ut', 'su', 'su/0', 'bf/1%03d', 'ao/5%02d', 'sh/%d', 'mg/%d')


def mut_shape(shape):
    return ';'.join('%s/%d/%s' % (ty, m, ','.join(ks)) for ty, m, ks in shape)


def gen_mut(rng, big):
    cs = []
    rel_known = known_status('relative_locktime_resigns_one_input') == 'known'
    singles = [[(ty, 1, ['0c'])] for ty in SINGLE_ALL] + [[(ty, 2, toks(3))] for ty in MULTI] + [[('pk', 1, ['1u'])], [('pkh', 1, ['2u'])]]
    mixed = [[('sh', 2, toks(2)), ('pkh', 1, ['2c'])], [('wsh', 1, toks(2)), ('wpkh', 1, ['2c']), ('shwsh', 2, toks(2, 3))],
             [('shwpkh', 1, ['0c']), ('wsh', 2, toks(3, 1))]]
    for shape in singles:
        for cfg in MUT_CFGS:
            for q, seq in enumerate(MUT_SEQS):
                if big or cfg in ('nf:0', 'rbf:0') or rng.random() < 0.1:
                    cs.append(Case('resign_ops', 'mut %s %s %s' % (mut_shape(shape), cfg, seq)))
                # every operation alone as the FIRST call in this configuration
            for st in ('ltt/1700000000', 'ltb/800000', 'lrb/0/20', 'lrt/0/5120', 'su', 'bf/2000', 'ao/700', 'sh/1', 'mg/1'):
                if big or rng.random() < 0.06:
                    cs.append(Case('resign_op_first', 'mut %s %s %s' % (mut_shape(shape), cfg, st)))
    for shape in mixed:
        for cfg in MUT_CFGS:
            for seq in (MUT_SEQS[0], MUT_SEQS[1], MUT_SEQS[3]):
                if big or cfg in ('nf:0', 'rbf:0') or rng.random() < 0.12:
                    cs.append(Case('resign_ops_mixed', 'mut %s %s %s' % (mut_shape(shape), cfg, seq)))
        if rel_known:
            for i in range(len(shape)):
                cs.append(Case('resign_relative_multi', 'mut %s fin:0 lrb/%d/20;ltt/1700000000;lrt/%d/5120;su' % (mut_shape(shape), i, i)))
    for _ in range(1500 if big else 30):
        shape = rng.choice(singles + mixed)
        steps = []
        for _ in range(rng.randrange(2, 7)):
            p = rng.choice(MUT_POOL)
            steps.append(p % rng.randrange(1, 90) if '%' in p else p)
            if len(shape) == 1 and rng.random() < 0.2:
                steps.append(rng.choice(('lrb/0/%d', 'lrt/0/%d')) % rng.choice((0, 1, 511, 512, 65535)))
        # (an added input makes a later relative lock a multi-input one: class relative_locktime_resigns_one_input)
        if any(st.startswith('mg') for st in steps):
            if not rel_known:
                steps = [st for st in steps if not st.startswith('lr')]
            else:
                # (with several inputs the model has to know whether the call changes anything: a relative lock of 0 on an
                #  input that is already final changes nothing and nothing goes stale)
                #  input that is already final, or the value the input already has, changes nothing and nothing goes stale:
                #  in chains that can have several inputs every relative lock gets a value of its own)
                steps = [('lrb/0/%d' % (100 + j) if st.startswith('lrb') else 'lrt/0/%d' % (512 * (100 + j)))
                         if st.startswith('lr') else st for j, st in enumerate(steps)]
        cs.append(Case('resign_ops_random', 'mut %s %s %s' % (mut_shape(shape), rng.choice(MUT_CFGS), ';'.join(steps))))
    return cs


SIG_LEADS = ('any', 'r30', 'r00', 'rhi', 'r7f', 's30', 's00')
SIG_FORMS = ('derb', 'derh', 'rsb', 'rsh', 'obj', 'objnokey', 'libhex', 'libbytes', 'libder', 'libderh', 'asdict')


def gen_sigf(rng, big):
    cs = []
    shapes = [[(ty, 1, ['0c'])] for ty in SINGLE_ALL] + [[(ty, 2, toks(3))] for ty in MULTI] + \
             [[('pkh', 1, ['1u'])], [('sh', 2, toks(2)), ('wpkh', 1, ['2c'])], [('wsh', 1, toks(2)), ('pk', 1, ['2u']), ('shwsh', 2, toks(2, 3))]]
    for shape in shapes:
        single = len(shape) == 1 and shape[0][1] == 1
        for lead in SIG_LEADS:
            for form in SIG_FORMS:
                key = lead in ('r30', 's30') and form in ('rsb', 'rsh', 'libhex', 'libbytes', 'asdict')
                if big or key or rng.random() < 0.07:
                    cs.append(Case('sig_form', 'sigf %s %s %s add' % (mut_shape(shape), lead, form)))
                if big or (key and rng.random() < 0.3) or rng.random() < 0.04:
                    cs.append(Case('sig_form_input', 'sigf %s %s %s inp' % (mut_shape(shape), lead, form)))
                if single and form != 'asdict' and (big or rng.random() < 0.05):
                    cs.append(Case('sig_form_single', 'sigf %s %s %s one' % (mut_shape(shape), lead, form)))
    return cs


def thr_sels(m, n):
    """serialized signature lists for an m-of-n input: (label, selection)"""
    first = list(range(m))
    out = [('first_m', first), ('last_m', list(range(n - m, n)))]
    if m > 1:
        out += [('m_minus_1', first[:-1]), ('one', [0]), ('one_last', [n - 1]), ('dup_one', [0] * m),
                ('dup_tail', first[:-1] + first[-2:-1]), ('swapped', [1, 0] + first[2:]), ('reversed', first[::-1]),
                ('corrupted', first[:-1] + ['x%d' % first[-1]]), ('foreign', first[:-1] + ['f'])]
    else:
        out += [('corrupted', ['x0']), ('foreign', ['f'])]
    if n > m:
        out += [('m_plus_1', list(range(m + 1))), ('spread', list(range(0, n, max(1, n // m)))[:m])]
    seen, res = set(), []
    for lab, sel in out:
        k = tuple(sel)
        if sel and k not in seen:
            seen.add(k)
            res.append((lab, '.'.join(map(str, sel))))
    return res


def gen_thr(rng, big):
    cs = []
    above = known_status('threshold_above_16_pushed') in ('known', 'fixed')
    if big:
        pairs_w = [(m, n) for n in range(1, 21) for m in range(1, n + 1)]
        pairs_l = [(m, n) for n in range(1, 16) for m in range(1, n + 1)]
    else:
        pairs_w = [(1, 1), (1, 2), (2, 2), (2, 3), (3, 5), (14, 15), (15, 15), (1, 16), (15, 16), (16, 16),
                   (1, 17), (15, 17), (16, 17), (1, 20), (15, 20), (16, 20), (17, 17), (17, 20), (18, 19), (20, 20)]
        pairs_l = [(1, 1), (2, 3), (8, 15), (14, 15), (15, 15), (1, 15)]
    for kind in ('wsh', 'shwsh', 'sh'):
        for m, n in (pairs_l if kind == 'sh' else pairs_w):
            if m > 16 and not above:
                continue
            sels = thr_sels(m, n)
            if not big and (m, n) not in ((15, 15), (15, 16), (16, 16), (16, 17), (2, 3), (17, 20)):
                sels = sels[:3] + rng.sample(sels[3:], min(3, len(sels) - 3))
            for lab, sel in sels:
                cs.append(Case('thr_own_' + lab, 'thr own %s %d %d %s' % (kind, m, n, sel)))
                if n <= 16 and (big or lab in ('first_m', 'm_minus_1', 'one', 'dup_one', 'swapped')):
                    cs.append(Case('thr_lib_' + lab, 'thr lib %s %d %d %s' % (kind, m, n, sel)))
    return cs


def random_scenario(rng, big):
    pool = ['%d%s' % (i, c) for i in range(6) for c in 'cu']
    shape = []
    for _ in range(rng.choice([1, 1, 1, 2, 2, 3])):
        if rng.random() < 0.25:
            shape.append((rng.choice(SINGLE), 1, [rng.choice(pool)]))
        else:
            n = rng.randrange(1, 6 if big else 5)
            ks = [rng.choice(pool[:8]) for _ in range(n)]
            m = rng.randrange(1, len(set(ks)) + 1)
            shape.append((rng.choice(MULTI), m, ks))
    s = Scn(shape)
    fields = tamper_fields(shape)
    on = []
    frozen = False
    for _ in range(rng.randrange(2, 10)):
        x = rng.random()
        i = rng.randrange(len(shape))
        if x < 0.45:
            src = shape[i][2] if rng.random() < 0.8 else pool
            signers = [rng.choice(src) for _ in range(rng.randrange(1, 4))]
            s.sign(signers, target=(i if rng.random() < 0.6 else None), replace=rng.random() < 0.3,
                   fail=rng.random() < 0.4)
        elif x < 0.62:
            s.verify(both=rng.random() < 0.5)
        elif x < 0.67:
            ty, m_, ks_ = shape[i]
            ht = rng.choice(HT_FOREIGN + (1,))
            # what a digest commits to depends on the hash type (C01); the digest ids of this model are those of
            # SIGHASH_ALL, so no field changes after signatures for another type are in place
            frozen = frozen or not _all_like(ht)
            s.place(i, ht, [rng.choice(ks_ if rng.random() < 0.85 else pool) for _ in range(rng.randrange(1, m_ + 2))])
        elif x < 0.7:
            s.patched('Q', [(rng.randrange(len(shape)), rng.randrange(3), rng.choice(HT_TAMPER + (1,)))
                            for _ in range(rng.randrange(0, 3))])
        elif x < 0.82:
            if frozen:
                continue
            if on and rng.random() < 0.5:
                f = on.pop(rng.randrange(len(on)))
                s.tamper(f[0], f[1], False)
            else:
                f = rng.choice(fields)
                if f not in on:
                    on.append(f)
                    s.tamper(f[0], f[1], True)
        else:
            kind = rng.choice(['drop', 'dup', 'swap', 'untag', 'ins', 'ins', 'var'])
            arg = rng.choice(pool) if kind == 'ins' else rng.randrange(1, 6) if kind == 'var' else None
            s.edit(i, kind, rng.randrange(6), arg)
    s.verify()
    if not any(o[0] in 'PQC' for o in s.ops):
        s.observe_both()
    return s.case('random_ops')


def model_req(c):
    # expectation marks are for prop_check only
    import re
    return re.sub(r'([; ])([VRQC])[+-]', r'\1\2', c.req)


def is_trivial(c, out):
    return '/' not in out or out.startswith('CRASH') or out == 'BADREQ'


# ---------------------------------------------------------------- property-level oracle
def parse_req(req):
    _, ins, ops = req.split(' ')
    inputs = []
    for s in ins.split(';'):
        ty, m, ks = s.split('/')
        inputs.append((ty, int(m), ks.split(',')))
    return inputs, ([] if ops == '-' else ops.split(';'))


def max_matching(rows):
    """size of a maximum matching between signatures (rows) and key positions (columns) over valid pairs"""
    match = {}

    def aug(i, seen):
        for j, ch in enumerate(rows[i]):
            if ch == '1' and j not in seen:
                seen.add(j)
                if j not in match or aug(match[j], seen):
                    match[j] = i
                    return True
        return False
    return sum(1 for i in range(len(rows)) if aug(i, set()))


def _mark(o):
    return o.split('/')[0][1:]


def _base_hts(ops):
    """hash-type byte the signatures of each input carry before patches, op by op: 1, or what the last P op said"""
    base, out = {}, []
    for o in ops:
        f = o.split('/')
        if f[0] == 'P':
            base[int(f[1])] = int(f[2])
        elif f[0] in ('S', 'X'):
            pass
        out.append(dict(base))
    return out


def _mixed(o, base, per):
    """is this a Q / C step at which Input.hash_type cannot be the hash type of every signature checked?  Either some
    input is left with signatures that carry DIFFERENT hash-type bytes, or (constructor path, which skips a zero
    hash type) a signature carries the byte 00.  (the rows of the answer tell how many signatures the step saw)"""
    f = o.split('/')
    if f[0][0] not in 'QC' or f[1] == '-':
        return False
    patches = {}
    for p in f[1].split(','):
        i, pos, ht = (int(x) for x in p.split('.'))
        patches[(i, pos)] = ht
    for i, rows in enumerate(per):
        n = 0 if rows == '-' else len(rows.split(','))
        carried = [patches.get((i, pos), base.get(i, 1)) for pos in range(n)]
        if len(set(carried)) > 1 or (f[0][0] == 'C' and 0 in carried):
            return True
    return False


def prop_check(c, out, exempt_mixed=False, exempt_legacy_non_all=False, exempt_unsynced=False, exempt_marks=False):
    """The statement, evaluated on the implementation's own answers: a verdict True (and Input.valid True) needs,
    for every input, at least m signatures each valid for a distinct listed key — valid = ECDSA (fastecdsa) over the
    CONSENSUS digest for the hash-type byte the signature carries, computed without the library; an honest history
    with >= m distinct listed signers on every input must verify (marks '+'/'-')."""
    if out.startswith('CRASH') or out == 'BADREQ':
        return 'unexpected answer %r' % out[:160]
    if c.req.startswith('thr '):
        return thr_check(c, out)
    if c.req.startswith('mut '):
        return mut_check(c, out)
    if c.req.startswith('sigf '):
        return sigf_check(c, out)
    inputs, ops = parse_req(c.req)
    bases = _base_hts(ops)
    obs_ops = [(o, bases[j]) for j, o in enumerate(ops) if o[0] in 'SVRQC' or o.startswith('A/') or o == 'AX']
    obs = [] if out == '-' else out.split(' ')
    if len(obs) != len(obs_ops):
        return 'answer has %d observations for %d observing operations' % (len(obs), len(obs_ops))
    for (o, base), a in zip(obs_ops, obs):
        if o[0] == 'S':
            if not (a in ('S0', 'S1', 'S2')):
                return 'sign() ended with %s' % a
            continue
        if o == 'AX':
            # attributes outside the frozen list: each was written alone on a copy
            if not a.startswith('X'):
                return 'attribute enumeration answered %s' % a[:80]
            for item in ([] if a == 'X-' else a[1:].split(',')):
                name, _, r = item.partition('=')
                f3 = r.split('|')
                if len(f3) == 3 and f3[0][1:] != f3[2]:
                    return ('%s: attribute %s (not in the frozen list) written alone: verify() of the object says %s, the bytes '
                            'raw() returns are %s' % ('SOUNDNESS' if f3[0][1:] == 'T' else 'COMPLETENESS', name, f3[0][1:], f3[2]))
            continue
        if o.startswith('A/'):
            f = o.split('/')
            if not a.startswith('B') or a.count('/') != 2:
                return 'attribute write %s answered %s' % (o, a[:80])
            lib, flags, rawv = a[1:].split('/')
            what = '%s.%s (%s)' % (f[1], f[2], f[3])
            if lib not in ('T', 'F'):
                return 'verify() raised %s after %s was written' % (lib, what)
            if rawv not in ('T', 'F'):
                return 'raw() raised after %s was written' % what
            if lib != rawv and not (exempt_unsynced and f[1][0] == 'i' and f[2] in CTX_ATTRS):
                when = ('on the object as it stands after the history' if (f[1], f[2]) == ('t', 'status')
                        else 'after %s alone was written on the object' % what)
                if lib == 'T':
                    return ('SOUNDNESS: %s, verify() is True but the bytes raw() returns do not pass an independent '
                            'consensus-style verification' % when)
                return ('COMPLETENESS: %s, the bytes raw() returns are a validly signed transaction (independent '
                        'consensus-style verification) but verify() is False' % when)
            continue
        if not a.startswith('V') or a.count('/') != 2:
            return 'verification step %s answered %s' % (o, a[:80])
        verdict, flags, mat = a[1:].split('/')
        per = mat.split('|')
        if len(per) != len(inputs) or '?' in mat:
            return 'oracle matrix not computable: %s' % a[:80]
        enough = []
        for (ty, m, ks), rows in zip(inputs, per):
            enough.append(max_matching([] if rows == '-' else rows.split(',')) >= m)
        where = {'V': 'Transaction.verify()', 'R': 'Transaction.parse(raw()).verify()',
                 'Q': 'Transaction.parse(raw() with hash-type bytes %s).verify()' % o.split('/')[-1],
                 'C': 'verify() of the inputs rebuilt from serialized signatures (hash-type bytes %s)' % o.split('/')[-1]}[o[0]]
        mixed = exempt_mixed and _mixed(o, base, per)
        if verdict == 'T' and not all(enough) and not mixed:
            i = enough.index(False)
            return ('SOUNDNESS: %s is True but input %d (%s, %d-of-%d) carries fewer than %d signatures valid for '
                    'distinct listed keys under the digest for the hash type each signature carries (validity matrix %s)'
                    % (where, i, inputs[i][0], inputs[i][1], len(set(inputs[i][2])), inputs[i][1], per[i]))
        for i, f in enumerate(flags):
            if f == 'T' and not enough[i] and not mixed:
                return ('SOUNDNESS: Input.valid is True for input %d after %s although it carries fewer than %d '
                        'valid signatures for distinct listed keys (matrix %s)' % (i, where, inputs[i][1], per[i]))
        if _mark(o) == '+' and verdict != 'T':
            if exempt_legacy_non_all and any(inputs[i][0] in LEGACY and not _all_like(h) for i, h in base.items()):
                continue
            if exempt_marks:
                continue
            return ('COMPLETENESS: every input carries at least m signatures by distinct listed keys over the current '
                    'consensus digest (for the hash type they carry) but %s is False (matrix %s)' % (where, mat))
        if _mark(o) == '-' and verdict != 'F' and not mixed and not exempt_marks:
            # (reached only when the matrix shows enough valid signatures: the mark, not the verdict, is what is off)
            return 'SOUNDNESS: %s is True on a history with fewer than m valid listed signatures (matrix %s)' % (where, mat)
    return None


def thr_check(c, out):
    """an m-of-n input parsed from raw bytes: a True verdict needs m signatures valid for distinct listed keys (matrix =
    ECDSA over the consensus digest, computed from the bytes without the library); the first-m / any m keys in key order
    must verify; the parsed sigs_required is m"""
    _, src, kind, m, n, sel = c.req.split(' ')
    m, n = int(m), int(n)
    if not out.startswith('V') or out.count('/') != 3:
        return 'parse / verify of the raw transaction answered %s' % out[:80]
    verdict, flag, mat, sr = out[1:].split('/')
    if '?' in mat:
        return 'oracle matrix not computable: %s' % out[:80]
    rows = [] if mat == '-' else mat.split(',')
    enough = max_matching(rows) >= m
    what = '%s %d-of-%d parsed from raw bytes with the serialized signature list %s' % (kind, m, n, sel)
    if verdict == 'T' and not enough:
        return ('SOUNDNESS: %s: Transaction.parse(raw).verify() is True with fewer than %d signatures valid for distinct '
                'listed keys (validity matrix %s, sigs_required after parse %s)' % (what, m, mat, sr))
    if flag == 'T' and not enough:
        return 'SOUNDNESS: %s: Input.valid is True with fewer than %d valid signatures (matrix %s)' % (what, m, mat)
    toks_ = sel.split('.')
    honest = len(toks_) == m and all(t.isdigit() for t in toks_) and \
        all(int(a) < int(b) for a, b in zip(toks_, toks_[1:])) and int(toks_[-1]) < n
    if honest and verdict != 'T':
        return 'COMPLETENESS: %s (m listed keys, in key order): verify() is False (matrix %s, sigs_required %s)' % (what, mat, sr)
    if sr != str(m):
        return 'SOUNDNESS: %s: sigs_required after parse is %s, the script says %d' % (what, sr, m)
    return None


MUT_NAMES = {'ltb': 'set_locktime_blocks', 'ltt': 'set_locktime_time', 'lrb': 'set_locktime_relative_blocks',
             'lrt': 'set_locktime_relative_time', 'su': 'sign_and_update', 'bf': 'bumpfee', 'ao': 'add_output + sign(replace_signatures=True)',
             'sh': 'shuffle + sign_and_update', 'mg': 'merge_transaction', 'ut': 'update_totals'}


def mut_check(c, out):
    """a transaction whose inputs hold the correct private keys, signed, then library operations that re-sign (or change
    nothing): after EVERY one of them verify() must be True, the bytes of raw() must pass the independent consensus-style
    verification (harness/props/c01.py verify_input, own digests) and parse(raw()).verify() must be True"""
    _, ins, cfg, steps = c.req.split(' ')
    steps = steps.split(';')
    obs = out.split(' ')
    if len(obs) != len(steps):
        return 'answer has %d observations for %d operations' % (len(obs), len(steps))
    for j, (st, a) in enumerate(zip(steps, obs)):
        f = st.split('/')
        call = '%s(%s)' % (MUT_NAMES.get(f[0], f[0]), ', '.join(f[1:]))
        hist = 'signed transaction (%s, start %s) after %s' % (ins, cfg, ' -> '.join(steps[:j + 1]))
        if a.startswith('ME:'):
            return 'COMPLETENESS: %s raised %s on a %s' % (call, a[3:], hist)
        if not a.startswith('M') or a.count('/') != 2:
            return 'operation %s answered %s' % (st, a[:80])
        lib, rawv, par = a[1:].split('/')
        if lib == 'T' and rawv != 'T':
            return ('SOUNDNESS: %s: verify() is True but the bytes raw() returns do not pass an independent consensus-style '
                    'verification (%s)' % (hist, rawv))
        if (lib, rawv, par) != ('T', 'T', 'T'):
            return ('COMPLETENESS: %s: the transaction, re-signed by the library with the correct private keys held by its '
                    'inputs, does not verify after %s: verify() %s, independent consensus verdict on raw() %s, '
                    'Transaction.parse(raw()).verify() %s' % (hist, call, lib, rawv, par))
    return None


def sigf_check(c, out):
    """inputs rebuilt from public keys + m valid signatures (made by the harness over the consensus digest) handed over in one
    argument form: every signature must be kept, verify() True, raw() valid for the independent verifier, parse too"""
    _, ins, lead, form, ctor = c.req.split(' ')
    if not out.startswith('F') or out.count('/') != 3:
        return 'rebuilding from signatures answered %s' % out[:80]
    lib, rawv, par, kept = out[1:].split('/')
    need = '.'.join(s.split('/')[1] if s.split('/')[0] in MULTI else '1' for s in ins.split(';'))
    what = ('%s rebuilt from public keys + valid signatures by the first m listed keys given as %s (%s, leading byte class %s)'
            % (ins, form, {'add': 'add_input(signatures=[...])', 'inp': 'Input(signatures=[...])', 'one': 'add_input(signatures=<one>)'}[ctor], lead))
    if lib == 'T' and rawv != 'T':
        return 'SOUNDNESS: %s: verify() True, bytes of raw() not valid (%s)' % (what, rawv)
    if kept != need:
        return 'COMPLETENESS: %s: the inputs keep %s signatures of %s handed over (verify() %s)' % (what, kept, need, lib)
    if (lib, rawv, par) != ('T', 'T', 'T'):
        return ('COMPLETENESS: %s: verify() %s, independent consensus verdict on raw() %s, parse(raw()).verify() %s'
                % (what, lib, rawv, par))
    return None


def _rel_one_input(c, io, mo):
    """set_locktime_relative_blocks / _time change a field every input's digest commits to (a sequence number, possibly
    version and locktime) but re-sign only the input they name: on a transaction with SEVERAL inputs the others keep stale
    signatures until an operation re-signs all of them.  Exactly that: the only steps whose answer is not all-True are
    relative-locktime steps on a transaction with >= 2 inputs and the steps after them that re-sign at most one input;
    object and bytes agree (all three verdicts False)"""
    if not c.req.startswith('mut ') or prop_check(c, io) is None:
        return False
    _, ins, cfg, steps = c.req.split(' ')
    n, broken, hit = len(ins.split(';')), False, False
    obs = io.split(' ')
    steps = steps.split(';')
    if len(obs) != len(steps):
        return False
    for st, a in zip(steps, obs):
        f = st.split('/')
        if f[0] == 'mg':
            n += 1
        if f[0] in ('lrb', 'lrt'):
            broken = broken or n >= 2
        elif f[0] != 'ut' and not (f[0] == 'su' and len(f) > 1):
            broken = False
        if a != 'MT/T/T':
            if not broken or a != 'MF/F/F':
                return False
            hit = True
    return hit


def _all_like(ht):
    return not (ht & 0x80) and (ht & 0x1f) not in (2, 3)


def _same_point_twice(c):
    inputs, _ = parse_req(c.req)
    for ty, m, ks in inputs:
        d = set(ks)
        if len({k[:-1] for k in d}) < len(d):
            return True
    return False


def _resigned(c):
    """some input that already received a Transaction.sign call is signed again under a different digest (a
    committed field changed in between) or with replace_signatures=True"""
    inputs, ops = parse_req(c.req)
    epochs = [0] * len(inputs)
    seen = [set() for _ in inputs]
    for o in ops:
        f = o.split('/')
        if f[0] == 'T':
            epochs = [int(x) for x in f[3].split(',')]
        elif f[0] == 'S':
            for i in (range(len(inputs)) if f[1] == '*' else [int(f[1])]):
                if i < len(inputs):
                    if seen[i] and (f[2] == 'r' or epochs[i] not in seen[i]):
                        return True
                    seen[i].add(epochs[i])
    return False


def _c01_recorded(cid):
    from core import load_known
    return any(e.get('id') == cid and e.get('status') == 'known' for e in load_known('C01'))


def _legacy_non_all(c, io, mo):
    """C01's recorded class legacy_non_all_hashtype (the legacy serializer ignores the hash type): a legacy input that
    carries third-party signatures for a hash type with ANYONECANPAY or base type NONE / SINGLE is not verified over
    the consensus digest.  Exactly that: the only thing wrong with the answers is a '+' step on such an input."""
    if not _c01_recorded('legacy_non_all_hashtype'):
        return False
    inputs, ops = parse_req(c.req)
    hit = False
    for o in ops:
        f = o.split('/')
        if f[0] == 'P' and inputs[int(f[1])][0] in LEGACY and not _all_like(int(f[2])):
            hit = True
    return hit and prop_check(c, io) is not None and prop_check(c, io, exempt_legacy_non_all=True) is None


def _mixed_hash_types(c, io, mo):
    """the library checks all signatures of an input under ONE digest, the one for Input.hash_type (the first
    signature's byte after parse; the last non-zero one after Input(signatures=...)): steps at which the signatures of
    one input carry different bytes, or the byte 00 on the constructor path; the only thing wrong with the answers is
    a True verdict at such a step"""
    if prop_check(c, io) is None:
        return False
    if prop_check(c, io, exempt_mixed=True) is None:
        return True
    # one history that meets TWO recorded classes at different steps: a mixed-byte step (this class) and, at another
    # step, a completeness failure of dup_point_keys / resign_keeps_stale (each only while recorded as known, and
    # only when the history has the shape that class names).  Nothing else may be wrong with the answers.
    marks = ((_same_point_twice(c) and _c02_recorded('dup_point_keys'))
             or (_resigned(c) and _c02_recorded('resign_keeps_stale')))
    return bool(marks) and (prop_check(c, io, exempt_mixed=True) or '').startswith('COMPLETENESS') \
        and prop_check(c, io, exempt_mixed=True, exempt_marks=True) is None


def _c02_recorded(cid):
    from core import load_known
    return any(e.get('id') == cid and e.get('status') == 'known' for e in load_known('C02'))


def _unsynced(c, io, mo):
    """the object's verification context (Input.hash_type, sigs_required, keys, signatures, redeemscript, locking_script)
    and the scripts derived from it (Input.unlocking_script, witnesses) are brought in line by update_scripts() only:
    written by hand, verify() speaks about the former and raw() writes the latter.  Exactly that: the only thing wrong
    with the answers is a verify() / raw() disagreement at a step that wrote one of those attributes"""
    return c.req.startswith('scn ') and prop_check(c, io) is not None and prop_check(c, io, exempt_unsynced=True) is None


def _thr_above_16(c, io, mo):
    """a threshold above 16 has no opcode; consensus pushes it as a number (01 m), update_scripts reads n_tag - 80 = -79"""
    return c.req.startswith('thr ') and int(c.req.split(' ')[3]) >= 17 and prop_check(c, io) is not None


# recorded under another property (C01): excused only while recorded there, see _legacy_non_all
DOMAIN_CLASSES = ('legacy_non_all_hashtype',)
KNOWN_CLASSES = {
    # the first two recorded classes are completeness failures; a soundness failure is never suppressed by them
    # (exactly that: the ONLY thing wrong with the answers are steps whose '+' / '-' mark - the generator's account of who
    #  has signed, which takes replace_signatures at its word - is off, the first of them a '+' step that did not verify;
    #  a verdict the validity matrix does not bear out, or an object / bytes disagreement, anywhere in the same history
    #  is not hidden behind it)
    'dup_point_keys': lambda c, io, mo: _same_point_twice(c) and (prop_check(c, io) or '').startswith('COMPLETENESS')
    and prop_check(c, io, exempt_marks=True) is None,
    'resign_keeps_stale': lambda c, io, mo: _resigned(c) and (prop_check(c, io) or '').startswith('COMPLETENESS')
    and prop_check(c, io, exempt_marks=True) is None,
    'legacy_non_all_hashtype': _legacy_non_all,
    # a soundness class: excuses exactly the steps at which Input.hash_type cannot be every checked signature's hash type
    'input_level_hash_type': _mixed_hash_types,
    # (proposed) the object and its bytes disagree after a hand-written context attribute / derived script
    'object_bytes_out_of_sync': _unsynced,
    # (proposed) pushed thresholds above 16 on the parse path
    'threshold_above_16_pushed': _thr_above_16,
    # (proposed) a relative locktime set on one input of several re-signs only that input
    'relative_locktime_resigns_one_input': _rel_one_input,
}


def _no_flags(ans):
    import re
    return re.sub(r'/[TFN]*/', '//', ans)


def reproduce_known(entry, rundir):
    from core import run_impl
    rc, out, err = run_impl(IMPL, [entry['witness']['request']], rundir)
    # Input.valid flags are left out of the comparison (they differ before/after fix C02-1)
    return len(out) == 1 and _no_flags(out[0]) == _no_flags(entry['witness']['impl_answer'])
