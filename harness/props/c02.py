"""C02 — transaction verification is sound and complete for standard inputs."""
import itertools
from core import Case

PROP = 'C02'
COQ_FILES = ['Extract/C02.v', 'Proofs/SignPlaceSeq.v', 'Proofs/SignPlaceTx.v', 'Proofs/TamperDigest.v',
             'Proofs/TamperDigestWitness.v', 'Properties/C02.v']
DRIVER = 'c02'
IMPL = 'harness/impl/c02_impl.py'
ALLOWED_AXIOMS = []
ASSUMPTIONS = [
    'theorems are about coq/Model/VerifyInput.v and coq/Model/SignPlace.v (lib_* mirrors Input.verify, '
    'Transaction.verify, Transaction.sign of bitcoinlib/transactions.py) and hold for an ARBITRARY signature '
    'relation sv; that ECDSA signatures of one digest/key are not valid for another digest/key is not proved '
    '(unforgeability; the ECDSA layer is C13) — in the correspondence it is measured with fastecdsa on every case',
    'sign_then_verify / sign_history_* / tx_history_* (coq/Model/SignSeq.v, coq/Proofs/SignPlaceSeq.v, SignPlaceTx.v): '
    'every history of sign() and verify() calls on one input, and of Transaction.sign (all inputs / one target) and '
    'Transaction.verify calls on a whole transaction, starting unsigned (any signer subsets/orders, repeated and foreign signers, '
    'fail_on_unknown_key, replace_signatures); premises: a key\'s own signature verifies (C13), pairwise distinct keys '
    '(Input.__init__ removes repeated keys), guard resign_free_all (excludes known class resign_keeps_stale) and, when '
    'a verification happens between sign() calls, dup_point_free (excludes known class dup_point_keys); each guard has '
    'a _refuted Example.  One digest per history (a digest change between calls is the other half of '
    'resign_keeps_stale); signature-list edits made by hand are outside these theorems (covered by verify_sound / '
    'verify_exact and the correspondence)',
    'tamper_changes_digest / tamper_detected / tamper_detected_tx (coq/Proofs/TamperDigest.v) are stated on the C01 preimage model '
    '(Model/Sighash.v, hash types treated like SIGHASH_ALL, wf_stx domain) for an arbitrary double hash H: the '
    'conclusion is "digest differs OR an explicit collision of H"; the step from a different digest to "the old '
    'signatures do not count" is the premise bound_to (unforgeability), visible in the theorem statement',
    'tie to /repo: differential correspondence on real transactions built, signed, edited, serialized and re-parsed '
    'through the public API with fixed test keys; the model runs the same scenario with the signature relation '
    'given by construction (signer point, digest id, variant) and both the verdicts and the validity matrices agree',
    'Python object identity is not modelled: when Transaction.sign places one Signature object into two slots '
    '(only inside the recorded class resign_keeps_stale) the adapter replaces the duplicate by an equal copy before '
    'the next step',
    'inputs hold public keys only (Transaction.sign also signs with private keys stored in the input), '
    'hash type SIGHASH_ALL, no coinbase inputs in scenarios (coinbase convention is in the model and theorems); '
    'which fields a digest commits to is C01 — here the scenario states which digests change and the measured '
    'matrix confirms it',
]
RULE = ('exhaustive m-of-n / signer subsets / permutations / call splits for small n on every standard input type, '
        'every single-field tampering and signature-list edit at every position before and after raw()/parse, '
        'seeded random op sequences (1-3 inputs, mixed types, duplicate and same-point keys, foreign signers); '
        'a case is non-trivial when it contains at least one verification verdict; distinct by request')

MULTI = ('sh', 'wsh', 'shwsh')
SINGLE = ('pkh', 'wpkh', 'shwpkh')
SEGWIT = ('wpkh', 'shwpkh', 'wsh', 'shwsh')


# ---------------------------------------------------------------- scenario builder (generator side)
class Scn:
    """Builds the request line and, for honest histories, the property-level expectation of each verdict:
    '+' = must verify, '-' = must not verify, none = only the soundness oracle applies."""

    def __init__(self, inputs):
        self.inputs = inputs                      # [(type, m, [key tokens])]
        self.ops = []
        n = len(inputs)
        self.listed = [set(ks) for _, _, ks in inputs]
        self.signed = [dict() for _ in range(n)]  # digest id -> set of listed tokens that signed under it
        self.unknown = [False] * n                # expectation no longer derivable for this input
        self.active = set()                       # applied field changes
        self.ep_ids = [{frozenset(): 0} for _ in range(n)]
        self.epoch = [0] * n
        self.sign_epochs = [set() for _ in range(n)]

    def sign(self, signers, target=None, replace=False, fail=True):
        self.ops.append('S/%s/%s/%s/%s' % ('*' if target is None else target, 'r' if replace else 'n',
                                           'f' if fail else 'c', ','.join(signers) or '-'))
        for i in (range(len(self.inputs)) if target is None else [target]):
            if fail and any(s not in self.listed[i] for s in signers):
                # raises: this and the following inputs are not signed by this call
                for j in range(i, len(self.inputs)):
                    self.unknown[j] = True
                break
            new = {s for s in signers if s in self.listed[i]}
            if not new:
                continue
            self.sign_epochs[i].add(self.epoch[i])
            if len(self.sign_epochs[i]) > 1 and not replace:
                self.unknown[i] = True
            self.signed[i].setdefault(self.epoch[i], set()).update(new)
            if replace:
                for e in list(self.signed[i]):
                    if e != self.epoch[i]:
                        self.signed[i][e] -= new

    def expect(self):
        if any(self.unknown):
            return ''
        ok = all(len(self.signed[i].get(self.epoch[i], ())) >= m for i, (_, m, _) in enumerate(self.inputs))
        if not ok and any(len({k[:-1] for k in l}) < len(l) for l in self.listed):
            return ''       # one signature is valid for both listed encodings of its point: "fewer than m" is not decided here
        return '+' if ok else '-'

    def verify(self, both=True):
        e = self.expect()
        self.ops.append('V' + e)
        if both:
            self.ops.append('R' + e)

    def tamper(self, name, j, on=True):
        key = (name, j)
        (self.active.add if on else self.active.discard)(key)
        for i, (ty, _, _) in enumerate(self.inputs):
            rel = frozenset(k for k in self.active if k[0] != 'inv' or (k[1] == i and ty in SEGWIT))
            self.epoch[i] = self.ep_ids[i].setdefault(rel, len(self.ep_ids[i]))
        self.ops.append('T/%s/%d%s/%s' % (name, j, '+' if on else '-', ','.join(map(str, self.epoch))))

    def edit(self, i, kind, pos, arg=None):
        self.unknown[i] = True
        self.ops.append('X/%d/%s/%d%s' % (i, kind, pos, '' if arg is None else '/' + str(arg)))

    def case(self, kind):
        req = 'scn %s %s' % (';'.join('%s/%d/%s' % (ty, m, ','.join(ks)) for ty, m, ks in self.inputs),
                             ';'.join(self.ops) or '-')
        return Case(kind, req)


def toks(n, start=0):
    return ['%dc' % (start + i) for i in range(n)]


def tamper_fields(inputs):
    f = [('outv', 0), ('outv', 1), ('outs', 0), ('outs', 1), ('lock', 0), ('ver', 0)]
    for i in range(len(inputs)):
        f += [('prev', i), ('outn', i), ('seq', i), ('inv', i)]
    return f


def ordered_splits(seq):
    """all ways to cut an ordered signer sequence into consecutive sign() calls"""
    n = len(seq)
    for mask in range(1 << max(n - 1, 0)):
        calls, cur = [], [seq[0]]
        for i in range(1, n):
            if mask >> (i - 1) & 1:
                calls.append(cur)
                cur = []
            cur.append(seq[i])
        calls.append(cur)
        yield calls


# ---------------------------------------------------------------- generators
CORPUS = [
    'scn pkh/1/0c S/*/n/f/0c;V+;T/outv/0+/1;V-',                           # input_valid_stale (fixed, C02-1)
    'scn sh/2/0c,0u S/*/n/f/0c;X/0/ins/1/8c;V-;R-',                        # previous_signature_reuse (fixed, C02-2)
    'scn wsh/2/0c,0u S/*/n/f/0c;X/0/ins/1/8c;V-;R-',
    'scn shwsh/2/0u,0c S/*/n/f/0c;X/0/ins/1/8c;V-;R-',
    'scn sh/2/0c,1c S/*/n/f/0c;S/*/n/f/0c,1c;V+',                          # sign_already_signed_skips_keys (fixed, C02-3)
    'scn pkh/1/0c;pkh/1/1c S/*/n/c/1c;V;S/0/n/f/0c;V+',                    # sign_skips_remaining_inputs (fixed, C02-4)
    'scn sh/2/0c,0u S/*/n/f/0u;V;S/*/n/f/0c;V+;R+',                        # dup_point_keys (known)
    'scn sh/2/0c,1c,2c S/0/n/f/1c,2c;V+;T/outv/0+/1;V-;S/0/r/f/1c,2c;V+;R+',   # resign_keeps_stale (known)
    'scn sh/2/0c,1c,2c S/0/n/f/1c,2c;V+;S/0/r/f/1c,2c;V+;R+',
]
def gen_cases(rng, tier):
    big = tier == 'thorough'
    cs = []
    nmax = 5 if big else 4
    # --- 0. corpus: the witnesses of every finding of this property (fixed ones must stay fixed), run first
    for req in CORPUS:
        cs.append(Case('corpus', req))
    # --- 1. every m-of-n, every subset of signers, (n <= 3: every order), every split into calls
    for ty in MULTI:
        for n in range(1, nmax + 1):
            keys = toks(n)
            for m in range(1, n + 1):
                for r in range(1, n + 1):
                    for sub in itertools.combinations(keys, r):
                        orders = itertools.permutations(sub) if n <= 3 else [sub]
                        for order in orders:
                            splits = list(ordered_splits(list(order)))
                            if n > 3:
                                splits = [splits[0], splits[-1]] if len(splits) > 1 else splits
                            for calls in splits:
                                s = Scn([(ty, m, keys)])
                                for c in calls:
                                    s.sign(c)
                                    s.verify()
                                cs.append(s.case('subset_order_split'))
    for ty in SINGLE:
        for k in ('0c', '0u'):
            s = Scn([(ty, 1, [k])])
            s.verify()
            s.sign([k])
            s.verify()
            s.sign([k])                 # already signed
            s.verify()
            s.sign([k], replace=True)
            s.verify()
            cs.append(s.case('single_key'))
            s = Scn([(ty, 1, [k])])     # foreign signer only
            s.sign(['7c'], fail=False)
            s.verify()
            s.sign(['7c'], fail=True)
            s.verify()
            s.edit(0, 'ins', 0, '7c')
            s.verify()
            cs.append(s.case('single_key_foreign'))
    # --- 2. re-signing, verification between calls, duplicate keys, same point twice, foreign signers
    for ty in MULTI:
        for keys, m in ((['0c', '1c', '0c'], 2), (['0c', '0c'], 1), (['0c', '0u'], 2), (['0c', '0u'], 1),
                        (['0u', '0c', '1c'], 2), (['0c', '1c', '0u'], 3), (['0c', '1c', '0u'], 2),
                        (['0c', '1u', '2c'], 2), (['0u', '1u'], 2)):
            distinct = list(dict.fromkeys(keys))
            for order in itertools.permutations(distinct):
                for interleave in (False, True):
                    s = Scn([(ty, m, keys)])
                    for k in order:
                        s.sign([k])
                        if interleave:
                            s.verify()
                    s.verify()
                    s.sign(list(order))                      # all again: already signed
                    s.verify()
                    s.sign(list(order), replace=True)
                    s.verify()
                    cs.append(s.case('dup_or_same_point_keys' if len(set(k[:-1] for k in distinct)) < len(distinct)
                                     or len(distinct) < len(keys) else 'resign'))
        for n, m in ((2, 1), (2, 2), (3, 2), (3, 3)):
            keys = toks(n)
            for j in range(n + 1):
                s = Scn([(ty, m, keys)])
                signers = keys[:j] + ['8c'] + keys[j:]
                s.sign(signers, fail=False)                  # a foreign key among the signers
                s.verify()
                s.sign(['8c', '9u'], fail=False)
                s.verify()
                s.sign(signers, fail=True)
                s.verify()
                cs.append(s.case('foreign_signer'))
            # fewer than m listed signers plus foreign signatures inserted by hand at every position
            for have in range(0, m + 1):
                for pos in range(have + 1):
                    s = Scn([(ty, m, keys)])
                    if have:
                        s.sign(keys[:have])
                    s.edit(0, 'ins', pos, '8c')
                    s.verify()
                    s.edit(0, 'ins', pos, '9c')
                    s.verify()
                    cs.append(s.case('foreign_signature_inserted'))
    # a call that names an already-signed key first / a first input that needs nothing (fixes C02-3, C02-4)
    for ty in MULTI:
        for n, m in ((2, 2), (3, 2), (3, 3)):
            keys = toks(n)
            for first in range(n):
                s = Scn([(ty, m, keys)])
                s.sign([keys[first]])
                s.verify()
                s.sign([keys[first]] + [k for k in keys if k != keys[first]])
                s.verify()
                cs.append(s.case('already_signed_first'))
        for other in SINGLE + MULTI:
            shape = [(ty, 1, ['0c', '1c']), (other, 1, ['2c']), (ty, 2, ['0c', '2c'])]
            for order in itertools.permutations(range(3)):
                s = Scn([shape[i] for i in order])
                s.sign(['0c'], target=0 if order[0] != 1 else 1)
                s.verify()
                s.sign(['0c'], fail=False)
                s.verify()
                s.sign(['2c'], fail=False)
                s.verify()
                s.sign(['2c', '0c', '1c'], fail=False)
                s.verify()
                cs.append(s.case('multi_input_partial'))
    # the recorded witness of finding dup_point_keys and its neighbours
    for ty in MULTI:
        for keys in (['0c', '0u'], ['0u', '0c'], ['0c', '0u', '1c'], ['1c', '0c', '0u']):
            for m in (2, 3):
                if m > len(keys):
                    continue
                s = Scn([(ty, m, keys)])
                s.sign([keys[0] if keys[0][0] == '0' else keys[1]])
                s.verify()
                s.edit(0, 'ins', 9, '8c')
                s.verify()
                cs.append(s.case('same_point_foreign'))
    # --- 3. every single-field tampering of a signed transaction, reverted, then re-signed
    shapes = [[(ty, 2, toks(3))] for ty in MULTI] + [[(ty, 1, ['0c'])] for ty in SINGLE] + \
             [[('sh', 2, toks(2)), ('wpkh', 1, ['2c'])], [('wsh', 1, toks(2)), ('pkh', 1, ['2u']), ('shwsh', 2, toks(2, 3))]]
    if big:
        shapes += [[(a, 1, ['0c']), (b, 2, toks(3, 1))] for a in SINGLE for b in MULTI]
    for shape in shapes:
        allk = sorted({k for _, _, ks in shape for k in ks})
        for name, j in tamper_fields(shape):
            for resign in (False, True):
                s = Scn(shape)
                for i, (ty, m, ks) in enumerate(shape):
                    s.sign(ks[:m] if not resign else ks[-m:], target=i)
                s.verify()
                s.tamper(name, j, True)
                s.verify()
                if resign:
                    for i, (ty, m, ks) in enumerate(shape):
                        s.sign(ks[-m:], target=i, replace=True)
                    s.verify()
                    s.tamper(name, j, False)
                    s.verify()
                else:
                    s.tamper(name, j, False)
                    s.verify()
                cs.append(s.case('tamper_' + name))
    # --- 4. signature-list edits at every position (removed / duplicated / swapped / replaced / corrupted)
    for ty in MULTI + SINGLE:
        for n, m in (((2, 2), (3, 2), (3, 3), (3, 1)) if ty in MULTI else ((1, 1),)):
            keys = toks(n)
            for nsig in sorted({m, n}):
                for pos in range(nsig):
                    edits = [('drop', None), ('dup', None), ('swap', None), ('untag', None), ('ins', '8c'),
                             ('ins', keys[-1]), ('ins', keys[0])] + [('var', v) for v in (1, 2, 3, 4, 5)]
                    for kind, arg in edits:
                        s = Scn([(ty, m, keys)])
                        s.sign(keys[:nsig])
                        s.verify(both=False)
                        s.edit(0, kind, pos, arg)
                        s.verify()
                        if kind in ('drop', 'var', 'untag'):
                            s.sign([keys[pos % n]])             # sign again after the edit
                            s.verify()
                            s.sign([keys[pos % n]], replace=True)
                            s.verify()
                        cs.append(s.case('sig_edit_' + kind))
    # --- 5. larger n (sampled), random op sequences
    for _ in range(400 if big else 25):
        n = rng.randrange(5, 16)
        m = rng.randrange(1, n + 1)
        ty = rng.choice(MULTI)
        keys = toks(n)
        order = rng.sample(keys, rng.randrange(max(1, m - 1), n + 1))
        s = Scn([(ty, m, keys)])
        while order:
            c = rng.randrange(1, len(order) + 1)
            s.sign(order[:c])
            order = order[c:]
            if rng.random() < 0.4:
                s.verify()
        s.verify()
        cs.append(s.case('large_n'))
    for _ in range(12000 if big else 600):
        cs.append(random_scenario(rng, big))
    return cs


def random_scenario(rng, big):
    pool = ['%d%s' % (i, c) for i in range(6) for c in 'cu']
    shape = []
    for _ in range(rng.choice([1, 1, 1, 2, 2, 3])):
        if rng.random() < 0.25:
            shape.append((rng.choice(SINGLE), 1, [rng.choice(pool)]))
        else:
            n = rng.randrange(1, 6 if big else 5)
            ks = [rng.choice(pool[:8]) for _ in range(n)]
            m = rng.randrange(1, len(set(ks)) + 1)
            shape.append((rng.choice(MULTI), m, ks))
    s = Scn(shape)
    fields = tamper_fields(shape)
    on = []
    for _ in range(rng.randrange(2, 10)):
        x = rng.random()
        i = rng.randrange(len(shape))
        if x < 0.45:
            src = shape[i][2] if rng.random() < 0.8 else pool
            signers = [rng.choice(src) for _ in range(rng.randrange(1, 4))]
            s.sign(signers, target=(i if rng.random() < 0.6 else None), replace=rng.random() < 0.3,
                   fail=rng.random() < 0.4)
        elif x < 0.7:
            s.verify(both=rng.random() < 0.5)
        elif x < 0.82:
            if on and rng.random() < 0.5:
                f = on.pop(rng.randrange(len(on)))
                s.tamper(f[0], f[1], False)
            else:
                f = rng.choice(fields)
                if f not in on:
                    on.append(f)
                    s.tamper(f[0], f[1], True)
        else:
            kind = rng.choice(['drop', 'dup', 'swap', 'untag', 'ins', 'ins', 'var'])
            arg = rng.choice(pool) if kind == 'ins' else rng.randrange(1, 6) if kind == 'var' else None
            s.edit(i, kind, rng.randrange(6), arg)
    s.verify()
    return s.case('random_ops')


def model_req(c):
    # expectation marks are for prop_check only
    return c.req.replace('V+', 'V').replace('V-', 'V').replace('R+', 'R').replace('R-', 'R')


def is_trivial(c, out):
    return '/' not in out or out.startswith('CRASH') or out == 'BADREQ'


# ---------------------------------------------------------------- property-level oracle
def parse_req(req):
    _, ins, ops = req.split(' ')
    inputs = []
    for s in ins.split(';'):
        ty, m, ks = s.split('/')
        inputs.append((ty, int(m), ks.split(',')))
    return inputs, ([] if ops == '-' else ops.split(';'))


def max_matching(rows):
    """size of a maximum matching between signatures (rows) and key positions (columns) over valid pairs"""
    match = {}

    def aug(i, seen):
        for j, ch in enumerate(rows[i]):
            if ch == '1' and j not in seen:
                seen.add(j)
                if j not in match or aug(match[j], seen):
                    match[j] = i
                    return True
        return False
    return sum(1 for i in range(len(rows)) if aug(i, set()))


def prop_check(c, out):
    """The statement, evaluated on the implementation's own answers: a verdict True (and Input.valid True) needs,
    for every input, at least m signatures each valid (measured with fastecdsa) for a distinct listed key;
    an honest history with >= m distinct listed signers on every input must verify (marks '+'/'-')."""
    if out.startswith('CRASH') or out == 'BADREQ':
        return 'unexpected answer %r' % out[:160]
    inputs, ops = parse_req(c.req)
    obs_ops = [o for o in ops if o[0] in 'SVR']
    obs = [] if out == '-' else out.split(' ')
    if len(obs) != len(obs_ops):
        return 'answer has %d observations for %d observing operations' % (len(obs), len(obs_ops))
    for o, a in zip(obs_ops, obs):
        if o[0] == 'S':
            if not (a in ('S0', 'S1', 'S2')):
                return 'sign() ended with %s' % a
            continue
        if not a.startswith('V') or a.count('/') != 2:
            return 'verification step %s answered %s' % (o, a[:80])
        verdict, flags, mat = a[1:].split('/')
        per = mat.split('|')
        if len(per) != len(inputs) or '?' in mat:
            return 'oracle matrix not computable: %s' % a[:80]
        enough = []
        for (ty, m, ks), rows in zip(inputs, per):
            enough.append(max_matching([] if rows == '-' else rows.split(',')) >= m)
        where = 'Transaction.verify()' if o[0] == 'V' else 'Transaction.parse(raw()).verify()'
        if verdict == 'T' and not all(enough):
            i = enough.index(False)
            return ('SOUNDNESS: %s is True but input %d (%s, %d-of-%d) carries fewer than %d signatures valid for '
                    'distinct listed keys (validity matrix %s)' % (where, i, inputs[i][0], inputs[i][1],
                                                                  len(set(inputs[i][2])), inputs[i][1], per[i]))
        for i, f in enumerate(flags):
            if f == 'T' and not enough[i]:
                return ('SOUNDNESS: Input.valid is True for input %d after %s although it carries fewer than %d '
                        'valid signatures for distinct listed keys (matrix %s)' % (i, where, inputs[i][1], per[i]))
        if o[1:] == '+' and verdict != 'T':
            return ('COMPLETENESS: every input was signed through Transaction.sign by at least m distinct listed keys '
                    'over the current digest but %s is False (matrix %s)' % (where, mat))
        if o[1:] == '-' and verdict != 'F':
            return 'SOUNDNESS: %s is True on a history with fewer than m listed signers (matrix %s)' % (where, mat)
    return None


def _same_point_twice(c):
    inputs, _ = parse_req(c.req)
    for ty, m, ks in inputs:
        d = set(ks)
        if len({k[:-1] for k in d}) < len(d):
            return True
    return False


def _resigned(c):
    """some input that already received a Transaction.sign call is signed again under a different digest (a
    committed field changed in between) or with replace_signatures=True"""
    inputs, ops = parse_req(c.req)
    epochs = [0] * len(inputs)
    seen = [set() for _ in inputs]
    for o in ops:
        f = o.split('/')
        if f[0] == 'T':
            epochs = [int(x) for x in f[3].split(',')]
        elif f[0] == 'S':
            for i in (range(len(inputs)) if f[1] == '*' else [int(f[1])]):
                if i < len(inputs):
                    if seen[i] and (f[2] == 'r' or epochs[i] not in seen[i]):
                        return True
                    seen[i].add(epochs[i])
    return False


KNOWN_CLASSES = {
    # both recorded classes are completeness failures; a soundness failure is never suppressed
    'dup_point_keys': lambda c, io, mo: _same_point_twice(c) and (prop_check(c, io) or '').startswith('COMPLETENESS'),
    'resign_keeps_stale': lambda c, io, mo: _resigned(c) and (prop_check(c, io) or '').startswith('COMPLETENESS'),
}


def _no_flags(ans):
    import re
    return re.sub(r'/[TFN]*/', '//', ans)


def reproduce_known(entry, rundir):
    from core import run_impl
    rc, out, err = run_impl(IMPL, [entry['witness']['request']], rundir)
    # Input.valid flags are left out of the comparison (they differ before/after fix C02-1)
    return len(out) == 1 and _no_flags(out[0]) == _no_flags(entry['witness']['impl_answer'])
