"""C04 — private key -> public key -> address is exact; invalid keys are refused."""
import hashlib, json, os
from core import Case
import core
import spec_networks as SN

# the two frozen copies of the network specification (harness/spec_networks.py, coq/Model/SpecNetworks.v) must be in sync
_sync = SN.selftest()
if _sync is not None:
    raise RuntimeError('frozen network specification out of sync: ' + _sync)

PROP = 'C04'
COQ_FILES = ['Extract/C04.v', 'Proofs/KeyPointMarker.v', 'Properties/C04.v']
DRIVER = 'c04'
IMPL = 'harness/impl/c04_impl.py'
ALLOWED_AXIOMS = []
ASSUMPTIONS = [
    'theorems are about coq/Model/KeyPoint.v and coq/Model/AddrEnc.v (lib_* mirrors keys.py Key.__init__ / get_key_format / '
    'public_uncompressed_hex / mod_sqrt / Key.address / HDKey.address / Address.__init__ and encoding.py to_bytes / '
    'pubkeyhash_to_addr*, as repaired by fixes/C04-1..4; spec_* is SEC 1, Base58Check, BIP141/173/341/350)',
    'network table: Gen/GenNetworks.v is regenerated from /repo on every run AND proved equal (vm_compute, field by field: '
    'Proofs/SpecNetworksGlue.v, theorem network_table_is_spec) to the frozen specification table coq/Model/SpecNetworks.v, '
    'written from the reference clients (Bitcoin / Litecoin / Dogecoin Core chainparams, SLIP-0132, SLIP-0044, BIP173/350); the '
    'property-level oracle uses the frozen Python twin harness/spec_networks.py (REFERENCE table), never /repo; fields marked '
    'policy there (dust, fees, priority, currency code, the bitcoinlib_test row, dogecoin hrp) are library choices frozen at '
    'their value of 2026-10-01; documented deviation of the library from the reference clients: the regtest row carries mainnet '
    'version bytes (known class regtest_mainnet_version_bytes), dogecoin extended keys use xpub/xprv (not observable in C04)',
    'tie to /repo: (a) network prefixes (Gen/GenNetworks.v), curve constants and BECH32M_CONST (Gen/GenConsts.v) and the '
    'literals of mod_sqrt / public_uncompressed_hex (Gen/GenKeyConsts.v, read from the AST) are regenerated on every run; '
    '(b) differential correspondence of lib_key_import, lib_public_*, lib_key_address, lib_hdkey_address, lib_address, '
    'lib_mod_sqrt against Key(...), HDKey(...), .public_hex, .public_compressed_hex, .public_uncompressed_hex, '
    '.public_point(), .hash160, .address(...), Address(...).address, mod_sqrt',
    'premises visible in the statements: Znumtheory.prime secp256k1_p (decompression theorems); on_curve (d*G) for the '
    'theorem that both encodings of a private key describe d*G (the group law of the executable curve is not proved); '
    'SHA-256 / RIPEMD-160 are the executable Gallina transcriptions (validated against hashlib in every run, not proved '
    'equal to FIPS 180-4); ec_point (fastecdsa) = textbook double-and-add is validated by the correspondence only',
    'not modelled in Gallina: WIF / BIP38 (oracle only, request route) / extended-key / mnemonic inputs and strings that reach the base58 recogniser of '
    'get_key_format (C12), the is_private and password arguments, the network_overrides argument of Address',
    'request route = Key / HDKey(<WIF text>) and Key / HDKey(<BIP38 text>, password=) (HDKey with witness_type legacy on the BIP38 '
    'route: the default refuses every BIP38 text), judged by the independent oracle only: WIF decoded by payload length (Base58Check), '
    'BIP38 strings from the frozen corpus corpus/C04/bip38.json (generated once by the harness reference encryptor: hashlib.scrypt + AES, '
    'which reproduces the published BIP38 vectors; sha256 of the file pinned; one row per run re-derived with the reference decryptor); '
    'secret, public encodings, point, address() and address(p2pkh, base58) compared with d*G of the scalar the text carries.  Missing '
    'theorem: lib_key_import over a Gallina Base58Check / WIF decoder (wif_import_is_scalar_import)',
    'outside the Gallina model, judged by the independent property-level oracle only (the driver answers OOS): request addrx = '
    'argument combinations of Address(...) (witness_type / script_type / encoding alone, together, contradicting; prefix=, witver, '
    'compressed, str / bytes / positional data, hashed_data), Key.address / address_uncompressed / address_obj, HDKey(witness_type=).address, '
    'Address.parse; request sess = histories on ONE Key / HDKey object (address calls with changing arguments, hash160 and public_* '
    'reads, network_change / network assignment, public()), each answer compared with the stateless standard address for the CURRENT '
    'network and the compression the call names; not decided there: a Key (not HDKey) call that leaves script_type or encoding to the '
    'object\'s previous address form, address_obj after the first address, contradicting argument pairs.  Missing theorem: '
    'address_session_is_stateless (a Gallina session over (network, compressed) whose every step equals lib_key_address on the current '
    'fields) and witness_type / prefix arguments in lib_address',
]
RULE = ('boundary scalars (1, 2, 3, n-1, n-2, (n+-1)/2, 2^k, 2^k-1, sparse), the refused set (0, n, n+1, 2n, 2^256-1, 2^256, -1), '
        'seeded random scalars; every import format of each scalar and every public encoding of each point through Key and HDKey; '
        'malformed public keys (off-curve x from x=5, x >= p, y not a root, wrong prefix/length); all networks x script types x '
        'encodings x compressed argument; the full grid network (every row of the frozen table) x script type (p2pkh, p2sh, '
        'p2sh_p2wpkh, p2sh_p2wsh, p2wpkh, p2wsh, p2tr, default) x encoding (base58, bech32, default) through Key.address, '
        'HDKey.address, Address(data), Address(hashed_data) and against the extracted frozen specification (stdaddr); '
        'argument combinations (addrx: Address x {script_type, encoding, witness_type} full cube on every network + random prefix / '
        'witver / compressed / data form / hashed_data; Key.address and HDKey(witness_type).address with prefix, address_uncompressed, '
        'address_obj; Address.parse of every standard form on every network); histories on one key object (sess: address, network '
        'change, address again for every network x witness type; random call sequences of 2..8 steps); '
        'special key material (last byte 01 / 0101 / 0100, first byte 00 / 01 / 80, leading zero bytes, 1, n-1, n-0x40, around '
        '2^248) on every import route: int / 32 bytes / 33 bytes with marker / hexadecimal (model), WIF compressed / uncompressed '
        'on several networks and BIP38 compressed / uncompressed from the frozen corpus corpus/C04/bip38.json (route: independent '
        'oracle); a case is non-trivial when the implementation returns a key/address; distinct by request')

# ---------------------------------------------------------------- independent oracle: curve (SEC 1 / SEC 2)
P = 2 ** 256 - 2 ** 32 - 977
N = 0xFFFFFFFFFFFFFFFFFFFFFFFFFFFFFFFEBAAEDCE6AF48A03BBFD25E8CD0364141
GX = 0x79BE667EF9DCBBAC55A06295CE870B07029BFCDB2DCE28D959F2815B16F81798
GY = 0x483ADA7726A3C4655DA4FBFC0E1108A8FD17B448A68554199C47D08FFB10D4B8


def ec_add(a, b):
    if a is None:
        return b
    if b is None:
        return a
    (x1, y1), (x2, y2) = a, b
    if x1 == x2:
        if (y1 + y2) % P == 0:
            return None
        l = 3 * x1 * x1 * pow(2 * y1, -1, P) % P
    else:
        l = (y2 - y1) * pow(x2 - x1, -1, P) % P
    x3 = (l * l - x1 - x2) % P
    return x3, (l * (x1 - x3) - y1) % P


_mul_cache = {}


def ec_mul(d, pt=None):
    key = (d, pt)
    if key in _mul_cache:
        return _mul_cache[key]
    r, q, k = None, (pt or (GX, GY)), d
    while k:
        if k & 1:
            r = ec_add(r, q)
        q = ec_add(q, q)
        k >>= 1
    if len(_mul_cache) > 20000:
        _mul_cache.clear()
    _mul_cache[key] = r
    return r


def on_curve(x, y):
    return 0 <= x < P and 0 <= y < P and (y * y - x * x * x - 7) % P == 0


def lift(x, odd):
    """SEC 1 2.3.4 for a compressed encoding: the point with this x and parity, or None"""
    if not 0 <= x < P:
        return None
    a = (x * x * x + 7) % P
    y = pow(a, (P + 1) // 4, P)
    if y * y % P != a:
        return None
    if (y & 1) != odd:
        y = P - y
    return x, y


def parse_pub(b):
    if len(b) == 33 and b[0] in (2, 3):
        return lift(int.from_bytes(b[1:], 'big'), b[0] & 1)
    if len(b) == 65 and b[0] == 4:
        x, y = int.from_bytes(b[1:33], 'big'), int.from_bytes(b[33:], 'big')
        return (x, y) if on_curve(x, y) else None
    return None


def ser_c(pt):
    return bytes([2 + (pt[1] & 1)]) + pt[0].to_bytes(32, 'big')


def ser_u(pt):
    return b'\x04' + pt[0].to_bytes(32, 'big') + pt[1].to_bytes(32, 'big')


# ---------------------------------------------------------------- independent oracle: address encodings
def sha256(b):
    return hashlib.sha256(b).digest()


def h160(b):
    return hashlib.new('ripemd160', sha256(b)).digest()


B58 = '123456789ABCDEFGHJKLMNPQRSTUVWXYZabcdefghijkmnopqrstuvwxyz'


def b58check(payload):
    raw = payload + sha256(sha256(payload))[:4]
    n = int.from_bytes(raw, 'big')
    s = ''
    while n:
        n, r = divmod(n, 58)
        s = B58[r] + s
    return '1' * (len(raw) - len(raw.lstrip(b'\0'))) + s


B32 = 'qpzry9x8gf2tvdw0s3jn54khce6mua7l'


def b32_polymod(values):
    gen = [0x3b6a57b2, 0x26508e6d, 0x1ea119fa, 0x3d4233dd, 0x2a1462b3]
    chk = 1
    for v in values:
        b = chk >> 25
        chk = (chk & 0x1ffffff) << 5 ^ v
        for i in range(5):
            chk ^= gen[i] if ((b >> i) & 1) else 0
    return chk


def segwit_addr(hrp, witver, prog):
    """BIP173 / BIP350 segwit_addr.encode"""
    acc, bits, data = 0, 0, [witver]
    for v in prog:
        acc = (acc << 8) | v
        bits += 8
        while bits >= 5:
            bits -= 5
            data.append((acc >> bits) & 31)
    if bits:
        data.append((acc << (5 - bits)) & 31)
    const = 1 if witver == 0 else 0x2bc830a3
    hx_ = [ord(c) >> 5 for c in hrp] + [0] + [ord(c) & 31 for c in hrp]
    pm = b32_polymod(hx_ + data + [0] * 6) ^ const
    chk = [(pm >> 5 * (5 - i)) & 31 for i in range(6)]
    return hrp + '1' + ''.join(B32[d] for d in data + chk)


def taproot_output_key(pt):
    """BIP341 taproot_tweak_pubkey with no script tree (BIP86)"""
    p0 = lift(pt[0], 0)
    tag = sha256(b'TapTweak')
    t = int.from_bytes(sha256(tag + tag + pt[0].to_bytes(32, 'big')), 'big')
    if t >= N or p0 is None:
        return None
    q = ec_add(p0, ec_mul(t))
    return None if q is None else q[0].to_bytes(32, 'big')


def nets(table=None):
    """network -> (P2PKH version, P2SH version, hrp) from the FROZEN specification (harness/spec_networks.py), never from /repo"""
    t = table or SN.REFERENCE
    return {k: SN.address_prefixes(k, t) for k in t}


STANDARD = {('p2pkh', 'base58'), ('p2sh_p2wpkh', 'base58'), ('p2wpkh', 'bech32'), ('p2wsh', 'bech32'), ('p2tr', 'bech32'),
            ('p2sh', 'base58'), ('p2sh_p2wsh', 'base58')}


def std_address(net, st, enc, data, table=None, pfx=None):
    """standard address of a public key (script for p2sh / p2wsh) or None when the combination has no standard form;
    pfx: explicit version bytes (base58) / human readable part (bech32) given by the caller instead of the network's"""
    if net not in (table or SN.REFERENCE):
        return None
    pa, ps, hrp = SN.address_prefixes(net, table)
    if pfx is not None:
        pa, ps, hrp = (pfx, pfx, None) if isinstance(pfx, bytes) else (None, None, pfx)
        if (enc == 'base58') != isinstance(pfx, bytes):
            return None
    if (st, enc) == ('p2pkh', 'base58'):
        return b58check(pa + h160(data))
    if (st, enc) == ('p2sh', 'base58'):
        return b58check(ps + h160(data))
    if (st, enc) == ('p2sh_p2wpkh', 'base58'):
        return b58check(ps + h160(b'\x00\x14' + h160(data)))
    if (st, enc) == ('p2sh_p2wsh', 'base58'):
        return b58check(ps + h160(b'\x00\x20' + sha256(data)))          # BIP141 P2WSH nested in P2SH
    if (st, enc) == ('p2wpkh', 'bech32'):
        return segwit_addr(hrp, 0, h160(data))
    if (st, enc) == ('p2wsh', 'bech32'):
        return segwit_addr(hrp, 0, sha256(data))
    if (st, enc) == ('p2tr', 'bech32'):
        pt = parse_pub(data)
        q = taproot_output_key(pt) if pt else None
        return segwit_addr(hrp, 1, q) if q else None
    return None


def std_address_of_hash(net, st, enc, h, table=None, pfx=None):
    if net not in (table or SN.REFERENCE):
        return None
    pa, ps, hrp = SN.address_prefixes(net, table)
    if pfx is not None:
        pa, ps, hrp = (pfx, pfx, None) if isinstance(pfx, bytes) else (None, None, pfx)
        if (enc == 'base58') != isinstance(pfx, bytes):
            return None
    if (st, enc) == ('p2pkh', 'base58') and len(h) == 20:
        return b58check(pa + h)
    if (st, enc) == ('p2sh', 'base58') and len(h) == 20:
        return b58check(ps + h)
    if (st, enc) == ('p2sh_p2wpkh', 'base58') and len(h) == 20:
        return b58check(ps + h160(b'\x00\x14' + h))                     # P2SH of the witness program OP_0 <key hash>
    if (st, enc) == ('p2sh_p2wsh', 'base58') and len(h) == 32:
        return b58check(ps + h160(b'\x00\x20' + h))                     # P2SH of the witness program OP_0 <script hash>
    if (st, enc) == ('p2wpkh', 'bech32') and len(h) == 20:
        return segwit_addr(hrp, 0, h)
    if (st, enc) == ('p2wsh', 'bech32') and len(h) == 32:
        return segwit_addr(hrp, 0, h)
    if (st, enc) == ('p2tr', 'bech32') and len(h) == 32:
        return segwit_addr(hrp, 1, h)
    return None


def hexlike(b):
    if not b:
        return False
    try:
        bytes.fromhex(b.decode())
        return True
    except (ValueError, UnicodeDecodeError):
        return False


# ---------------------------------------------------------------- independent oracle: text routes of a private key
# WIF (Base58Check of version || 32-byte secret [|| 01 = "the public key is compressed"]) and BIP38 without EC multiplication
# (prefix 0142, flag byte c0 / e0, scrypt N=16384 r=8 p=8 over the NFC UTF-8 passphrase salted with the first four bytes of
# SHA256(SHA256(P2PKH address)), AES-256-ECB of secret XOR derivedhalf1), written from the Bitcoin wiki / BIP38 text.
# scrypt is hashlib's (OpenSSL), AES-256 is the FIPS-197 transcription below: nothing here is read from /repo.
CORPUS_BIP38 = os.path.join(os.path.dirname(os.path.dirname(os.path.dirname(os.path.abspath(__file__)))), 'corpus', 'C04', 'bip38.json')
CORPUS_BIP38_SHA256 = '0d8846d2dda83a40a47c67f746ce4e6687350210552ab4446b5f3498edcde8b1'


# AES-256 single-block cipher (FIPS-197), used in ECB mode on the two 16-byte halves; validated on FIPS-197 C.3 at load
def _gmul(a, b):
    r = 0
    while b:
        if b & 1:
            r ^= a
        a = (a << 1) ^ (0x11b if a & 0x80 else 0)
        b >>= 1
    return r


def _aes_tables():
    inv = [0] * 256
    for a in range(1, 256):
        for b in range(1, 256):
            if _gmul(a, b) == 1:
                inv[a] = b
                break
    sb = []
    for a in range(256):
        x = inv[a]
        y = x
        for _ in range(4):
            x = ((x << 1) | (x >> 7)) & 0xff
            y ^= x
        sb.append(y ^ 0x63)
    isb = [0] * 256
    for i, v in enumerate(sb):
        isb[v] = i
    return sb, isb


_SBOX, _ISBOX = _aes_tables()


def _aes_round_keys(key):
    nk = len(key) // 4
    w = [list(key[4 * i:4 * i + 4]) for i in range(nk)]
    rcon = 1
    for i in range(nk, 4 * (nk + 7)):
        t = list(w[i - 1])
        if i % nk == 0:
            t = [_SBOX[t[1]] ^ rcon, _SBOX[t[2]], _SBOX[t[3]], _SBOX[t[0]]]
            rcon = _gmul(rcon, 2)
        elif nk > 6 and i % nk == 4:
            t = [_SBOX[x] for x in t]
        w.append([a ^ b for a, b in zip(w[i - nk], t)])
    return [sum(w[4 * r:4 * r + 4], []) for r in range(nk + 7)]


def _mix(st, m):
    out = []
    for c in range(4):
        col = st[4 * c:4 * c + 4]
        for r in range(4):
            out.append(_gmul(col[0], m[(0 - r) % 4]) ^ _gmul(col[1], m[(1 - r) % 4]) ^ _gmul(col[2], m[(2 - r) % 4]) ^ _gmul(col[3], m[(3 - r) % 4]))
    return out


def aes_encrypt_block(key, block):
    rk = _aes_round_keys(key)
    st = [a ^ b for a, b in zip(block, rk[0])]
    for r in range(1, len(rk)):
        st = [_SBOX[x] for x in st]
        st = [st[(4 * c + r_ + 4 * r_) % 16] for c in range(4) for r_ in range(4)]          # ShiftRows (column-major state)
        if r != len(rk) - 1:
            st = _mix(st, [2, 3, 1, 1])
        st = [a ^ b for a, b in zip(st, rk[r])]
    return bytes(st)


def aes_decrypt_block(key, block):
    rk = _aes_round_keys(key)
    st = [a ^ b for a, b in zip(block, rk[-1])]
    for r in range(len(rk) - 2, -1, -1):
        st = [st[(4 * c + r_ - 4 * r_) % 16] for c in range(4) for r_ in range(4)]          # InvShiftRows
        st = [_ISBOX[x] for x in st]
        st = [a ^ b for a, b in zip(st, rk[r])]
        if r != 0:
            st = _mix(st, [14, 11, 13, 9])
    return bytes(st)


_k, _p, _c = bytes(range(32)), bytes.fromhex('00112233445566778899aabbccddeeff'), bytes.fromhex('8ea2b7ca516745bfeafc49904b496089')
if aes_encrypt_block(_k, _p) != _c or aes_decrypt_block(_k, _c) != _p:
    raise RuntimeError('AES-256 reference does not reproduce FIPS-197 C.3')


def b58decode_check(s):
    """payload of a Base58Check string, None when the alphabet or the checksum is wrong"""
    n = 0
    for ch in s:
        i = B58.find(ch)
        if i < 0:
            return None
        n = n * 58 + i
    raw = n.to_bytes((n.bit_length() + 7) // 8, 'big')
    raw = b'\0' * (len(s) - len(s.lstrip('1'))) + raw
    if len(raw) < 5 or sha256(sha256(raw[:-4]))[:4] != raw[-4:]:
        return None
    return raw[:-4]


def wif_encode(d, comp, ver):
    return b58check(ver + d.to_bytes(32, 'big') + (b'\x01' if comp else b''))


def wif_decode(s):
    """-> (version byte, d, compressed) by the length of the payload ALONE (33 bytes: uncompressed, 34 bytes ending in 01:
    compressed; a secret that itself ends in 01 is not a marker), or None"""
    raw = b58decode_check(s)
    if raw is None:
        return None
    if len(raw) == 33:
        return raw[:1], int.from_bytes(raw[1:], 'big'), False
    if len(raw) == 34 and raw[-1] == 1:
        return raw[:1], int.from_bytes(raw[1:33], 'big'), True
    return None


def _bip38_halves(d, comp, pw=None):
    """salt: first four bytes of the double SHA-256 of the key's mainnet P2PKH address"""
    pt = ec_mul(d)
    addr = b58check(b'\x00' + h160(ser_c(pt) if comp else ser_u(pt)))
    ah = sha256(sha256(addr.encode('ascii')))[:4]
    return ah


def _bip38_kdf(pw, salt):
    import unicodedata
    return hashlib.scrypt(unicodedata.normalize('NFC', pw).encode('utf-8'), salt=salt, n=16384, r=8, p=8, maxmem=64 << 20, dklen=64)


def bip38_ref_encrypt(d, comp, pw):
    ah = _bip38_halves(d, comp, pw)
    k = _bip38_kdf(pw, ah)
    m = (d ^ int.from_bytes(k[:32], 'big')).to_bytes(32, 'big')
    return b58check(b'\x01\x42' + (b'\xe0' if comp else b'\xc0') + ah + aes_encrypt_block(k[32:], m[:16]) + aes_encrypt_block(k[32:], m[16:]))


def bip38_ref_decrypt(s, pw):
    """-> (d, compressed) or None (not a non-EC-multiplied BIP38 string / wrong passphrase: address hash does not confirm)"""
    raw = b58decode_check(s)
    if raw is None or len(raw) != 39 or raw[:2] != b'\x01\x42' or raw[2] not in (0xc0, 0xe0):
        return None
    comp = raw[2] == 0xe0
    k = _bip38_kdf(pw, raw[3:7])
    d = int.from_bytes(aes_decrypt_block(k[32:], raw[7:23]) + aes_decrypt_block(k[32:], raw[23:39]), 'big') ^ int.from_bytes(k[:32], 'big')
    if not 1 <= d < N or _bip38_halves(d, comp, pw) != raw[3:7]:
        return None
    return d, comp


# published vectors of BIP38 ("No compression, no EC multiply" test 1, "Compression, no EC multiply" tests 1 and 2)
BIP38_SPEC_VECTORS = [
    ('cbf4b9f70470856bb4f40f80b87edb90865997ffee6df315ab166d713af433a5', False, 'TestingOneTwoThree',
     '6PRVWUbkzzsbcVac2qwfssoUJAN1Xhrg6bNk8J7Nzm5H7kxEbn2Nh2ZoGg'),
    ('cbf4b9f70470856bb4f40f80b87edb90865997ffee6df315ab166d713af433a5', True, 'TestingOneTwoThree',
     '6PYNKZ1EAgYgmQfmNVamxyXVWHzK5s6DGhwP4J5o44cvXdoY7sRzhtpUeo'),
    ('09c2686880095b1a4c249ee3ac4eea8a014f11e6f986d0b5025ac1f39afbd9ae', True, 'Satoshi',
     '6PYLtMnXvfG3oJde97zRyLYFZCYizPU5T3LwgdYJz1fRhh16bU7u6PPmY7'),
]


def bip38_corpus_build(path=CORPUS_BIP38):
    """ONE-TIME generation of corpus/C04/bip38.json by the reference encryptor above (never by /repo); the reference
    must reproduce the published vectors first.  Special key material: secrets whose last byte is 01 (the byte that
    also serves as compression marker), first byte 00 / 01 / 80, leading zero bytes, 1, n-1, values around 2^248."""
    import random
    for hx_, comp, pw, s in BIP38_SPEC_VECTORS:
        assert bip38_ref_encrypt(int(hx_, 16), comp, pw) == s, ('reference encryptor differs from BIP38 vector', s)
        assert bip38_ref_decrypt(s, pw) == (int(hx_, 16), comp)
    r = random.Random(38)
    rs = [r.randrange(1, N) for _ in range(6)]
    mat = [(257, 'both'), (0x0C28FCA386C7A227600B2FE50B7CAE11EC86D3BF1FBE471BE89827E19D72AA01, 'both'), (int('01' * 32, 16), 'c'),
           (N - 0x40, 'both'), (1, 'both'), (N - 1, 'both'), ((1 << 248) + 1, 'c'), ((1 << 255) | 1, 'both'),
           ((1 << 248) - 0xff, 'c'), (0x0100, 'c'), (0x010101, 'c'), (1 << 248, 'c'), ((1 << 248) - 1, 'u'),
           ((rs[0] & ~0xff) | 1, 'c'), ((rs[1] & ~0xff) | 1, 'u'), (rs[2], 'c'), (rs[3], 'u'), (((rs[4] >> 128) & ~0xff) | 1, 'c'),
           ((rs[5] & ~0xffff) | 0x0101, 'c'), (0x80 << 248 | 0x0100, 'u'), (2, 'c'), (N - 2, 'c')]
    pws = ['pw', 'TestingOneTwoThree', 'correct horse battery', 'pässwörd']
    rows = [dict(secret=h, compressed=c, password=p, encrypted=s, source='BIP38 test vector') for h, c, p, s in BIP38_SPEC_VECTORS]
    for d, which in mat:
        for comp in ((True, False) if which == 'both' else (which == 'c',)):
            pw = r.choice(pws)
            s = bip38_ref_encrypt(d, comp, pw)
            assert bip38_ref_decrypt(s, pw) == (d, comp)
            rows.append(dict(secret='%064x' % d, compressed=comp, password=pw, encrypted=s, source='harness reference encryptor'))
    os.makedirs(os.path.dirname(path), exist_ok=True)
    with open(path, 'w') as f:
        json.dump(dict(note='BIP38 (non-EC-multiplied, bitcoin mainnet) strings of special private-key material; generated once by '
                            'bip38_corpus_build in harness/props/c04.py (hashlib.scrypt + FIPS-197 AES), frozen; never regenerated from /repo',
                       rows=rows), f, indent=1, ensure_ascii=True)
        f.write('\n')
    return hashlib.sha256(open(path, 'rb').read()).hexdigest()


def _load_bip38():
    if os.environ.get('C04_BIP38_BUILD'):
        return []                    # only while bip38_corpus_build() writes the file for the first time
    raw = open(CORPUS_BIP38, 'rb').read()
    if hashlib.sha256(raw).hexdigest() != CORPUS_BIP38_SHA256:
        raise RuntimeError('corpus/C04/bip38.json differs from the frozen copy (sha256)')
    return json.loads(raw)['rows']


BIP38_ROWS = _load_bip38()
BIP38_BY_STRING = {r['encrypted']: (int(r['secret'], 16), r['compressed'], r['password']) for r in BIP38_ROWS}
_bip38_checked = {}


def bip38_lookup(s, pw):
    """(d, compressed) of a BIP38 string under this passphrase: the frozen corpus row when there is one (one row per
    process is re-derived with the reference decryptor, ~0.5 s of scrypt), the reference decryptor otherwise"""
    row = BIP38_BY_STRING.get(s)
    if row is None or row[2] != pw:
        if (s, pw) not in _bip38_checked:
            _bip38_checked[(s, pw)] = bip38_ref_decrypt(s, pw)
        return _bip38_checked[(s, pw)]
    if not _bip38_checked:
        _bip38_checked[(s, pw)] = bip38_ref_decrypt(s, pw)
        if _bip38_checked[(s, pw)] != row[:2]:
            raise RuntimeError('corpus/C04/bip38.json: row %s does not decrypt to its secret with the reference decryptor' % s)
    return row[:2]


def route_expect(t):
    """route <entry> <kind> <string> <cp> <net> <pwhex>: what the text names -> ('none',) | ('refuse', d) | ('key', d, compressed)"""
    entry, kind, s, cp, net, pwhex = t[1:]
    if net not in SN.REFERENCE:
        return ('none',)
    if kind == 'wif':
        w = wif_decode(s)
        if w is None or w[0] != SN.wif_prefix(net):
            return ('none',)
        d, comp = w[1], w[2]
    elif kind == 'bip38':
        if net != 'bitcoin':
            return ('none',)         # the address inside the salt is the mainnet P2PKH address in the specification
        w = bip38_lookup(s, unhx(pwhex).decode('utf-8'))
        if w is None:
            return ('none',)
        d, comp = w
    else:
        return ('none',)
    return ('key', d, comp) if 1 <= d < N else ('refuse', d)


def route_verdict(t, out):
    entry, kind, s, cp, net, pwhex = t[1:]
    e = route_expect(t)
    if e[0] == 'none':
        return None
    if e[0] == 'refuse':
        return None if out == 'ERR' else 'the %s text carries the scalar %d outside [1, n-1] but %s(...) answered %s' % (kind, e[1], entry, out[:90])
    d, comp = e[1], e[2]
    pt = ec_mul(d)
    pub = ser_c(pt) if comp else ser_u(pt)
    p2pkh = std_address(net, 'p2pkh', 'base58', pub, SN.REFERENCE)
    o = out.split(' ')
    head = ['OK', '1', str(d), pub.hex(), ser_c(pt).hex(), ser_u(pt).hex(), str(pt[0]), str(pt[1])]
    if o[:8] != head or len(o) != 10:
        return 'valid %s%s private key %064x via %s(<%s text>): answer %s..., expected %s...' % (
            'compressed ' if comp else 'uncompressed ', kind, d, entry, kind, out[:170], ' '.join(head)[:170])
    # o[8]: address() with no argument, o[9]: address(script_type='p2pkh', encoding='base58') on the same object
    if entry == 'Key' or (entry == 'HDKey' and kind == 'bip38'):
        dflt = p2pkh                 # Key default; HDKey is built with witness_type='legacy' on the BIP38 route (HDKeyD: default)
    else:
        dflt = std_address(net, 'p2wpkh', 'bech32', pub, SN.REFERENCE) if comp else None      # HDKey default: native segwit
    if dflt is not None and o[8] != dflt:
        return '%s(<%s of %064x>).address() is %s, the standard encoding is %s' % (entry, kind, d, o[8][:90], dflt)
    if o[9] != p2pkh:
        return '%s(<%s of %064x>).address(p2pkh, base58) is %s, the standard encoding is %s' % (entry, kind, d, o[9][:90], p2pkh)
    return None


# ---------------------------------------------------------------- what a request denotes (from the request alone)
def unhx(s):
    return b'' if s == '-' else bytes.fromhex(s)


def classify(fmt, arg, cparam):
    """-> ('priv', d, compressed, wide) | ('pub', point|None, compressed, imported_bytes) | ('empty',) | ('oos',)"""
    if fmt == 'int':
        return ('priv', int(arg), cparam, False)
    if fmt == 'dec':
        if '0' in arg and 70 < len(arg) < 78 and arg.isdigit():
            return ('priv', int(arg), cparam, False)
        return ('oos',)
    if fmt in ('hex', 'bytes'):
        b = unhx(arg)
        n = len(b)
        if n == 0:
            return ('empty',)
        if fmt == 'hex':
            if n == 65 and b[0] == 4:
                return ('pub', parse_pub(b), False, b)
            if n == 64:
                return ('priv', int.from_bytes(b, 'big'), cparam, True)
            if n == 33 and b[0] in (2, 3):
                return ('pub', parse_pub(b), True, b)
            if n == 32:
                return ('priv', int.from_bytes(b, 'big'), cparam, False)
            if n == 33 and b[-1] == 1:
                return ('priv', int.from_bytes(b[:32], 'big'), True, False)
            return ('oos',)
        if n in (33, 65) and b[0] in (2, 3, 4):
            return ('pub', parse_pub(b), n == 33, b)
        if n == 33 and b[-1] == 1:
            return ('priv', int.from_bytes(b[:32], 'big'), True, False)
        if n == 32:
            return ('priv', int.from_bytes(b, 'big'), cparam, False)
        return ('oos',)
    if fmt == 'point':
        x, y = [int(v) for v in arg.split(',')]
        return ('pub', (x, y) if on_curve(x, y) else None, cparam, None)
    return ('oos',)


def expect_address(t, table):
    """what the property demands of an addr / address / stdaddr request, with the network constants of `table`:
    ('none', None) no verdict here | ('refuse', text) the input is not a key: 'ERR import' is the only right answer |
    ('exp', (label, address)) the standard encoding"""
    if t[0] == 'addr':
        entry, fmt, arg, cp, net, carg, st, enc = t[1:]
        k = classify(fmt, arg, cp == '1')
        if k[0] in ('oos', 'empty'):
            return 'none', None
        if k[0] == 'priv':
            if not 1 <= k[1] < N:
                return 'refuse', 'scalar outside [1, n-1], but the address'
            pt = ec_mul(k[1])
        else:
            pt = k[1]
            if pt is None:
                return 'refuse', 'not a curve point, but the address'
        use_c = k[2] if carg == 'N' else carg == '1'
        e = enc if enc != 'N' else ('bech32' if entry == 'HDKey' else 'base58')
        s = st if st != 'N' else ('p2wpkh' if (entry == 'HDKey' or e == 'bech32') else 'p2pkh')
        if not use_c and (e == 'bech32' or s in ('p2sh_p2wpkh',)):
            # segwit programs commit to compressed keys only (BIP143): refusing is right, anything else is not decided here
            return 'none', None
        exp = std_address(net, s, e, ser_c(pt) if use_c else ser_u(pt), table)
        return ('none', None) if exp is None else ('exp', ('%s address of the key is' % s, exp))
    if t[0] == 'address':
        net, st, enc, witver, data, hashed = t[1:]
        data, hashed = unhx(data), unhx(hashed)
        if st == 'N' or enc == 'N' or (st, enc) not in STANDARD:
            return 'none', None
        if hashed:
            if int(witver) != (1 if st == 'p2tr' else 0) and not (st == 'p2tr' and witver == '0'):
                return 'none', None
            exp = std_address_of_hash(net, st, enc, hashed, table)
        elif data and int(witver) == 0:
            exp = std_address(net, st, enc, data, table)
        else:
            return 'none', None
        return ('none', None) if exp is None else ('exp', ('Address(...) gives', exp))
    if t[0] == 'addrx' and t[1] != 'P':
        return expect_addrx(t, table)
    if t[0] == 'stdaddr':
        net, st, enc, data = t[1:]
        if (st, enc) not in STANDARD or not unhx(data):
            return 'none', None
        exp = std_address(net, st, enc, unhx(data), table)
        return ('none', None) if exp is None else ('exp', ('Address(data) gives', exp))
    return 'none', None


# ---------------------------------------------------------------- argument combinations (addrx) and histories (sess)
FAMILY = {'p2pkh': 'legacy', 'p2sh': 'legacy', 'p2sh_p2wpkh': 'p2sh-segwit', 'p2sh_p2wsh': 'p2sh-segwit',
          'p2wpkh': 'segwit', 'p2wsh': 'segwit', 'p2tr': 'taproot'}
FAMILY_ENC = {'legacy': 'base58', 'p2sh-segwit': 'base58', 'segwit': 'bech32', 'taproot': 'bech32'}
FAMILY_KEY_ST = {'legacy': 'p2pkh', 'p2sh-segwit': 'p2sh_p2wpkh', 'segwit': 'p2wpkh'}


def denote(st, enc, wt):
    """the (script type, encoding) that the arguments script_type / encoding / witness_type of Address(...) denote, by
    the documented meaning of each argument alone ('legacy' = old-style base58, 'segwit' = native bech32, 'p2sh-segwit' =
    segwit nested in P2SH, base58); None when they say nothing (all absent) or contradict each other: no verdict then"""
    if st is not None:
        fam = FAMILY.get(st)
        if fam is None or (wt is not None and wt != fam):
            return None
    elif wt is not None:
        fam = wt
        st = FAMILY_KEY_ST.get(wt)
        if st is None:
            return None
    elif enc is not None:
        return ('p2pkh', 'base58') if enc == 'base58' else (('p2wpkh', 'bech32') if enc == 'bech32' else None)
    else:
        return None
    if enc is not None and enc != FAMILY_ENC[fam]:
        return None
    return st, FAMILY_ENC[fam]


def kw_of(s):
    return {} if s == '-' else dict(x.split('=', 1) for x in s.split(','))


def pfx_of(kw):
    if 'pfx' in kw:
        return bytes.fromhex(kw['pfx'])
    if 'pfxh' in kw:
        return bytes.fromhex(kw['pfxh'])
    if 'pfxs' in kw:
        return kw['pfxs']
    return None


def hd_defaults(wt):
    """script type / encoding of an HDKey built with this witness_type (default: segwit)"""
    return {'N': ('p2wpkh', 'bech32'), 'segwit': ('p2wpkh', 'bech32'), 'legacy': ('p2pkh', 'base58'),
            'p2sh-segwit': ('p2sh_p2wpkh', 'base58')}[wt]


def key_call_candidates(entry, wt, kw, fresh):
    """(script type, encoding) pairs a Key.address / HDKey.address call may denote.  One pair when the call decides it
    (both given; HDKey fills the rest from its witness_type; a Key that never produced an address uses the documented
    defaults base58 / p2pkh, bech32 / p2wpkh); otherwise (a Key object that remembers its previous address form) every
    standard pair that agrees with the given arguments."""
    st, enc = kw.get('st'), kw.get('enc')
    if entry == 'HDKey':
        dst, denc = hd_defaults(wt)
        if enc is None:
            enc = denc
        if st is None:
            st = dst if enc == denc else ('p2wpkh' if enc == 'bech32' else 'p2pkh')
            if kw.get('enc') is not None and kw['enc'] != denc:
                return None          # HDKey passes its own script type along with a foreign encoding: not decided here
        return [(st, enc)]
    if st is not None and enc is not None:
        return [(st, enc)]
    if fresh:
        e = enc or 'base58'
        return [(st or ('p2wpkh' if e == 'bech32' else 'p2pkh'), e)]
    return [(s, e) for (s, e) in sorted(STANDARD) if s != 'p2tr' and st in (None, s) and enc in (None, e)]


def key_address_set(net, pt, comps, cands, pfx, table):
    """admissible answers: the standard address for every candidate; 'ERR' where refusing is right (segwit commits to
    compressed keys only); None when some candidate has no standard form (no verdict)"""
    if cands is None:
        return None
    ok = set()
    for comp in comps:
        for st, enc in cands:
            if (st, enc) not in STANDARD or st == 'p2tr':
                return None
            if not comp and (enc == 'bech32' or st == 'p2sh_p2wpkh'):
                return None          # refusing is right, anything else is not decided here
            a = std_address(net, st, enc, ser_c(pt) if comp else ser_u(pt), table, pfx)
            if a is None:
                return None
            ok.add(a)
    return ok


def expect_addrx(t, table):
    if t[1] == 'A':
        net, data, kws = t[2:]
        kw = kw_of(kws)
        d = denote(kw.get('st'), kw.get('enc'), kw.get('wt'))
        wv = int(kw.get('witver', '0'))
        if d is None:
            return 'none', None
        if net == 'N':
            net = 'bitcoin'          # documented default network
        if kw.get('hd') == '1':
            if wv != 0 and not (d[0] == 'p2tr' and wv == 1):
                return 'none', None
            exp = std_address_of_hash(net, d[0], d[1], unhx(data), table, pfx_of(kw))
        else:
            if d[0] == 'p2tr' or wv != 0:
                return 'none', None
            exp = std_address(net, d[0], d[1], unhx(data), table, pfx_of(kw))
        return ('none', None) if exp is None else ('exp', ('Address(...) for %s/%s gives' % d, exp))
    if t[1] in ('K', 'H'):
        net, d, cp, wt, kws = t[2:]
        kw = kw_of(kws)
        d = int(d)
        if not 1 <= d < N:
            return 'refuse', 'scalar outside [1, n-1], but the address'
        entry = 'HDKey' if t[1] == 'H' else 'Key'
        comp = cp == '1'
        if kw.get('m') == 'u':
            comp = False
        elif 'comp' in kw and kw.get('m') != 'o':
            comp = kw['comp'] == '1'
        if kw.get('m') == 'o':
            kw = {}
        ok = key_address_set(net, ec_mul(d), [comp], key_call_candidates(entry, wt, kw, True), pfx_of(kw), table)
        if not ok or len(ok) != 1:
            return 'none', None
        return 'exp', ('%s(...).address(%s) gives' % (entry, kws), list(ok)[0])
    return 'none', None


def parse_verdict(t, out):
    """Address.parse of a standard address: the same address, the script type its form denotes, the committed hash"""
    addr, net, enc = t[2:]
    if not out.startswith('OK '):
        return 'Address.parse refuses the standard address %s: %s' % (addr, out[:60])
    o = out.split(' ')
    if o[1] != addr:
        return 'Address.parse(%s).address is %s' % (addr, o[1])
    return None


def sess_verdict(t, out, table):
    """every answer of a history on one key object equals the stateless answer for the CURRENT fields of the object
    (network after network_change; compression flag as imported, or as the call itself says)"""
    entry, d, cp, net, wt = t[1:6]
    steps = t[6:]
    d = int(d)
    if out == 'ERR import':
        return None if not 1 <= d < N else 'valid key refused'
    outs = out.split('|')
    if len(outs) != len(steps):
        return 'answers %d for %d steps' % (len(outs), len(steps))
    pt = ec_mul(d)
    flag = cp == '1'
    comps = [flag]            # what "the key's own compression" means: undisputed until a call overrides it explicitly
    fresh = True              # no address has been produced by this object yet
    for i, (step, o) in enumerate(zip(steps, outs)):
        f = step.split(':')
        kw = kw_of(f[1]) if len(f) > 1 and f[0] in ('a', 'u', 'pp') else {}
        ok = None
        if f[0] == 'n':
            net = f[1]
            ok = {'ok'}
        elif f[0] == 'pc':
            ok = {ser_c(pt).hex()}
        elif f[0] == 'pu':
            ok = {ser_u(pt).hex()}
        elif f[0] in ('ph', 'pb'):
            ok = {(ser_c(pt) if c else ser_u(pt)).hex() for c in comps}
        elif f[0] == 'h':
            ok = {h160(ser_c(pt) if c else ser_u(pt)).hex() for c in comps}
        elif f[0] in ('a', 'u', 'o', 'pp'):
            cs_ = [False] if f[0] == 'u' else ([kw['comp'] == '1'] if 'comp' in kw else comps)
            if f[0] == 'o' and not fresh:
                ok = None         # address_obj hands out the object of the last address() call by design
            elif entry == 'Key' and not (fresh and f[0] != 'pp') and not ('st' in kw and 'enc' in kw):
                ok = None         # a Key object fills absent arguments from its previous address form: not decided here
            else:
                ok = key_address_set(net, pt, cs_, key_call_candidates(entry, wt, kw, True), pfx_of(kw), table)
            if f[0] != 'pp':
                fresh = False
                if len(cs_) == 1 and cs_[0] != flag:
                    comps = [True, False]
        else:
            return 'bad step ' + step
        if ok is not None and o not in ok:
            return 'step %d (%s) of the history on one %s object answers %s, the stateless answer for network %s is %s' % (
                i + 1, step, entry, o[:90], net, ' or '.join(sorted(ok))[:200])
    return None


def prop_check(c, out):
    t = c.req.split(' ')
    if out.startswith('CRASH') or out == 'BADREQ':
        return 'unexpected answer %r' % out[:120]
    if t[0] == 'import':
        entry, fmt, arg, cp, strict, net = t[1:]
        k = classify(fmt, arg, cp == '1')
        if k[0] == 'oos':
            return None
        if k[0] == 'empty':
            return None          # '' / b'' mean "generate a key" by documented design
        if k[0] == 'priv':
            d, comp = k[1], k[2]
            if not 1 <= d < N:
                return None if out == 'ERR' else 'scalar %d is outside [1, n-1] but Key(...) answered %s' % (d, out[:90])
            pt = ec_mul(d)
            priv = ['1', str(d)]
        else:
            pt, comp = k[1], k[2]
            if pt is None:
                return None if out == 'ERR' else 'not a curve point, but Key(...) answered %s' % out[:110]
            priv = ['0', '-']
        pub = ser_c(pt) if comp else ser_u(pt)
        exp = ' '.join(['OK'] + priv + [pub.hex(), ser_c(pt).hex(), ser_u(pt).hex(), str(pt[0]), str(pt[1])])
        return None if out == exp else 'valid key: answer %s..., expected %s...' % (out[:150], exp[:150])
    if t[0] == 'keyhash':
        entry, fmt, arg, cp = t[1:]
        k = classify(fmt, arg, cp == '1')
        if k[0] in ('oos', 'empty'):
            return None
        pt = (ec_mul(k[1]) if 1 <= k[1] < N else None) if k[0] == 'priv' else k[1]
        if pt is None:
            return None if out == 'ERR import' else 'not a key, but hash160 %s is returned' % out[:60]
        exp = h160(ser_c(pt) if k[2] else ser_u(pt)).hex()
        return None if out == exp else 'Key.hash160 = %s, RIPEMD160(SHA256(public key)) = %s' % (out[:60], exp)
    if t[0] == 'sess':
        return sess_verdict(t, out, SN.REFERENCE)
    if t[0] == 'route':
        return route_verdict(t, out)
    if t[0] == 'addrx' and t[1] == 'P':
        return parse_verdict(t, out)
    if t[0] in ('addr', 'address', 'stdaddr', 'addrx'):
        kind, val = expect_address(t, SN.REFERENCE)
        if kind == 'none':
            return None
        if kind == 'refuse':
            return None if out == 'ERR import' else val + ' %s is returned' % out[:90]
        return None if out == val[1] else '%s %s, the standard encoding is %s' % (val[0], out[:90], val[1])
    if t[0] == 'modsqrt':
        a = int(t[1])
        r = pow(a, (P + 1) // 4, P)
        return None if out == str(r) else 'mod_sqrt(%d) = %s, a^((p+1)/4) mod p = %d' % (a, out[:80], r)
    return None


# ---------------------------------------------------------------- known classes (decided from the request alone)
def _pfx_hexlike(kws):
    """an explicit prefix (pfx= bytes / pfxh= hexadecimal text) whose BYTES read as hexadecimal text; for the one- and two-byte
    values that occur: ASCII white space only (09 0a 0b 0c 0d 20), which bytes.fromhex reads as the empty string"""
    kw = kw_of(kws)
    v = kw.get('pfx', kw.get('pfxh'))
    return bool(v) and hexlike(bytes.fromhex(v))


def _pfx_unhexlified(t):
    """the same addrx request with the prefix replaced by what to_bytes() makes of it"""
    kw = kw_of(t[-1])
    v = kw.pop('pfx', None) or kw.pop('pfxh', None)
    kw['pfx'] = bytes.fromhex(bytes.fromhex(v).decode()).hex()
    return t[:-1] + [','.join('%s=%s' % kv for kv in kw.items())]


def _prefix_ascii_hex(c, io):
    t = c.req.split(' ')
    if _cls(c) != 'prefix_ascii_hex':
        return False
    kind, val = expect_address(_pfx_unhexlified(t), SN.REFERENCE)
    return kind == 'exp' and io == val[1]


def _cls(c):
    t = c.req.split(' ')
    if t[0] in ('import', 'addr', 'keyhash'):
        entry, fmt, arg = t[1:4]
        if fmt == 'hex' and len(arg) == 128:
            return 'hex128_wide_secret'
        if t[0] == 'import' and t[5] == '0' and classify(fmt, arg, True)[0] == 'pub':
            return 'nonstrict_tolerated'
        if t[0] == 'addr' and t[7] == 'p2tr' and (t[8] == 'bech32' or (t[8] == 'N' and entry == 'HDKey')):
            return 'p2tr_from_key_sha256'
    if t[0] == 'address':
        if unhx(t[6]) and hexlike(unhx(t[6])):
            return 'hash_ascii_hex'
        if t[5] != '-' and unhx(t[5]) and hexlike(unhx(t[5])):
            return 'hash_ascii_hex'     # Address(data=<bytes>) goes through the same to_bytes() (white space only -> b'')
        if t[2] == 'p2tr' and t[3] == 'bech32' and not unhx(t[6]):
            return 'p2tr_from_key_sha256'
    if t[0] == 'stdaddr' and t[2] == 'p2tr' and t[3] == 'bech32':
        return 'p2tr_from_key_sha256'
    if t[0] == 'addrx' and t[1] == 'A':
        kw = kw_of(t[4])
        if kw.get('st') == 'p2tr' and kw.get('wt') == 'taproot' and kw.get('witver', '0') == '0' and kw.get('hd') == '1':
            return 'p2tr_explicit_taproot_witver0'
    if t[0] == 'addrx' and t[1] in ('A', 'K', 'H') and _pfx_hexlike(t[-1]):
        return 'prefix_ascii_hex'
    if t[0] == 'route' and t[1] == 'HDKeyD' and t[2] == 'bip38':
        return 'hdkey_bip38_default_witness_refused'
    if t[0] == 'sess':
        seen = False
        for step in t[6:]:
            f = step.split(':')
            if f[0] in ('a', 'u') and seen and ('pfx=' in step or 'pfxs=' in step):
                return 'address_prefix_arg_reuses_cached_object'
            seen = seen or f[0] in ('a', 'u', 'o')
    return None


def _documented_deviation(c, io):
    """the answer is EXACTLY the encoding with the version bytes the library is pinned to (FROZEN table), on a network whose
    address version bytes are a documented deviation from the reference client (regtest: mainnet 00 / 05 instead of 6f / c4);
    any other answer on such a network is outside the class"""
    t = c.req.split(' ')
    if t[0] == 'sess':
        nets_ = [t[4]] + [x[2:] for x in t[6:] if x.startswith('n:')]
        if not any(SN.deviates(n, 'prefix_address') or SN.deviates(n, 'prefix_address_p2sh') for n in nets_):
            return False
        return sess_verdict(t, io, SN.REFERENCE) is not None and sess_verdict(t, io, SN.FROZEN) is None
    if t[0] not in ('addr', 'address', 'stdaddr', 'addrx') or (t[0] == 'addrx' and t[1] == 'P'):
        return False
    net = t[5] if t[0] == 'addr' else (t[2] if t[0] == 'addrx' else t[1])
    if net == 'N':
        return False
    if not (SN.deviates(net, 'prefix_address') or SN.deviates(net, 'prefix_address_p2sh') or SN.deviates(net, 'prefix_bech32')):
        return False
    kr, vr = expect_address(t, SN.REFERENCE)
    kf, vf = expect_address(t, SN.FROZEN)
    return kr == 'exp' and kf == 'exp' and vr[1] != vf[1] and io == vf[1]


PROPOSED_CLASSES = ('p2tr_explicit_taproot_witver0', 'address_prefix_arg_reuses_cached_object', 'hdkey_bip38_default_witness_refused',
                    'prefix_ascii_hex')
KNOWN_CLASSES = {
    'hex128_wide_secret': lambda c, io, mo: _cls(c) == 'hex128_wide_secret',
    'nonstrict_tolerated': lambda c, io, mo: _cls(c) == 'nonstrict_tolerated',
    'p2tr_from_key_sha256': lambda c, io, mo: _cls(c) == 'p2tr_from_key_sha256',
    'hash_ascii_hex': lambda c, io, mo: _cls(c) == 'hash_ascii_hex',
    'p2tr_explicit_taproot_witver0': lambda c, io, mo: _cls(c) == 'p2tr_explicit_taproot_witver0',
    'address_prefix_arg_reuses_cached_object': lambda c, io, mo: _cls(c) == 'address_prefix_arg_reuses_cached_object',
    'hdkey_bip38_default_witness_refused': lambda c, io, mo: _cls(c) == 'hdkey_bip38_default_witness_refused' and io == 'ERR',
    'prefix_ascii_hex': lambda c, io, mo: _prefix_ascii_hex(c, io),
    'regtest_mainnet_version_bytes': lambda c, io, mo: _cls(c) is None and _documented_deviation(c, io),
}


def reproduce_known(entry, rundir):
    from core import run_impl
    rc, out, err = run_impl(IMPL, [entry['witness']['request']], rundir)
    return len(out) == 1 and out[0] == entry['witness']['impl_answer']


def same(c, io, mo):
    return mo == 'OOS' or io == mo


def is_trivial(c, out):
    return out.startswith('ERR') or out in ('BADREQ', 'RANDOM')


# ---------------------------------------------------------------- generators
NETS = list(SN.NETWORK_NAMES)          # every row of the frozen specification table
STS = ['p2pkh', 'p2sh_p2wpkh', 'p2wpkh', 'p2wsh', 'p2tr']
ALL_STS = ['p2pkh', 'p2sh', 'p2sh_p2wpkh', 'p2sh_p2wsh', 'p2wpkh', 'p2wsh', 'p2tr']
ENCS = ['base58', 'bech32']


def hx(b):
    return b.hex() if b else '-'


def scalar_formats(d):
    """(fmt, arg) for every import format that can carry the integer d"""
    out = [('int', str(d))]
    if d >= 0:
        s = str(d)
        if 70 < len(s) < 78 and '0' in s:
            out.append(('dec', s))
        if d < 1 << 256:
            b = d.to_bytes(32, 'big')
            out += [('hex', b.hex()), ('bytes', b.hex()), ('hex', b.hex() + '01'), ('bytes', b.hex() + '01')]
        if d < 1 << 512:
            out.append(('hex', d.to_bytes(64, 'big').hex()))
    return out


def import_cases(cs, fmt, arg, rng, nets_, entries=('Key', 'HDKey'), stricts=('1',), kind='import'):
    for entry in entries:
        if entry == 'HDKey' and fmt == 'bytes' and len(arg) == 128:
            continue        # 64 bytes are key + chain code for HDKey
        for strict in stricts:
            if entry == 'HDKey' and strict == '0':
                continue
            for cp in ('1', '0'):
                cs.append(Case(kind, 'import %s %s %s %s %s %s' % (entry, fmt, arg, cp, strict, rng.choice(nets_))))


def gen_cases(rng, tier):
    big = tier == 'thorough'
    nets_ = sorted(NETS)
    cs = []
    # ---- scalars
    edge = [1, 2, 3, N - 1, N - 2, (N + 1) // 2, (N - 1) // 2]
    pows = []
    for k in range(1, 256):
        pows += [1 << k, (1 << k) - 1]
    sparse = []
    for _ in range(60 if big else 20):
        v = 0
        for _ in range(rng.randrange(1, 5)):
            v |= 1 << rng.randrange(256)
        sparse.append(v)
    rnd = [rng.randrange(1, N) for _ in range(30000 if big else 1200)]
    decs = [rng.randrange(10 ** 70, 10 ** 77) for _ in range(300 if big else 40)]     # decimal strings of 71..77 digits
    ok = lambda l: [d for d in dict.fromkeys(l) if 1 <= d < N]
    edge, pows, sparse, rnd, decs = ok(edge), ok(pows), ok(sparse), ok(rnd), ok(decs)
    good = edge + pows + sparse + rnd + decs
    bad = [0, N, N + 1, N + 2, 2 * N, 2 * N + 1, (1 << 256) - 1, 1 << 256, (1 << 256) + 1, 1 << 260, (1 << 264) + 5, -1, -2, -N,
           3 * N, N << 200, (1 << 512) - 1]
    for _ in range(300 if big else 30):
        bad.append(rng.randrange(N, 1 << 256))
    for d in bad:
        for fmt, arg in scalar_formats(d):
            import_cases(cs, fmt, arg, rng, nets_, kind='import_refused')
    # every format x entry x compressed flag on the edge values and a few of each group, a sample elsewhere
    # (one scalar multiplication in the extracted model costs ~8 ms)
    full = edge + pows[:6] + pows[-6:] + sparse[:3] + rnd[:(200 if big else 12)] + decs[:(40 if big else 4)]
    for d in full:
        for fmt, arg in scalar_formats(d):
            import_cases(cs, fmt, arg, rng, nets_, kind='import_private')
    for d in good:
        fmts = scalar_formats(d)
        for fmt, arg in (fmts if d in decs else rng.sample(fmts, 2)):
            cs.append(Case('import_private', 'import %s %s %s %s 1 %s' % (rng.choice(['Key', 'HDKey']) if not (fmt == 'bytes' and len(arg) == 128) else 'Key',
                                                                       fmt, arg, rng.choice('10'), rng.choice(nets_))))
    # ---- SPECIAL KEY MATERIAL on every import route: secrets whose last byte is 01 (the byte that doubles as the
    #      compression marker of the 33-byte / WIF forms), last bytes 0101 / 0100, first byte 00 / 01 / 80, leading zero
    #      bytes, 1, n-1, n-0x40 (= ..4101), values around 2^248; every binary / hexadecimal / integer format (model +
    #      oracle), WIF compressed / uncompressed on several networks and BIP38 compressed / uncompressed (oracle)
    def force01(v):
        return (v & ~0xff) | 1

    special = [1, 2, 0x0100, 0x0101, 0x010101, 0x01000001, N - 1, N - 2, N - 0x40, N - 0x4040,
               1 << 248, (1 << 248) - 1, (1 << 248) + 1, (1 << 248) - 0xff, (1 << 255) | 1, 1 << 255, (0x80 << 248) | 0x0100,
               int('01' * 32, 16), 0x0C28FCA386C7A227600B2FE50B7CAE11EC86D3BF1FBE471BE89827E19D72AA01, (1 << 240) | 1, (1 << 128) | 0x0101]
    for _ in range(40 if big else 6):
        v = rng.randrange(1, N)
        special += [force01(v), force01(v >> (8 * rng.randrange(1, 20))), (v & ((1 << 248) - 1)) | (rng.choice([0x80, 0x01, 0x02, 0x03, 0x04]) << 248) | 1]
    special = ok(special)
    for d in special:
        for fmt, arg in scalar_formats(d):
            import_cases(cs, fmt, arg, rng, nets_, kind='special_import')
    wnets = [n for n in NETS if not any(SN.deviates(n, f) for f in ('prefix_wif', 'prefix_address', 'prefix_address_p2sh', 'prefix_bech32'))]
    pwx = lambda pw: pw.encode('utf-8').hex()
    for d in special + edge + rnd[:(300 if big else 20)]:
        for comp in (True, False):
            for net in (['bitcoin'] + rng.sample(wnets, len(wnets) if big and d in special else 1)):
                for entry in ('Key', 'HDKey'):
                    cs.append(Case('route_wif', 'route %s wif %s %s %s -' % (entry, wif_encode(d, comp, SN.wif_prefix(net)), rng.choice('10'), net)))
    for d in (0, N, N + 1, (1 << 256) - 1, 2 * N if 2 * N < 1 << 256 else N + 2, (1 << 256) - 0xff):
        for comp in (True, False):
            for entry in ('Key', 'HDKey'):
                cs.append(Case('route_wif_refused', 'route %s wif %s 1 bitcoin -' % (entry, wif_encode(d, comp, SN.wif_prefix('bitcoin')))))
    # BIP38: the frozen corpus (scrypt: ~0.5 s per import); quick tier: 5 compressed rows whose secret ends in 01 + 4 others
    rows01 = [r for r in BIP38_ROWS if r['compressed'] and r['secret'].endswith('01')]
    rest = [r for r in BIP38_ROWS if r not in rows01]
    picked = BIP38_ROWS if big else rng.sample(rows01, 5) + rng.sample(rest, 4)
    for i, r in enumerate(picked):
        cs.append(Case('route_bip38', 'route Key bip38 %s %s bitcoin %s' % (r['encrypted'], rng.choice('10'), pwx(r['password']))))
        if big or i % 3 == 0:
            cs.append(Case('route_bip38', 'route HDKey bip38 %s %s bitcoin %s' % (r['encrypted'], rng.choice('10'), pwx(r['password']))))
        if big or i in (0, 5):
            # HDKey with its default witness type (proposed known class: every specification-conformant BIP38 text is refused)
            cs.append(Case('route_bip38', 'route HDKeyD bip38 %s %s bitcoin %s' % (r['encrypted'], rng.choice('10'), pwx(r['password']))))
    # addresses and key hashes of the special material through every binary / hexadecimal / integer format
    for d in special:
        for fmt, arg in scalar_formats(d):
            if fmt == 'hex' and len(arg) == 128:
                continue
            cs.append(Case('special_addr', 'addr %s %s %s %s %s %s %s %s' % (
                rng.choice(['Key', 'HDKey']), fmt, arg, rng.choice('10'), rng.choice(nets_), rng.choice(['N', 'N', '1', '0']),
                rng.choice(STS + ['N']), rng.choice(ENCS + ['N']))))
            cs.append(Case('special_addr', 'keyhash %s %s %s %s' % (rng.choice(['Key', 'HDKey']), fmt, arg, rng.choice('10'))))
    # wide hexadecimal form (known class): reduced modulo n by the implementation
    for _ in range(100 if big else 10):
        cs.append(Case('import_wide', 'import Key hex %s 1 1 bitcoin' % rng.randrange(N, 1 << 512).to_bytes(64, 'big').hex()))
    cs.append(Case('import_wide', 'import Key hex %s 1 1 bitcoin' % (5 * N).to_bytes(64, 'big').hex()))
    # ---- public encodings of the resulting points
    for i, d in enumerate(good[:(len(good) if big else 900)]):
        pt = ec_mul(d)
        encs = [('hex', ser_c(pt).hex()), ('bytes', ser_c(pt).hex()), ('hex', ser_u(pt).hex()), ('bytes', ser_u(pt).hex()),
                ('point', '%d,%d' % pt)]
        # the other parity byte is the negated point, still a key
        encs.append(('hex', bytes([ser_c(pt)[0] ^ 1]).hex() + ser_c(pt)[1:].hex()))
        if i >= 100 and not big:
            encs = rng.sample(encs, 2)
        for fmt, arg in encs:
            import_cases(cs, fmt, arg, rng, nets_, stricts=('1', '0') if i % 4 == 0 else ('1',), kind='import_public')
    # ---- malformed public keys
    offx = [x for x in range(0, 400 if big else 80) if lift(x, 0) is None]            # first is 5
    offx += [P - 1 - x for x in range(0, 40) if lift(P - 1 - x, 0) is None]
    while len(offx) < (3000 if big else 250):
        x = rng.randrange(P)
        if lift(x, 0) is None:
            offx.append(x)
    bigx = [P, P + 1, P + 2, P + 5, (1 << 256) - 1, (1 << 256) - 2] + [rng.randrange(P, 1 << 256) for _ in range(10)]
    for x in offx + bigx:
        for pfx in ('02', '03'):
            for fmt in ('hex', 'bytes'):
                import_cases(cs, fmt, pfx + '%064x' % x, rng, nets_, stricts=('1', '0') if x < 50 or x >= P else ('1',),
                             kind='import_offcurve')
    for d in good[:40] + [rng.randrange(1, N) for _ in range(200 if big else 30)]:
        x, y = ec_mul(d)
        ys = [y ^ 1, (y + 1) % P, (y * 2) % P, rng.randrange(P), 0]
        if y + P < 1 << 256:
            ys.append(y + P)
        for y2 in ys:
            if on_curve(x, y2):
                continue
            for fmt in ('hex', 'bytes'):
                import_cases(cs, fmt, '04' + '%064x%064x' % (x, y2), rng, nets_, stricts=('1', '0'), kind='import_offcurve')
            import_cases(cs, 'point', '%d,%d' % (x, y2), rng, nets_, stricts=('1', '0'), kind='import_offcurve')
        # wrong prefix for the length
        import_cases(cs, 'bytes', '04' + '%064x' % x, rng, nets_, stricts=('1', '0'), kind='import_offcurve')
        import_cases(cs, 'bytes', '02' + '%064x%064x' % (x, y), rng, nets_, stricts=('1', '0'), kind='import_offcurve')
        import_cases(cs, 'bytes', '03' + '%064x%064x' % (x, y), rng, nets_, stricts=('1', '0'), kind='import_offcurve')
    for arg in ('1,1', '0,0', '5,5', '-1,1', '1,-1', '%d,1' % (1 << 256), '1,%d' % (1 << 256), '%d,%d' % (P, 0),
                '%d,%d' % (GX + P, GY) if GX + P < 1 << 256 else '3,3', '%d,%d' % (GX, GY + 1)):
        import_cases(cs, 'point', arg, rng, nets_, stricts=('1', '0'), kind='import_offcurve')
    # inputs that name no key
    for fmt, arg in (('hex', '-'), ('bytes', '-'), ('bytes', '00' * 64), ('bytes', 'ab' * 128)):
        import_cases(cs, fmt, arg, rng, nets_, entries=('Key',), kind='import_empty')
    # ---- Key.hash160
    pool = full + rnd[-(400 if big else 40):]
    for d in pool:
        pt = ec_mul(d)
        for fmt, arg in (('int', str(d)), ('hex', ser_c(pt).hex()), ('bytes', ser_u(pt).hex())):
            cs.append(Case('keyhash', 'keyhash %s %s %s %s' % (rng.choice(['Key', 'HDKey']), fmt, arg, rng.choice('10'))))
    # ---- addresses: full grid on a few keys, sampled grid on a pool of keys
    grid_keys = [1, rnd[0]] + (rnd[1:12] + [N - 1] if big else [])
    for d in grid_keys:
        pt = ec_mul(d)
        for fmt, arg in (('int', str(d)), ('bytes', ser_u(pt).hex())):
            for entry in ('Key', 'HDKey'):
                for cp in ('1', '0'):
                    for net in nets_:
                        for carg in ('N', '1', '0'):
                            for st in STS + ['N']:
                                for enc in ENCS + ['N']:
                                    cs.append(Case('addr_grid', 'addr %s %s %s %s %s %s %s %s' % (entry, fmt, arg, cp, net, carg, st, enc)))
    for _ in range(60000 if big else 1500):
        d = rng.choice(pool)
        pt = ec_mul(d) if rng.random() < 0.3 else None
        if pt:
            fmt, arg = rng.choice([('hex', ser_c(pt).hex()), ('bytes', ser_u(pt).hex()), ('bytes', ser_c(pt).hex()),
                                   ('point', '%d,%d' % pt)])
        else:
            fmt, arg = ('int', str(d))
        cs.append(Case('addr_random', 'addr %s %s %s %s %s %s %s %s' % (
            rng.choice(['Key', 'HDKey']), fmt, arg, rng.choice('10'), rng.choice(nets_), rng.choice(['N', 'N', '1', '0']),
            rng.choice(STS + ['N', 'p2sh', 'p2sh_p2wsh']), rng.choice(ENCS + ['N']))))
    # ---- every network x script type x encoding at least once through every entry point, and against the extracted
    #      frozen specification table (stdaddr): a network row is never compared only with itself
    for net in NETS:
        for rep in range(4 if big else 1):
            d = rng.choice(pool) if rep else (1 if net in ('bitcoin', 'dogecoin') else rng.choice(pool))
            pt = ec_mul(d)
            for st in ALL_STS + ['N']:
                for enc in ENCS + ['N']:
                    for entry in ('Key', 'HDKey'):
                        cs.append(Case('net_grid_key', 'addr %s int %d 1 %s N %s %s' % (entry, d, net, st, enc)))
                    cs.append(Case('net_grid_key', 'addr Key hex %s 1 %s N %s %s' % (ser_u(pt).hex(), net, st, enc)))
                    cs.append(Case('net_grid_address', 'address %s %s %s 0 %s -' % (net, st, enc, ser_c(pt).hex())))
                    for ln in (20, 32):
                        h = bytes(rng.randrange(128, 256) for _ in range(ln))          # never reads as hexadecimal text
                        cs.append(Case('net_grid_hash', 'address %s %s %s %d - %s' % (net, st, enc, 1 if st == 'p2tr' else 0, hx(h))))
                    if (st, enc) in STANDARD and st != 'p2tr':
                        cs.append(Case('net_grid_frozen', 'stdaddr %s %s %s %s' % (net, st, enc, ser_c(pt).hex())))
                        if enc == 'base58' and st in ('p2pkh', 'p2sh', 'p2sh_p2wsh'):
                            cs.append(Case('net_grid_frozen', 'stdaddr %s %s %s %s' % (net, st, enc, ser_u(pt).hex())))
                            script = bytes([0x51 + rng.randrange(16)]) + bytes(rng.randrange(128, 256) for _ in range(rng.randrange(1, 70)))
                            cs.append(Case('net_grid_frozen', 'stdaddr %s %s %s %s' % (net, st, enc, script.hex())))
    # addresses of non-keys must not exist
    for fmt, arg in (('int', str(N)), ('hex', '00' * 32), ('hex', '02' + '%064x' % 5), ('bytes', '03' + '%064x' % 5),
                     ('hex', '04' + '%064x%064x' % (1, 1)), ('point', '1,1'), ('hex', '02' + '%064x' % (P + 1)), ('int', '0')):
        for entry in ('Key', 'HDKey'):
            for st, enc in (('N', 'N'), ('p2pkh', 'base58'), ('p2wpkh', 'bech32'), ('p2sh_p2wpkh', 'base58')):
                cs.append(Case('addr_nonkey', 'addr %s %s %s 1 %s N %s %s' % (entry, fmt, arg, rng.choice(nets_), st, enc)))
    # ---- Address(...) directly
    for _ in range(10000 if big else 400):
        pt = ec_mul(rng.choice(pool))
        data = rng.choice([ser_c(pt), ser_u(pt), bytes(rng.randrange(256) for _ in range(rng.choice([1, 22, 23, 34, 35, 71, 105])))])
        cs.append(Case('address_data', 'address %s %s %s %d %s -' % (
            rng.choice(nets_), rng.choice(STS + ['N', 'p2sh', 'p2sh_p2wsh', 'p2sh_multisig']), rng.choice(ENCS + ['N']),
            rng.choice([0, 0, 0, 1, 2, 16, 17]), hx(data))))
    for net in nets_:
        for st in STS + ['N', 'p2sh', 'p2sh_p2wsh']:
            for enc in ENCS + ['N']:
                for ln in (20, 32):
                    h = bytes(rng.randrange(256) for _ in range(ln))
                    for wv in ((0, 1) if big or net == 'bitcoin' else (0,)):
                        cs.append(Case('address_hash', 'address %s %s %s %d - %s' % (net, st, enc, wv, hx(h))))
    # hashes that read as hexadecimal text (known class)
    for h in (b'a' * 20, b'0123456789abcdefABCD', b'1' * 32, b' ' + b'12' * 9 + b' ', b' ' * 20, b'\t' * 12 + b'cafebabe'):
        for st, enc in (('p2pkh', 'base58'), ('p2wpkh', 'bech32'), ('p2wsh', 'bech32'), ('p2tr', 'bech32'), ('p2sh', 'base58')):
            cs.append(Case('address_hexlike', 'address bitcoin %s %s 0 - %s' % (st, enc, hx(h))))
    cs.append(Case('address_empty', 'address bitcoin p2pkh base58 0 - -'))
    # ---- ARGUMENT COMBINATIONS: every way the arguments of Address(...) / Key.address / HDKey.address / Address.parse can
    #      name an address form (witness_type without script_type, script_type without witness_type, encoding alone,
    #      contradicting pairs, explicit prefix, witver, compressed, str / bytes / positional data, hashed_data)
    WTS = [None, 'legacy', 'segwit', 'p2sh-segwit', 'taproot']

    def kws(**kw):
        return ','.join('%s=%s' % (k, v) for k, v in kw.items() if v is not None) or '-'

    xkeys = [1, rnd[1]] + ([N - 1] + rnd[2:6] if big else [])
    for net in NETS + ['N']:
        for d in xkeys if net in ('bitcoin', 'N') or big else [rng.choice(pool)]:
            pt = ec_mul(d)
            for st in [None] + ALL_STS:
                for enc in [None] + ENCS:
                    for wt in WTS:
                        cs.append(Case('argcombo_address', 'addrx A %s %s %s' % (net, ser_c(pt).hex(), kws(st=st, enc=enc, wt=wt))))
    for _ in range(20000 if big else 900):
        pt = ec_mul(rng.choice(pool))
        st, enc, wt = rng.choice([None] + ALL_STS), rng.choice([None] + ENCS), rng.choice(WTS)
        dn = denote(st, enc, wt)
        kw = dict(st=st, enc=enc, wt=wt)
        r = rng.random()
        if r < 0.3 and dn:
            if dn[1] == 'base58':
                kw[rng.choice(['pfx', 'pfxh'])] = rng.choice(['00', '05', '6f', 'c4', '30', '1e', '16', rng.randbytes(1).hex(), '1cb8'])
            else:
                kw['pfxs'] = rng.choice(['bc', 'tb', 'ltc', 'bcrt', 'xy', 'doge'])
        if rng.random() < 0.3:
            kw['comp'] = rng.choice('10')
        if rng.random() < 0.15:
            kw['witver'] = rng.choice([0, 0, 1, 2])
        net = rng.choice(NETS + ['N'])
        if rng.random() < 0.3:
            ln = 32 if dn and dn[0] in ('p2wsh', 'p2sh_p2wsh', 'p2tr') else 20
            data = bytes(rng.randrange(128, 256) for _ in range(ln))
            kw['hd'] = 1
            if dn and dn[0] == 'p2tr':
                kw['witver'] = rng.choice([0, 1])
        else:
            data = rng.choice([ser_c(pt), ser_c(pt), ser_u(pt)])
            kw[rng.choice(['form', 'pos'])] = rng.choice(['hex', '1']) if rng.random() < 0.5 else None
            if kw.get('pos') == 'hex':
                kw['pos'] = '1'
            if kw.get('form') == '1':
                kw['form'] = 'hex'
        cs.append(Case('argcombo_address', 'addrx A %s %s %s' % (net, data.hex(), kws(**kw))))
    KSTS = [None, 'p2pkh', 'p2sh_p2wpkh', 'p2wpkh', 'p2sh', 'p2wsh', 'p2sh_p2wsh']
    HWTS = ['N', 'legacy', 'segwit', 'p2sh-segwit']
    for net in NETS:
        d = rng.choice(pool)
        for wt in HWTS:
            for cp in '10':
                for m in (None, 'u', 'o'):
                    cs.append(Case('argcombo_key', 'addrx H %s %d %s %s %s' % (net, d, cp, wt, kws(m=m))))
                    if wt == 'N':
                        cs.append(Case('argcombo_key', 'addrx K %s %d %s N %s' % (net, d, cp, kws(m=m))))
    for _ in range(20000 if big else 900):
        d = rng.choice(pool)
        kw = dict(st=rng.choice(KSTS), enc=rng.choice([None] + ENCS), comp=rng.choice([None, None, '1', '0']),
                  m=rng.choice([None, None, None, 'u']))
        if rng.random() < 0.25:
            if kw['enc'] == 'bech32':
                kw['pfxs'] = rng.choice(['bc', 'tb', 'ltc', 'xy'])
            else:
                kw[rng.choice(['pfx', 'pfxh'])] = rng.choice(['00', '05', '6f', 'c4', '30', '1e', rng.randbytes(1).hex()])
        if rng.random() < 0.5:
            cs.append(Case('argcombo_key', 'addrx K %s %d %s N %s' % (rng.choice(NETS), d, rng.choice('10'), kws(**kw))))
        else:
            cs.append(Case('argcombo_key', 'addrx H %s %d %s %s %s' % (rng.choice(NETS), d, rng.choice('110'), rng.choice(HWTS), kws(**kw))))
    for net in NETS:
        if SN.deviates(net, 'prefix_address') or SN.deviates(net, 'prefix_address_p2sh'):
            continue
        for rep in range(3 if big else 1):
            pt = ec_mul(rng.choice(pool))
            for st, enc in sorted(STANDARD):
                a = std_address(net, st, enc, ser_c(pt))
                if a:
                    for narg in (net, 'N'):
                        cs.append(Case('argcombo_parse', 'addrx P %s %s %s' % (a, narg, rng.choice(['N', 'N', enc]))))
    # ---- HISTORIES on one key object: address() / address_uncompressed() / hash160 / public_* reads interleaved with
    #      network_change, other argument sets, explicit compressed arguments, repeated calls
    def rand_call(entry):
        kw = dict(st=rng.choice(KSTS[:4] + [None, None]), enc=rng.choice([None, None] + ENCS), comp=rng.choice([None, None, None, '1', '0']))
        if kw['enc'] == 'base58' and rng.random() < 0.2:
            kw['pfxh'] = rng.choice(['00', '05', '6f', '30'])
        return kws(**kw)

    FULL = ['st=p2pkh,enc=base58', 'st=p2sh_p2wpkh,enc=base58', 'st=p2wpkh,enc=bech32', 'st=p2wsh,enc=bech32', 'st=p2sh,enc=base58', '-']
    snets = [n for n in NETS]
    for net in snets:
        for net2 in (snets if big else rng.sample(snets, 4)):
            if net2 == net:
                continue
            for wt in HWTS:
                call = rng.choice(FULL)
                cs.append(Case('history_network', 'sess HDKey %d %s %s %s a:%s n:%s a:%s h pc' % (
                    rng.choice(pool), rng.choice('110'), net, wt, call, net2, call)))
            call = rng.choice(FULL[:5])
            cs.append(Case('history_network', 'sess Key %d %s %s N a:%s n:%s a:%s' % (rng.choice(pool), rng.choice('110'), net, call, net2, call)))
    for _ in range(6000 if big else 350):
        entry = rng.choice(['HDKey', 'HDKey', 'Key'])
        wt = rng.choice(HWTS) if entry == 'HDKey' else 'N'
        steps = []
        for _ in range(rng.randrange(2, 9)):
            r = rng.random()
            if r < 0.4:
                steps.append('a:' + (rand_call(entry) if rng.random() < 0.6 else rng.choice(FULL)))
            elif r < 0.5:
                steps.append('u:' + rng.choice(['-', 'st=p2pkh,enc=base58', 'st=p2sh,enc=base58', 'enc=base58']))
            elif r < 0.7:
                steps.append('n:' + rng.choice(snets))
            elif r < 0.75:
                steps.append('pp:' + rng.choice(FULL))
            elif r < 0.78 and not steps:
                steps.append('o')
            else:
                steps.append(rng.choice(['h', 'pc', 'pu', 'ph', 'pb']))
        cs.append(Case('history_random', 'sess %s %d %s %s %s %s' % (entry, rng.choice(pool), rng.choice('110'), rng.choice(snets), wt, ' '.join(steps))))
    # explicit prefix equal to the prefix of the object's previous address (bytes / hrp text): proposed known class
    for net, pf, hrp in (('bitcoin', '00', 'bc'), ('testnet', '6f', 'tb'), ('litecoin', '30', 'ltc')):
        d = rng.choice(pool)
        cs.append(Case('history_prefix', 'sess Key %d 1 %s N a:st=p2pkh,enc=base58 a:st=p2pkh,enc=base58,comp=0,pfx=%s' % (d, net, pf)))
        cs.append(Case('history_prefix', 'sess HDKey %d 1 %s legacy a:st=p2pkh,enc=base58 n:dogecoin a:st=p2pkh,enc=base58,comp=0,pfx=%s h' % (d, net, pf)))
        cs.append(Case('history_prefix', 'sess HDKey %d 1 %s segwit a:- a:st=p2wsh,enc=bech32,pfxs=%s' % (d, net, hrp)))
    # an explicit prefix made of ASCII white space (reads as hexadecimal text in to_bytes(): the version byte is dropped): proposed
    # known class prefix_ascii_hex; the random prefix byte of the argument-combination streams above draws it now and then
    cs.append(Case('argcombo_prefix_ws', 'addrx A signet c7ec8eab8e9fc683cde0dae6aec0ceea88a08fcd st=p2pkh,pfx=09,comp=0,hd=1'))
    cs.append(Case('argcombo_prefix_ws', 'addrx A bitcoin %s st=p2sh,enc=base58,pfxh=20' % ser_c(ec_mul(5)).hex()))
    cs.append(Case('argcombo_prefix_ws', 'addrx K bitcoin 5 1 N st=p2pkh,enc=base58,pfx=0a'))
    cs.append(Case('argcombo_prefix_ws', 'addrx H litecoin 5 1 legacy st=p2pkh,enc=base58,pfxh=0d'))
    # a class PROPOSED as known (fixes/C04-known-*.json) is exercised only once it is recorded (known_findings.json or
    # VERIF_EXTRA_KNOWN); until then its requests are left out so that the unchanged tree stays green
    recorded = {e.get('class') or e.get('id') for e in core.load_known(PROP) if e.get('status') == 'known'}
    cs = [c for c in cs if _cls(c) not in PROPOSED_CLASSES or _cls(c) in recorded]
    # ---- mod_sqrt
    for a in list(range(0, 200)) + [P - 1, P, P + 1, P + 4] + [rng.randrange(1 << 256) for _ in range(5000 if big else 500)]:
        cs.append(Case('modsqrt', 'modsqrt %d' % a))
    return cs


# ---------------------------------------------------------------- flow
def main(tier, seed, replay):
    """standard flow.  One refinement: when networks.json of the tree under test differs from the frozen specification, the
    proof obligation network_table_is_spec breaks and core would widen the search to the thorough tier (~45 min here) although
    the net_grid_* / addr_grid / address_hash streams of the requested tier already reach every network x script type x
    encoding; the requested tier is kept in that case and the differing (network, field) pairs are put into the notes.
    The comparison below is a DIAGNOSTIC read of the tree (it selects the search effort and words a note); no oracle uses it."""
    import sys, types
    mod = sys.modules[__name__]
    try:
        diff = SN.diff_repo(core.REPO)
    except Exception as ex:           # unreadable / malformed table: let the standard flow deal with it
        diff = []
    if not diff:
        return core.standard_check(mod, tier, seed, replay)
    proxy = types.SimpleNamespace(**{k: getattr(mod, k) for k in dir(mod) if not k.startswith('__') and k != 'main'})
    proxy.gen_cases = lambda rng, t: gen_cases(rng, tier)
    what = '; '.join('%s.%s = %s (frozen specification: %s)' % (n, f, json.dumps(g)[:80], json.dumps(w)[:80]) for n, f, g, w in diff[:8])
    proxy.ASSUMPTIONS = ASSUMPTIONS + ['THIS RUN: bitcoinlib/data/networks.json differs from the frozen specification table in ' + what]
    print('note: networks.json differs from the frozen specification: ' + what, flush=True)
    return core.standard_check(proxy, tier, seed, replay)
