"""CRYPTO — selftest of the shared executable crypto foundation (coq/Crypto/*.v).

Not one of the repository's properties: it validates the Gallina transcriptions every other model imports
(SHA-256/512, RIPEMD-160, HMAC, PBKDF2-HMAC-SHA512, affine secp256k1, ECDSA, RFC 6979) by running the extracted
code against hashlib / hmac / fastecdsa on the same request lines, plus published test vectors and a small
pure-Python curve implementation as a third opinion (prop_check).  Run: ./check CRYPTO --tier quick
"""
import hashlib, hmac as pyhmac
from core import Case

PROP = 'CRYPTO'
COQ_FILES = ['Extract/Crypto.v', 'Properties/Crypto.v']
DRIVER = 'crypto'
IMPL = 'harness/impl/crypto_impl.py'
ALLOWED_AXIOMS = []
ASSUMPTIONS = [
    'theorems of Properties/Crypto.v are output-length and constant facts only; that the Gallina hash functions '
    'equal FIPS 180-4 / RIPEMD-160 / RFC 2104 / RFC 8018 / RFC 6979 is validated differentially, not proved',
    'the group law of the affine secp256k1 instance and primality of p and n are not proved',
    'reference answers: hashlib, hmac (OpenSSL) and fastecdsa (C/GMP); encodings with coordinates >= p are rejected '
    'by the adapter (SEC 1) where fastecdsa reduces them silently',
]
RULE = ('published vectors (NIST, RFC 4231, RFC 6070-style PBKDF2-SHA512, BIP39 seed, RFC 6979 secp256k1), every message '
        'length 0..300 per hash, seeded random messages, HMAC keys shorter/equal/longer than the block, scalar '
        'multiples at the boundaries of the group order and every power of two, valid and invalid encodings; '
        'non-trivial = the reference returns a value; distinct by request')

P = 0xFFFFFFFFFFFFFFFFFFFFFFFFFFFFFFFFFFFFFFFFFFFFFFFFFFFFFFFEFFFFFC2F
N = 0xFFFFFFFFFFFFFFFFFFFFFFFFFFFFFFFEBAAEDCE6AF48A03BBFD25E8CD0364141
GX = 0x79BE667EF9DCBBAC55A06295CE870B07029BFCDB2DCE28D959F2815B16F81798
GY = 0x483ADA7726A3C4655DA4FBFC0E1108A8FD17B448A68554199C47D08FFB10D4B8
G = (GX, GY)


# ---------------------------------------------------------------- third opinion: pure-Python affine curve
def ec_add(a, b):
    if a is None:
        return b
    if b is None:
        return a
    if a[0] == b[0]:
        if (a[1] + b[1]) % P == 0:
            return None
        l = 3 * a[0] * a[0] * pow(2 * a[1], -1, P) % P
    else:
        l = (b[1] - a[1]) * pow(b[0] - a[0], -1, P) % P
    x = (l * l - a[0] - b[0]) % P
    return x, (l * (a[0] - x) - a[1]) % P


def ec_mul(k, a):
    if k < 0:
        r = ec_mul(-k, a)
        return None if r is None else (r[0], -r[1] % P)
    r = None
    while k:
        if k & 1:
            r = ec_add(r, a)
        a = ec_add(a, a)
        k >>= 1
    return r


def tok(p):
    return 'inf' if p is None else '%d,%d' % p


def lift_x(x, odd):
    if not 0 <= x < P:
        return None
    a = (pow(x, 3, P) + 7) % P
    y = pow(a, (P + 1) // 4, P)
    if y * y % P != a:
        return None
    return x, (y if (y & 1) == odd else P - y)


def hx(b):
    return b.hex() if b else '-'


# ---------------------------------------------------------------- published vectors
A56 = b'abcdbcdecdefdefgefghfghighijhijkijkljklmklmnlmnomnopnopq'
A112 = (b'abcdefghbcdefghicdefghijdefghijkefghijklfghijklmghijklmnhijklmnoijklmnopjklmnopqklmnopqrlmnopqrs'
        b'mnopqrstnopqrstu')
HASH_VECTORS = [
    ('sha256', b'', 'e3b0c44298fc1c149afbf4c8996fb92427ae41e4649b934ca495991b7852b855'),
    ('sha256', b'abc', 'ba7816bf8f01cfea414140de5dae2223b00361a396177a9cb410ff61f20015ad'),
    ('sha256', A56, '248d6a61d20638b8e5c026930c3e6039a33ce45964ff2167f6ecedd419db06c1'),
    ('sha256', A112, 'cf5b16a778af8380036ce59e7b0492370b249b11e8f07a51afac45037afee9d1'),
    ('sha512', b'', 'cf83e1357eefb8bdf1542850d66d8007d620e4050b5715dc83f4a921d36ce9ce'
                    '47d0d13c5d85f2b0ff8318d2877eec2f63b931bd47417a81a538327af927da3e'),
    ('sha512', b'abc', 'ddaf35a193617abacc417349ae20413112e6fa4e89a97ea20a9eeee64b55d39a'
                       '2192992a274fc1a836ba3c23a3feebbd454d4423643ce80e2a9ac94fa54ca49f'),
    ('sha512', A112, '8e959b75dae313da8cf4f72814fc143f8f7779c6eb9f7fa17299aeadb6889018'
                      '501d289e4900f7e4331b99dec4b5433ac7d329eeb6dd26545e96e55b874be909'),
    ('ripemd160', b'', '9c1185a5c5e9fc54612808977ee8f548b2258d31'),
    ('ripemd160', b'a', '0bdc9d2d256b3ee9daae347be6f4dc835a467ffe'),
    ('ripemd160', b'abc', '8eb208f7e05d987a9b044a8e98c6b087f15a0bfc'),
    ('ripemd160', b'message digest', '5d0689ef49d2fae572b881b123a85ffa21595f36'),
    ('ripemd160', b'abcdefghijklmnopqrstuvwxyz', 'f71c27109c692c1b56bbdceb5b9d2865b3708dbc'),
    ('ripemd160', A56, '12a053384a9c0c88e405a06c27dcf49ada62eb2b'),
    ('ripemd160', b'ABCDEFGHIJKLMNOPQRSTUVWXYZabcdefghijklmnopqrstuvwxyz0123456789',
     'b0e20b6e3116640286ed3a87a5713079b21f5189'),
    ('ripemd160', b'1234567890' * 8, '9b752e45573d4b39f4dbd3323cab82bf63326bfb'),
    # hash160 of the compressed generator = the well-known address 1BgGZ9tcN4rm9KBzDn7KprQz87SZ26SAMH
    ('hash160', bytes.fromhex('0279be667ef9dcbbac55a06295ce870b07029bfcdb2dce28d959f2815b16f81798'),
     '751e76e8199196d454941c45d1b3a323f1433bd6'),
]
MILLION_A = [
    ('sha256', 'cdc76e5c9914fb9281a1c7e284d73e67f1809a48a497200e046d39ccc7112cd0'),
    ('sha512', 'e718483d0ce769644e2e42c7bc15b4638e1f98b13b2044285632a803afa973eb'
               'de0ff244877ea60a4cb0432ce577c31beb009c5c2c49aa2e4eadb217ad8cc09b'),
    ('ripemd160', '52783243c1697bdbe16d37f97f68f08325dc1528'),
]
HMAC_VECTORS = [  # RFC 4231 test cases 1, 2, 3, 6 (key longer than the SHA-256 block), 7
    (b'\x0b' * 20, b'Hi There',
     'b0344c61d8db38535ca8afceaf0bf12b881dc200c9833da726e9376c2e32cff7',
     '87aa7cdea5ef619d4ff0b4241a1d6cb02379f4e2ce4ec2787ad0b30545e17cde'
     'daa833b7d6b8a702038b274eaea3f4e4be9d914eeb61f1702e696c203a126854'),
    (b'Jefe', b'what do ya want for nothing?',
     '5bdcc146bf60754e6a042426089575c75a003f089d2739839dec58b964ec3843',
     '164b7a7bfcf819e2e395fbe73b56e0a387bd64222e831fd610270cd7ea250554'
     '9758bf75c05a994a6d034f65f8f0e6fdcaeab1a34d4a6b4b636e070a38bce737'),
    (b'\xaa' * 20, b'\xdd' * 50,
     '773ea91e36800e46854db8ebd09181a72959098b3ef8c122d9635514ced565fe',
     'fa73b0089d56a284efb0f0756c890be9b1b5dbdd8ee81a3655f83e33b2279d39'
     'bf3e848279a722c806b485a47e67c807b946a337bee8942674278859e13292fb'),
    (b'\xaa' * 131, b'Test Using Larger Than Block-Size Key - Hash Key First',
     '60e431591ee0b67f0d8a26aacbf5b77f8e0bc6213728c5140546040f0ee37f54',
     '80b24263c7c1a3ebb71493c1dd7be8b49b46d1f41b4aeec1121b013783f8f352'
     '6b56d037e05f2598bd0fd2215d6a1e5295e64f73f63f0aec8b915a985d786598'),
]
PBKDF2_VECTORS = [
    (b'password', b'salt', 1, 64,
     '867f70cf1ade02cff3752599a3a53dc4af34c7a669815ae5d513554e1c8cf252'
     'c02d470a285a0501bad999bfe943c08f050235d7d68b1da55e63f73b60a57fce'),
    (b'password', b'salt', 2, 64,
     'e1d9c16aa681708a45f5c7c4e215ceb66e011a2e9f0040713f18aefdb866d53c'
     'f76cab2868a39b9f7840edce4fef5a82be67335c77a6068e04112754f27ccf4e'),
    # BIP39 reference vector: "abandon x11 about", passphrase TREZOR
    (b'abandon abandon abandon abandon abandon abandon abandon abandon abandon abandon abandon about',
     b'mnemonicTREZOR', 2048, 64,
     'c55257c360c07c72029aebc1b53c05ed0362ada38ead3e3e9efa3708e53495531f09a6987599d18264c1e1c92f2cf141'
     '630c7a3c4ab7c81b2f001698e7463b04'),
]
RFC6979_VECTORS = [  # (private key, message hashed with SHA-256, nonce) — the customary secp256k1 vectors
    (1, b'Satoshi Nakamoto', 0x8F8A276C19F4149656B280621E358CCE24F5F52542772691EE69063B74F15D15),
    (1, b'All those moments will be lost in time, like tears in rain. Time to die...',
     0x38AA22D72376B4DBC472E06C3BA403EE0A394DA63FC58D88686C611ABA98D6B3),
    (N - 1, b'Satoshi Nakamoto', 0x33A19B60E25FB6F4435AF53A3D42D493644827367E6453928554F43E49AA6F90),
    (0xf8b8af8ce3c7cca5e300d33939540c10d45ce001b8f252bfbc57ba0342904181, b'Alan Turing',
     0x525A82B70E67874398067543FD84C83D30C175FDC45FDEEE082FE13B1D7CFDF1),
    (0xe91671c46231f833a6406ccbea0e3e392c76c167bac1cb013f6f1013980455c2,
     b"There is a computer disease that anybody who works with computers knows about. It's a very serious "
     b"disease and it interferes completely with the work. The trouble with computers is that you 'play' "
     b"with them!", 0x1F4B84C23A86A221D233F2521BE018D9318639D5B8BBD6374A8A59232D16AD3D),
]


# ---------------------------------------------------------------- generators
def rbytes(rng, n):
    return bytes(rng.getrandbits(8) for _ in range(n))


def rscalar(rng):
    m = rng.randrange(6)
    if m == 0:
        return rng.randrange(1, 1 << rng.randrange(1, 257)) % N or 1
    if m == 1:
        return N - rng.randrange(1, 1 << rng.randrange(1, 129))
    return rng.randrange(1, N)


def gen_cases(rng, tier):
    big = tier == 'thorough'
    cs = []

    def add(kind, req, expect=None):
        cs.append(Case(kind, req, meta=expect))

    add('consts', 'consts', '%d %d %d,%d' % (P, N, GX, GY))

    # ---- hashes
    for name, msg, dig in HASH_VECTORS:
        add(name + '_vec', '%s %s' % (name, hx(msg)), dig)
    if big:
        for name, dig in MILLION_A:
            add(name + '_vec', '%s %s' % (name, (b'a' * 1000000).hex()), dig)
    hashes = ['sha256', 'sha512', 'ripemd160', 'hash160', 'sha256d', 'sha256n', 'sha512z', 'ripemd160z']
    for name in hashes:
        for n in range(0, 301):
            if name in ('sha512z', 'ripemd160z') and n > 140 and n % 5:      # slow reference variants
                continue
            add(name + '_len', '%s %s' % (name, hx(bytes((n * 7 + i) & 0xff for i in range(n)))))
    nrand = 20000 if big else 2000
    for i in range(nrand):
        name = ('sha256', 'sha512', 'ripemd160')[i % 3]
        m = rng.randrange(8)
        n = rng.randrange(0, 64) if m < 3 else rng.randrange(0, 300) if m < 7 else rng.randrange(300, 1500)
        add(name + '_rand', '%s %s' % (name, hx(rbytes(rng, n))))
    for i in range(nrand // 5):
        name = ('hash160', 'sha256d', 'sha256n', 'sha512z', 'ripemd160z')[i % 5]
        add(name + '_rand', '%s %s' % (name, hx(rbytes(rng, rng.randrange(0, 200)))))
    # structured: all-zero / all-ff messages around the padding boundaries
    for name, blk, lb in (('sha256', 64, 8), ('ripemd160', 64, 8), ('sha512', 128, 16)):
        for mult in (1, 2, 3, 4):
            for d in range(-lb - 2, 3):
                n = mult * blk + d
                add(name + '_pad', '%s %s' % (name, hx(b'\x00' * n)))
                add(name + '_pad', '%s %s' % (name, hx(b'\xff' * n)))

    # ---- HMAC
    for key, msg, d256, d512 in HMAC_VECTORS:
        add('hmac256_vec', 'hmac256 %s %s' % (hx(key), hx(msg)), d256)
        add('hmac512_vec', 'hmac512 %s %s' % (hx(key), hx(msg)), d512)
    for name, blk in (('hmac256', 64), ('hmac512', 128)):
        for kl in [0, 1, 16, 32, blk - 1, blk, blk + 1, blk + 2, 2 * blk, 2 * blk + 7, 300]:
            for ml in (0, 1, 37, blk - 1, blk, blk + 1, 200):
                add(name + '_keylen', '%s %s %s' % (name, hx(rbytes(rng, kl)), hx(rbytes(rng, ml))))
        for _ in range(2000 if big else 150):
            add(name + '_rand', '%s %s %s' % (name, hx(rbytes(rng, rng.randrange(0, 200))),
                                             hx(rbytes(rng, rng.randrange(0, 300)))))

    # ---- PBKDF2-HMAC-SHA512
    for pw, salt, it, dk, out in PBKDF2_VECTORS:
        add('pbkdf2_vec', 'pbkdf2 %s %s %d %d' % (hx(pw), hx(salt), it, dk), out)
    for it in (1, 2, 3, 10):
        for dk in (1, 20, 63, 64, 65, 128, 150):
            add('pbkdf2_small', 'pbkdf2 %s %s %d %d' % (hx(rbytes(rng, rng.randrange(0, 150))),
                                                         hx(rbytes(rng, rng.randrange(0, 150))), it, dk))
    for _ in range(10 if big else 1):
        add('pbkdf2_2048', 'pbkdf2 %s %s 2048 64' % (hx(rbytes(rng, rng.randrange(1, 160))),
                                                      hx(b'mnemonic' + rbytes(rng, rng.randrange(0, 20)))))

    # ---- modular arithmetic
    for m in (P, N):
        for a in [0, 1, 2, m - 1, m, m + 1, -1, -m - 5, 2 * m + 3] + [rng.randrange(1 << 300) for _ in range(60)]:
            add('invmod', 'invmod %d %d' % (a, m), str(pow(a, -1, m)) if a % m else '0')
            add('invmodf', 'invmodf %d %d' % (a, m))
        for _ in range(40):
            b, e = rng.randrange(-(1 << 260), 1 << 260), rng.randrange(0, 1 << rng.randrange(1, 300))
            add('powmod', 'powmod %d %d %d' % (b, e, m), str(pow(b, e, m)))
        for e in (0, 1, 2):
            add('powmod', 'powmod %d %d %d' % (m - 1, e, m), str(pow(m - 1, e, m)))
    for a in list(range(0, 40)) + [P - 1, P - 2] + [rng.randrange(P) for _ in range(200)]:
        add('sqrt', 'sqrt %d' % a)

    # ---- scalar multiplication
    ks = [0, 1, 2, 3, 4, 5, N - 1, N - 2, N - 3, N, N + 1, N + 2, 2 * N - 1, 2 * N, -1, -2, -(N - 1), (N - 1) // 2,
          (N + 1) // 2, 1 << 256, (1 << 256) - 1]
    for i in range(0, 257):
        ks += [1 << i, (1 << i) - 1, (1 << i) + 1]
    ks += [rscalar(rng) for _ in range(3000 if big else 300)]
    for k in ks:
        add('mulG', 'mulG %d' % k, tok(ec_mul(k, G)))
    pts = [G] + [ec_mul(rscalar(rng), G) for _ in range(40)]
    for _ in range(2000 if big else 200):
        p = rng.choice(pts)
        k = rng.choice([rscalar(rng), rng.randrange(-5, 6), N + rng.randrange(-3, 4), -rscalar(rng)])
        add('mul', 'mul %d %s' % (k, tok(p)), tok(ec_mul(k, p)))
    add('mul', 'mul 7 inf', 'inf')
    add('mul', 'mul %d %s' % (N, tok(pts[3])), 'inf')

    # ---- addition / doubling / negation
    for _ in range(2000 if big else 300):
        a, b = rng.choice(pts), rng.choice(pts)
        add('add', 'add %s %s' % (tok(a), tok(b)), tok(ec_add(a, b)))
    for a in pts:
        na = (a[0], -a[1] % P)
        add('add', 'add %s %s' % (tok(a), tok(a)), tok(ec_add(a, a)))
        add('add', 'add %s %s' % (tok(a), tok(na)), 'inf')
        add('add', 'add inf %s' % tok(a), tok(a))
        add('add', 'add %s inf' % tok(a), tok(a))
        add('double', 'double %s' % tok(a), tok(ec_add(a, a)))
        add('neg', 'neg %s' % tok(a), tok(na))
    add('add', 'add inf inf', 'inf')
    add('double', 'double inf', 'inf')
    add('neg', 'neg inf', 'inf')

    # ---- membership, (de)compression, encodings
    for a in pts:
        add('oncurve', 'oncurve %s' % tok(a), '1')
        add('oncurve', 'oncurve %d,%d' % (a[0], (a[1] + 1) % P), '0')
        add('oncurve', 'oncurve %d,%d' % ((a[0] + 1) % P, a[1]), '1' if lift_x((a[0] + 1) % P, a[1] & 1) == ((a[0] + 1) % P, a[1]) else '0')
        if a[0] + P < 1 << 256:
            add('oncurve', 'oncurve %d,%d' % (a[0] + P, a[1]), '0')
        add('oncurve', 'oncurve %d,%d' % (a[0], a[1] + P), '0')
        add('oncurve', 'oncurve %d,%d' % (a[0], a[1] - P), '0')
        add('compress', 'compress %s' % tok(a), '%d %d' % (a[1] & 1, a[0]))
        c = bytes([2 + (a[1] & 1)]) + a[0].to_bytes(32, 'big')
        u = b'\x04' + a[0].to_bytes(32, 'big') + a[1].to_bytes(32, 'big')
        add('serc', 'serc %s' % tok(a), c.hex())
        add('seru', 'seru %s' % tok(a), u.hex())
        add('parse', 'parse ' + c.hex(), tok(a))
        add('parse', 'parse ' + u.hex(), tok(a))
        add('parse_bad', 'parse ' + (bytes([c[0] ^ 1]) + c[1:]).hex(), tok((a[0], P - a[1])))
        add('parse_bad', 'parse ' + (bytes([rng.choice([0, 1, 5, 6, 7, 0x80, 0xff])]) + c[1:]).hex(), 'ERR')
        add('parse_bad', 'parse ' + c[:-1].hex(), 'ERR')
        add('parse_bad', 'parse ' + (c + b'\x00').hex(), 'ERR')
        add('parse_bad', 'parse ' + u[:-1].hex(), 'ERR')
        add('parse_bad', 'parse ' + (u + b'\x00').hex(), 'ERR')
        add('parse_bad', 'parse ' + (u[:-1] + bytes([u[-1] ^ 1])).hex(), 'ERR')
        add('parse_bad', 'parse ' + (b'\x04' + c[1:]).hex(), 'ERR')
        add('parse_bad', 'parse ' + (bytes([6 + (a[1] & 1)]) + u[1:]).hex(), 'ERR')
    add('parse_bad', 'parse -', 'ERR')
    add('parse_bad', 'parse 00', 'ERR')
    add('parse_bad', 'parse 02' + (P + 1).to_bytes(32, 'big').hex(), 'ERR')      # x = p + 1 is not a field element
    add('parse_bad', 'parse 03' + 'ff' * 32, 'ERR')
    add('parse_bad', 'parse 04' + (P + 1).to_bytes(32, 'big').hex() + lift_x(1, 0)[1].to_bytes(32, 'big').hex(), 'ERR')
    add('compress', 'compress inf', 'ERR')
    add('serc', 'serc inf', '00')
    add('seru', 'seru inf', '00')
    xs = list(range(0, 80)) + [P - 3, P - 2, P - 1, P, P + 1, P + 2, (1 << 256) - 1, 1 << 256, -1]
    xs += [rng.randrange(P) for _ in range(2000 if big else 200)] + [a[0] for a in pts]
    for x in xs:
        for par in (0, 1):
            add('decompress', 'decompress %d %d' % (par, x), (tok(lift_x(x, par)) if lift_x(x, par) else 'ERR'))

    # ---- ECDSA with explicit nonce, verification
    def py_sign(d, z, k):
        r = ec_mul(k, G)[0] % N
        s = pow(k, -1, N) * (z + r * d) % N
        return r, s

    trip = [(1, 0, 1), (N - 1, (1 << 256) - 1, N - 1), (1, 1, N - 1), (N - 1, 0, 1), (2, N, 3), (3, N + 1, N - 2)]
    trip += [(rscalar(rng), rng.getrandbits(256), rscalar(rng)) for _ in range(1500 if big else 150)]
    for d, z, k in trip:
        r, s = py_sign(d, z, k)
        add('sign', 'sign %d %d %d' % (d, z, k), '%d %d' % (r, s) if r and s else 'ERR')
        if not (r and s):
            continue
        q = ec_mul(d, G)
        add('verify_ok', 'verify %d %d %d %s' % (z, r, s, tok(q)), '1')
        add('verify_ok', 'verify %d %d %d %s' % (z, r, N - s, tok(q)), '1')           # the malleable twin
        add('lows', 'lows %d' % s, str(min(s, N - s)))
        which = rng.randrange(8)
        bad = [(z + 1, r, s, q), (z, (r + 1) % N, s, q), (z, r, (s + 1) % N, q), (z, r, s, ec_mul(d + 1, G)),
               (z, 0, s, q), (z, r, 0, q), (z, r + N, s, q), (z, r, s + N, q)][which]
        add('verify_bad', 'verify %d %d %d %s' % (bad[0], bad[1], bad[2], tok(bad[3])), '0')
    d, z, k = trip[-1]
    r, s = py_sign(d, z, k)
    for rr, ss in ((N, s), (r, N), (N, N), (-r, s), (r, -s), (N - 1, N - 1), (1, 1)):
        add('verify_edge', 'verify %d %d %d %s' % (z, rr, ss, tok(ec_mul(d, G))))
    add('verify_edge', 'verify %d %d %d inf' % (z, r, s), '0')
    for s in (N // 2 - 1, N // 2, N // 2 + 1, N // 2 + 2, 1, N - 1, 1 << 255, (1 << 255) - 1):
        add('lows', 'lows %d' % s, str(min(s, N - s)))

    # ---- RFC 6979
    for d, msg, k in RFC6979_VECTORS:
        h1 = hashlib.sha256(msg).digest()
        add('nonce_vec', 'nonce %d %s' % (d, h1.hex()), str(k))
        r, s = py_sign(d, int.from_bytes(h1, 'big'), k)
        add('signdet_vec', 'signdet %d %s' % (d, h1.hex()), '%d %d' % (r, s))
    for i in range(1000 if big else 100):
        d = rscalar(rng)
        h1 = rbytes(rng, 32)
        if i % 10 == 0:
            h1 = rng.choice([b'\x00' * 32, b'\xff' * 32, N.to_bytes(32, 'big'), (N - 1).to_bytes(32, 'big'),
                             (N + 1).to_bytes(32, 'big'), b'\x00' * 31 + b'\x01'])
        add('nonce', 'nonce %d %s' % (d, h1.hex()))
        if i % 4 == 0:
            add('signdet', 'signdet %d %s' % (d, h1.hex()))
    for ln in (0, 1, 20, 28, 31, 33, 48, 64, 100):
        for _ in range(3):
            b = rbytes(rng, ln)
            add('bits2int', 'bits2int ' + hx(b))
            add('nonce_len', 'nonce %d %s' % (rscalar(rng), hx(b)))
    return cs


# ---------------------------------------------------------------- verdicts
def prop_check(case, impl_out):
    """Published vectors and the pure-Python third opinion: the reference's own answer must equal them."""
    if case.meta is not None and impl_out != case.meta:
        return 'reference answer %s differs from the expected value %s for %s' % (
            impl_out[:80], case.meta[:80], case.req[:120])
    return None


def is_trivial(case, impl_out):
    return impl_out.startswith('ERR') or impl_out.startswith('CRASH') or impl_out == 'BADREQ'


KNOWN_CLASSES = {}


def reproduce_known(entry, rundir):
    return False
